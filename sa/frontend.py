"""Front end (E1): modules, imports, classes, MRO, properties, private-name mangling,
symbol resolution.  Works on a {module name: source text} map so that the self-test can
analyse in-memory variants of today's sources.  Nothing from the package is imported."""
import ast
import os

PKG = 'spectrum'
REPO_SRC = os.environ.get('SPECTRUM_SRC', '/repo/src/spectrum')


class AnalysisError(Exception):
    """The analysis itself is broken (vanished anchor, unsupported construct, unknown
    primitive at an obligation sink).  Reported as ANALYSIS-ERROR, exit 2; never a verdict."""


def read_repo_sources(src_dir=None):
    src_dir = src_dir or REPO_SRC
    out = {}
    if not os.path.isdir(src_dir):
        raise AnalysisError('source directory %s not found' % src_dir)
    for fn in sorted(os.listdir(src_dir)):
        if fn.endswith('.py'):
            with open(os.path.join(src_dir, fn), encoding='utf-8') as fh:
                out[fn[:-3]] = fh.read()
    return out


# ----------------------------------------------------------------------------- symbols
class Sym:
    """Resolved symbol."""
    kind = 'sym'


class FuncSym(Sym):
    kind = 'func'

    def __init__(self, mod, node, cls=None):
        self.mod = mod
        self.node = node
        self.cls = cls       # ClassInfo for methods

    @property
    def name(self):
        return self.node.name

    @property
    def qname(self):
        if self.cls is not None:
            return '%s.%s.%s' % (self.mod, self.cls.name, self.node.name)
        return '%s.%s' % (self.mod, self.node.name)

    def __repr__(self):
        return 'Func(%s)' % self.qname


class ModSym(Sym):
    kind = 'module'

    def __init__(self, name, internal):
        self.name = name          # 'spectrum.tools' -> internal name 'tools'; external dotted name otherwise
        self.internal = internal

    def __repr__(self):
        return 'Mod(%s)' % self.name


class ExtSym(Sym):
    """name living in an external library: numpy.fft.fft, scipy.linalg.lstsq, builtins.len ..."""
    kind = 'ext'

    def __init__(self, dotted):
        self.dotted = dotted

    @property
    def base(self):
        return self.dotted.split('.')[-1]

    def __repr__(self):
        return 'Ext(%s)' % self.dotted


class ConstSym(Sym):
    """module-level assignment NAME = <expr> (kept as AST; evaluated by the interpreter)"""
    kind = 'const'

    def __init__(self, mod, name, node):
        self.mod = mod
        self.name = name
        self.node = node

    def __repr__(self):
        return 'ConstSym(%s.%s)' % (self.mod, self.name)


class ClassInfo(Sym):
    kind = 'class'

    def __init__(self, prog, mod, node):
        self.prog = prog
        self.mod = mod
        self.node = node
        self.name = node.name
        self.methods = {}
        self.props = {}        # name -> (fget name|None, fset name|None)
        self.attrs = {}        # class-level assignments name -> ast expr
        for st in node.body:
            if isinstance(st, ast.FunctionDef):
                self.methods[st.name] = st
            elif isinstance(st, ast.Assign) and len(st.targets) == 1 and isinstance(st.targets[0], ast.Name):
                tname = st.targets[0].id
                v = st.value
                if isinstance(v, ast.Call) and isinstance(v.func, ast.Name) and v.func.id == 'property':
                    fget = fset = None
                    pos = list(v.args)
                    if len(pos) > 0 and isinstance(pos[0], ast.Name):
                        fget = pos[0].id
                    if len(pos) > 1 and isinstance(pos[1], ast.Name):
                        fset = pos[1].id
                    for k in v.keywords:
                        if k.arg == 'fget' and isinstance(k.value, ast.Name):
                            fget = k.value.id
                        if k.arg == 'fset' and isinstance(k.value, ast.Name):
                            fset = k.value.id
                    self.props[tname] = (fget, fset)
                else:
                    self.attrs[tname] = v
        self._bases = None

    @property
    def qname(self):
        return '%s.%s' % (self.mod, self.name)

    @property
    def bases(self):
        if self._bases is None:
            out = []
            for b in self.node.bases:
                s = None
                if isinstance(b, ast.Name):
                    s = self.prog.resolve(self.mod, b.id)
                if isinstance(s, ClassInfo):
                    out.append(s)
            self._bases = out
        return self._bases

    def mro(self):
        out = [self]
        for b in self.bases:
            for c in b.mro():
                if c not in out:
                    out.append(c)
        return out

    def find_method(self, name):
        for c in self.mro():
            if name in c.methods:
                return FuncSym(c.mod, c.methods[name], c)
        return None

    def find_prop(self, name):
        for c in self.mro():
            if name in c.props:
                return c, c.props[name]
            if name in c.methods or name in c.attrs:
                return None
        return None

    def find_attr(self, name):
        for c in self.mro():
            if name in c.attrs:
                return c, c.attrs[name]
        return None

    def is_subclass_of(self, other):
        return other in self.mro()

    def __repr__(self):
        return 'Class(%s)' % self.qname


def mangle(cls_name, attr):
    if attr.startswith('__') and not attr.endswith('__'):
        return '_%s%s' % (cls_name.lstrip('_'), attr)
    return attr


# ----------------------------------------------------------------------------- program
class Module:
    def __init__(self, name, src):
        self.name = name
        self.src = src
        self.tree = ast.parse(src, filename=name + '.py')
        self.funcs = {}
        self.classes = {}
        self.consts = {}
        self.imports = {}     # local name -> ('mod', dotted) | ('from', dotted module, name)
        self.stars = []       # dotted modules star-imported, in order
        self.all = None
        self.order = []       # (kind, name) in definition order, for star-export shadowing
        self._scan(self.tree.body)

    def _scan(self, body):
        for st in body:
            if isinstance(st, ast.FunctionDef):
                self.funcs[st.name] = st
                self.order.append(st.name)
            elif isinstance(st, ast.ClassDef):
                self.classes[st.name] = st
                self.order.append(st.name)
            elif isinstance(st, ast.Import):
                for a in st.names:
                    if a.asname:
                        self.imports[a.asname] = ('mod', a.name)
                    else:
                        top = a.name.split('.')[0]
                        self.imports[top] = ('mod', top)
                    self.order.append(a.asname or a.name.split('.')[0])
            elif isinstance(st, ast.ImportFrom):
                base = self._abs(st.module, st.level)
                for a in st.names:
                    if a.name == '*':
                        self.stars.append(base)
                    else:
                        self.imports[a.asname or a.name] = ('from', base, a.name)
                        self.order.append(a.asname or a.name)
            elif isinstance(st, ast.Assign):
                for t in st.targets:
                    if isinstance(t, ast.Name):
                        if t.id == '__all__':
                            try:
                                self.all = list(ast.literal_eval(st.value))
                            except Exception:
                                self.all = None
                        else:
                            self.consts[t.id] = st.value
                            self.order.append(t.id)
            elif isinstance(st, (ast.If, ast.Try)):
                # module-level conditional definitions (mtm.py library loading): scan bodies
                for fld in ('body', 'orelse', 'finalbody'):
                    self._scan(getattr(st, fld, []) or [])
                for h in getattr(st, 'handlers', []) or []:
                    self._scan(h.body)

    def _abs(self, module, level):
        if level == 0:
            return module or ''
        # relative to package `spectrum`
        return PKG + ('.' + module if module else '')

    def public_names(self):
        if self.all is not None:
            return list(self.all)
        names = []
        for n in list(self.funcs) + list(self.classes) + list(self.consts) + list(self.imports):
            if not n.startswith('_') and n not in names:
                names.append(n)
        return names


class Program:
    def __init__(self, sources):
        self.sources = dict(sources)
        self.modules = {}
        for name, src in sources.items():
            try:
                self.modules[name] = Module(name, src)
            except SyntaxError as e:
                raise AnalysisError('cannot parse %s: %s' % (name, e))
        self._classes = {}
        self._pkg_ns = None

    @classmethod
    def from_repo(cls, src_dir=None):
        return cls(read_repo_sources(src_dir))

    # ---- classes
    def class_info(self, mod, name):
        key = (mod, name)
        if key not in self._classes:
            self._classes[key] = ClassInfo(self, mod, self.modules[mod].classes[name])
        return self._classes[key]

    def all_classes(self):
        out = []
        for mname, m in self.modules.items():
            for cname in m.classes:
                out.append(self.class_info(mname, cname))
        return out

    def subclasses_of(self, base):
        return [c for c in self.all_classes() if c is not base and c.is_subclass_of(base)]

    # ---- package namespace (what `from spectrum import X` sees)
    def pkg_namespace(self):
        if self._pkg_ns is None:
            ns = {}
            init = self.modules.get('__init__')
            if init is None:
                raise AnalysisError('package __init__ missing')
            for n in init.funcs:
                ns[n] = ('__init__', n)
            for n in init.consts:
                ns[n] = ('__init__', n)
            for n in init.imports:
                ns[n] = ('__init__', n)
            for dotted in init.stars:
                m = self._internal(dotted)
                if m is None:
                    continue
                for n in self.modules[m].public_names():
                    ns[n] = (m, n)
            self._pkg_ns = ns
        return self._pkg_ns

    def _internal(self, dotted):
        """'spectrum.tools' -> 'tools' ; 'spectrum' -> '__init__' ; else None"""
        if dotted == PKG:
            return '__init__'
        if dotted.startswith(PKG + '.'):
            m = dotted[len(PKG) + 1:]
            if m in self.modules:
                return m
        return None

    # ---- resolution of a global name inside module `mod`
    def resolve(self, mod, name, _seen=None):
        _seen = _seen or set()
        if (mod, name) in _seen:
            return None
        _seen.add((mod, name))
        m = self.modules.get(mod)
        if m is None:
            return None
        if name in m.funcs:
            return FuncSym(mod, m.funcs[name])
        if name in m.classes:
            return self.class_info(mod, name)
        if name in m.imports:
            imp = m.imports[name]
            if imp[0] == 'mod':
                return self._module_sym(imp[1])
            _, base, nm = imp
            im = self._internal(base)
            if im == '__init__':
                # from spectrum import X / from . import X : submodule or package-namespace name
                if nm in self.modules and nm != '__init__':
                    # a submodule, unless the package namespace rebinds the name (e.g. `eigen`)
                    ns = self.pkg_namespace()
                    if nm in ns and ns[nm][0] != '__init__':
                        tm, tn = ns[nm]
                        r = self.resolve(tm, tn, _seen)
                        if r is not None and mod != '__init__':
                            # `from . import tools` style imports are resolved at import time of the
                            # submodule: the submodule object wins unless already shadowed.  The
                            # repo only does this for tools/arma/toeplitz/errors, never for `eigen`.
                            pass
                    return ModSym(PKG + '.' + nm, nm)
                ns = self.pkg_namespace()
                if nm in ns:
                    tm, tn = ns[nm]
                    if tm == '__init__':
                        init = self.modules['__init__']
                        if tn in init.consts:
                            return ConstSym('__init__', tn, init.consts[tn])
                        return self.resolve('__init__', tn, _seen)
                    return self.resolve(tm, tn, _seen)
                return None
            if im is not None:
                return self.resolve(im, nm, _seen)
            return ExtSym(base + '.' + nm)
        if name in m.consts:
            return ConstSym(mod, name, m.consts[name])
        for dotted in reversed(m.stars):
            im = self._internal(dotted)
            if im is not None and im != '__init__':
                if name in self.modules[im].public_names():
                    r = self.resolve(im, name, _seen)
                    if r is not None:
                        return r
            elif im is None:
                # star import from an external library (ctypes in mtm.py)
                return None
        return None

    def _module_sym(self, dotted):
        im = self._internal(dotted)
        if im is not None and im != '__init__':
            return ModSym(dotted, im)
        if dotted == PKG:
            return ModSym(PKG, '__init__')
        return ModSym(dotted, None)

    def module_attr(self, modsym, attr):
        """attribute of a module symbol"""
        if modsym.internal is not None:
            if modsym.internal == '__init__':
                if attr in self.modules and attr != '__init__':
                    return ModSym(PKG + '.' + attr, attr)
                ns = self.pkg_namespace()
                if attr in ns:
                    tm, tn = ns[attr]
                    return self.resolve(tm, tn)
                return None
            return self.resolve(modsym.internal, attr)
        # external
        sub = modsym.name + '.' + attr
        if sub in EXTERNAL_MODULES:
            return ModSym(sub, None)
        return ExtSym(sub)

    def func(self, mod, name):
        m = self.modules.get(mod)
        if m is None or name not in m.funcs:
            raise AnalysisError('anchor vanished: function %s.%s' % (mod, name))
        return FuncSym(mod, m.funcs[name])

    def cls(self, mod, name):
        m = self.modules.get(mod)
        if m is None or name not in m.classes:
            raise AnalysisError('anchor vanished: class %s.%s' % (mod, name))
        return self.class_info(mod, name)

    def method(self, mod, cname, mname):
        c = self.cls(mod, cname)
        f = c.find_method(mname)
        if f is None:
            raise AnalysisError('anchor vanished: method %s.%s.%s' % (mod, cname, mname))
        return f


EXTERNAL_MODULES = {
    'numpy', 'numpy.fft', 'numpy.linalg', 'numpy.ctypeslib', 'numpy.random',
    'scipy', 'scipy.signal', 'scipy.signal.windows', 'scipy.linalg', 'scipy.special', 'scipy.fftpack',
    'pylab', 'logging', 'os', 'os.path', 'sys', 'ctypes', 'platform', 'collections', 'math',
}


def normalise(node):
    """normalised construct text used as a finding key (never line numbers)"""
    try:
        return ' '.join(ast.unparse(node).split())
    except Exception:
        return '<%s>' % type(node).__name__


def loc(mod, node):
    return 'src/spectrum/%s.py:%s' % (mod, getattr(node, 'lineno', '?'))
