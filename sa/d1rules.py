"""helpers shared by the rules that use the abstract interpreter (sinks, conflicts, class construction)"""
import ast
from fractions import Fraction as F

from .frontend import AnalysisError, loc, normalise
from .values import *      # noqa
from . import contexts as C

PSD_FIELD = '_Spectrum__psd'

# unknown-primitive reports that cannot influence any numeric sink (plotting, printing)
HARMLESS_UNKNOWN = ('pylab', 'semilogy', 'logging')


def psd_classes(prog, include_daniell=False):
    base = prog.cls('psd', 'Spectrum')
    out = []
    for c in prog.subclasses_of(base):
        if '__call__' in c.methods or (c.find_method('__call__') is not None and c.methods):
            if c.find_method('__call__') is None:
                continue
            if c.name == 'pdaniell' and not include_daniell:
                continue
            out.append(c)
    out.sort(key=lambda c: c.qname)
    return out


def ctor_args(cls, cplx, parity, scale=None, sampling=True, overrides=None, phase=False, small_orders=False, nparity=None):
    """abstract constructor keyword arguments chosen by parameter *name* from the class' own __init__ signature"""
    init = cls.find_method('__init__')
    if init is None:
        raise AnalysisError('%s has no __init__' % cls.qname)
    names = [a.arg for a in init.node.args.args][1:]
    kw = {}
    for n in names:
        if n == 'data':
            dl = None
            if nparity is not None:
                Aff.SYM_MIN['n'] = 4
                dl = Aff.sym('n').scale(2) + (1 if nparity == 'odd' else 0)
            kw[n] = C.data(cplx, phase=phase, n=dl)
        elif n in ('order', 'IP', 'P'):
            kw[n] = C.symint('P', 2, 'order') if not small_orders else Const(3, frozenset(['order']))
        elif n in ('Q',):
            kw[n] = C.symint('Q', 1, 'order') if not small_orders else Const(2, frozenset(['order']))
        elif n in ('M',):
            kw[n] = C.symint('M', 2, 'order')
        elif n == 'lag':
            kw[n] = C.symint('lag', 2, 'lag')
        elif n == 'NFFT':
            kw[n] = C.nfft(parity)
        elif n == 'sampling':
            if sampling:
                kw[n] = C.sampling()
        elif n == 'scale_by_freq':
            if scale is not None:
                kw[n] = Const(scale)
        elif n == 'NW':
            kw[n] = C.deg0(label='NW')
        elif n == 'k':
            kw[n] = C.symint('K', 1, 'k')
    if overrides:
        kw.update(overrides)
    return kw


def unknown_blocking(itp):
    return [u for u in itp.unknown if not any(h in u[0] for h in HARMLESS_UNKNOWN)]


def fmt_deg(n, comps=('s', 'g', 'hz', 'nfft', 'win')):
    if n is None:
        return 'None'
    if not isinstance(n, Num):
        return repr(n)
    if n.zero:
        return 'zero'
    if n.log is not None:
        return 'log-type' + str({c: str(n.log.get(c)) for c in comps if dzero(n.log.get(c, F(0))) is not True})
    return '{' + ', '.join('%s:%s' % (c, n.deg[c]) for c in comps) + '}'


def variant_labels(val):
    return sorted(l for l in taint_of(val) if isinstance(l, str) and l.startswith('V:'))


def check_sink(rep, rule, func, ctx, name, val, expected, where='', itp=None, comps=None, seen=None):
    """expected: dict comp -> Fraction.  known & different -> VIOLATION; TOP -> UNDECIDED; else PROVED.
    A scale-variant decision (label V:n in the dependence set) reaching the sink is a violation at the decision."""
    construct = '%s [%s]' % (name, ctx)
    if itp is not None:
        hit = False
        for lab in variant_labels(val):
            c = itp.variants[lab]
            if comps is not None and not (set(c.comp.split(',')) & set(comps)):
                continue
            hit = True
            key = (rule, c.func, c.kind, c.construct)
            if seen is not None and key in seen:
                continue
            if seen is not None:
                seen.add(key)
            rep.violation(rule, c.func, '%s: %s' % (c.kind, c.construct),
                          '%s; the decision reaches output %s of %s (first seen in context %s)' % (c.msg, name, func, ctx),
                          'src/spectrum/%s.py:%s' % (c.mod, c.line))
        if hit:
            return False
    n = tonum(val) if val is not None and not isinstance(val, (Tup, SeqV, TopV, Opaque, StrV)) else None
    if isinstance(val, SeqV) and val.elem is not None:
        n = tonum(val.elem)
    if n is None:
        rep.undecided(rule, func, construct, 'sink value is not numeric: %r' % (val,), where)
        return False
    bad, unk = [], []
    for c, e in expected.items():
        if n.zero:
            continue
        if n.log is not None:
            bad.append('%s: log-type value where exponent %s is required' % (c, e))
            continue
        d = n.deg[c]
        q = deq(d, e)
        if q is None:
            unk.append(c)
        elif q is False:
            bad.append('%s: exponent %s, required %s' % (c, d, e))
    if bad:
        rep.violation(rule, func, construct, '; '.join(bad), where, ['value type ' + fmt_deg(n)])
        return False
    if unk:
        rep.undecided(rule, func, construct, 'exponent(s) %s not derivable (TOP) at the sink' % unk, where)
        return False
    rep.proved(rule, func, construct, 'type ' + fmt_deg(n, tuple(expected)), where)
    return True


def report_conflicts(rep, rule, itp, comps, ctx, seen, allow=(), kinds=None):
    """each definite conflict in one of `comps` is a violation at its own construct (function, normalised text)"""
    n = 0
    for c in itp.conflicts:
        cc = set(c.comp.split(','))
        if not (cc & set(comps)):
            continue
        if kinds is not None and c.kind not in kinds:
            continue
        if any(c.func == a[0] and (a[1] is None or a[1] in c.construct) for a in allow):
            continue
        key = (rule, c.func, c.kind, c.construct)
        n += 1
        if key in seen:
            continue
        seen.add(key)
        rep.violation(rule, c.func, '%s: %s' % (c.kind, c.construct), '%s (first seen in context %s)' % (c.msg, ctx),
                      'src/spectrum/%s.py:%s' % (c.mod, c.line))
    return n


def blocked(rep, rule, func, ctx, itp):
    ub = unknown_blocking(itp)
    if ub:
        rep.undecided(rule, func, 'unknown primitives [%s]' % ctx, '; '.join('%s in %s' % (u[0], u[1]) for u in ub[:6]))
        return True
    return False


# ----------------------------------------------------------------------------- admission of the stated domain
def _eval_test(test, cmps, env):
    """three-valued value of a guard under a concrete assignment of the size symbols; only comparisons whose operands
    the interpreter resolved to affine integers are interpreted (anything else is unknown)"""
    if isinstance(test, ast.BoolOp):
        vals = [_eval_test(v, cmps, env) for v in test.values]
        if isinstance(test.op, ast.And):
            if any(v is False for v in vals):
                return False
            return True if all(v is True for v in vals) else None
        if any(v is True for v in vals):
            return True
        return False if all(v is False for v in vals) else None
    if isinstance(test, ast.UnaryOp) and isinstance(test.op, ast.Not):
        v = _eval_test(test.operand, cmps, env)
        return None if v is None else (not v)
    if isinstance(test, ast.Compare) and id(test) in cmps:
        res = True
        for op, la, ra in cmps[id(test)]:
            l, r = la.subs(env), ra.subs(env)
            if not (l.is_const() and r.is_const()):
                return None
            l, r = l.c, r.c
            ok = {ast.Lt: l < r, ast.LtE: l <= r, ast.Gt: l > r, ast.GtE: l >= r, ast.Eq: l == r, ast.NotEq: l != r}.get(type(op))
            if ok is None:
                return None
            res = res and ok
        return res
    return None


def admission(rep, rule, itp, funcs, domain, describe, seen=None, entry=None):
    """Every `if <test on sizes>: raise` reached in `funcs` is evaluated on each concrete point of the stated admissible
    domain (`domain`: list of {symbol: int}); a point on which the guard definitely raises is a witness that an admissible
    input is rejected.  Guards on data values (unknown under a size assignment) are not judged.  Returns (#guards, #bad)."""
    n = nbad = 0
    for e in itp.events:
        if e[0] != 'guard-raise' or e[4] not in funcs:
            continue
        s, arm, cmps = e[1], e[2], e[3]
        if not cmps:
            continue
        block = s.body if arm == 'body' else s.orelse
        if not block or not isinstance(block[-1], ast.Raise) or \
                any(isinstance(x, (ast.Return, ast.Break, ast.Continue)) for b in block for x in ast.walk(b)):
            continue
        n += 1
        key = (rule, entry, e[4], normalise(s.test))
        if seen is not None and key in seen:
            continue
        wit = None
        nrej = 0
        for env in domain:
            v = _eval_test(s.test, cmps, {k: Aff(c) for k, c in env.items()})
            if v is (arm == 'body') and v is not None:
                wit = env if wit is None else wit
                nrej += 1
        if seen is not None:
            seen.add(key)
        fq = e[4]
        mod = fq.split('.')[0]
        form = 'if %s: raise' if arm == 'body' else 'unless %s: raise'
        if wit is not None:
            nbad += 1
            # keyed by what is rejected (not by how the guard is spelt): entry point, count and first rejected grid point
            rep.violation(rule, fq, 'size guard' + (' reached from %s' % entry if entry else '') +
                          ' rejects %d of %d grid points, first %s' % (nrej, len(domain), describe(wit)),
                          'the guard `%s` rejects inputs of the stated domain, e.g. %s (the estimator raises instead of returning '
                          'the model)' % (form % normalise(s.test)[:80], describe(wit)), loc(mod, s))
        else:
            rep.proved(rule, fq, (form % normalise(s.test)[:80]) + (' [reached from %s]' % entry if entry else ''), 'never raises on the %d points of the admissible size grid' % len(domain),
                       loc(mod, s))
    return n, nbad


def admission_of(rep, prog, rule, mod, fname, make_args, grid, describe, seen, nmin=None):
    """run mod.fname once on symbolic sizes (make_args() -> (args, kwargs); integer parameters are IntV over named symbols whose
    assumed minimum is the smallest value on the grid) and judge every size guard reached in the call tree on the grid"""
    f = prog.func(mod, fname)
    syms = sorted(set(k for pt in grid for k in pt))
    saved = {s_: Aff.SYM_MIN.get(s_) for s_ in syms}
    try:
        for s_ in syms:
            Aff.SYM_MIN[s_] = min(pt[s_] for pt in grid if s_ in pt)
        args, kw = make_args()
        try:
            v, itp = C.run_function(prog, mod, fname, args, kw)
        except AnalysisError as e:
            rep.undecided(rule, f.qname, 'size guards', str(e), loc(f.mod, f.node))
            return 0
        funcs = set(itp.trace) | {f.qname}
        n, _bad = admission(rep, rule, itp, funcs, grid, describe, seen, entry=f.qname)
        if n == 0:
            rep.proved(rule, f.qname, 'size guards', 'no raise is guarded by an undecided test on the sizes alone (%d grid points)' % len(grid),
                       loc(f.mod, f.node))
        return n
    finally:
        for s_, v_ in saved.items():
            if v_ is None:
                Aff.SYM_MIN.pop(s_, None)
            else:
                Aff.SYM_MIN[s_] = v_
