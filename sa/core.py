"""shared pieces of the abstract interpreter: control exceptions, conflicts, states, joins"""
import ast
from fractions import Fraction as F

from .frontend import normalise
from .values import *      # noqa


_FRESH = 0


class PathEnd(Exception):
    """the current path does not continue (raise / callee never returns)"""


class Conflict:
    def __init__(self, kind, comp, msg, node, func, mod):
        self.kind = kind        # add | compare | store | variant-branch | phase | concat | arg
        self.comp = comp        # component(s) concerned
        self.msg = msg
        self.node = node
        self.func = func
        self.mod = mod

    @property
    def construct(self):
        return normalise(self.node) if self.node is not None else ''

    @property
    def line(self):
        return getattr(self.node, 'lineno', 0)

    def key(self):
        return (self.kind, self.comp, self.func, self.construct, self.msg)

    def __repr__(self):
        return '%s[%s] %s: %s  @%s:%s `%s`' % (self.kind, self.comp, self.func, self.msg, self.mod, self.line,
                                                 self.construct[:90])


class St:
    __slots__ = ('env', 'heap')

    def __init__(self, env, heap):
        self.env = env
        self.heap = heap

    def fork(self):
        return St(dict(self.env), {k: o.copy() for k, o in self.heap.items()})


class Frame:
    def __init__(self, fsym, closure=None):
        self.fsym = fsym
        self.rets = []          # (value, heap)
        self.loops = []         # stack of dict(breaks=[], conts=[])
        self.closure = closure
        self.strong = {}
        self.last_end = None
        self.last_break_hit = False
        self.yields = None
        self.ycounts = None
        self.loopn = []


# ----------------------------------------------------------------------------- joins
def join(a, b):
    if a is None:
        return b
    if b is None:
        return a
    if a is b:
        return a
    if isinstance(a, Const) and isinstance(b, Const):
        try:
            if type(a.v) == type(b.v) and a.v == b.v:
                return a if a.taint >= b.taint else Const(a.v, a.taint | b.taint)
        except Exception:
            pass
        if a.v is None and b.v is None:
            return a
    t = taint_of(a) | taint_of(b)
    if isinstance(a, Tup) and isinstance(b, Tup):
        if len(a.items) == len(b.items):
            return Tup([join(x, y) for x, y in zip(a.items, b.items)], a.taint | b.taint, a.mutable or b.mutable)
        e = None
        for x in a.items + b.items:
            e = join(e, x)
        return SeqV(e, None, t)
    if isinstance(a, SeqV) or isinstance(b, SeqV):
        def el(x):
            if isinstance(x, SeqV):
                return x.elem
            if isinstance(x, Tup):
                e = None
                for i in x.items:
                    e = join(e, i)
                return e
            return None
        if isinstance(a, (SeqV, Tup)) and isinstance(b, (SeqV, Tup)):
            na = a.n if isinstance(a, SeqV) else Aff(len(a.items))
            nb = b.n if isinstance(b, SeqV) else Aff(len(b.items))
            r_ = SeqV(join(el(a), el(b)), na if (na is not None and nb is not None and na == nb) else None, t)
            qa, qb = seq_charges(a), seq_charges(b)
            if qa is not None and qb is not None:
                from .charge import q_join
                r_.qarr = q_join(qa, qb)
            return r_
    if isinstance(a, IntV) and isinstance(b, IntV):
        if a.a is not None and b.a is not None and a.a == b.a:
            aa = a.a
        else:
            # some fixed but unknown integer: a fresh universally quantified symbol
            global _FRESH
            _FRESH += 1
            nm = 'j%d' % _FRESH
            Aff.SYM_MIN[nm] = 1
            aa = Aff.sym(nm)
        return IntV(aa, t, a.nfft if deq(a.nfft, b.nfft) else TOP)
    ints = lambda x: isinstance(x, IntV) or (isinstance(x, Const) and isinstance(x.v, int) and not isinstance(x.v, bool))
    if ints(a) and ints(b):
        ia = a if isinstance(a, IntV) else IntV(a.v, a.taint)
        ib = b if isinstance(b, IntV) else IntV(b.v, b.taint)
        return join(ia, ib)
    if isinstance(a, (BoolV, Const)) and isinstance(b, (BoolV, Const)) and \
            all(isinstance(x, BoolV) or isinstance(x.v, bool) for x in (a, b)):
        return BoolV(getattr(a, 'variant', False) or getattr(b, 'variant', False), t)
    na, nb = tonum(a), tonum(b)
    if na is not None and nb is not None and not (isinstance(a, Const) and a.v is None) \
            and not isinstance(a, (Tup, SeqV)) and not isinstance(b, (Tup, SeqV)):
        return num_join(na, nb)
    if isinstance(a, Ref) and isinstance(b, Ref) and a.oid == b.oid:
        return a
    if isinstance(a, StrV) and isinstance(b, (StrV, Const)) or isinstance(b, StrV) and isinstance(a, Const):
        return StrV('join', t)
    if isinstance(a, Const) and isinstance(b, Const) and isinstance(a.v, str) and isinstance(b.v, str):
        return StrV('join', t, choices=[a.v, b.v])
    if type(a) is type(b) and isinstance(a, (FuncV, ClsV, ModV, ExtV, Opaque)):
        return a
    # optional values  None | T : keep T (the None case is excluded by the code's own tests)
    if isinstance(a, Const) and a.v is None:
        return b.with_taint(t)
    if isinstance(b, Const) and b.v is None:
        return a.with_taint(t)
    return TopV('join %s/%s' % (type(a).__name__, type(b).__name__), t)


def join_heap(h1, h2):
    if h1 is h2:
        return h1
    out = {}
    for k in set(h1) | set(h2):
        if k in h1 and k in h2:
            o1, o2 = h1[k], h2[k]
            f = {}
            for n in set(o1.f) | set(o2.f):
                if n in o1.f and n in o2.f:
                    f[n] = join(o1.f[n], o2.f[n])
                else:
                    f[n] = o1.f.get(n, o2.f.get(n))
            out[k] = HObj(o1.cls, f)
        else:
            out[k] = (h1.get(k) or h2.get(k)).copy()
    return out


def join_st(s1, s2):
    if s1 is None:
        return s2
    if s2 is None:
        return s1
    env = {}
    for k in set(s1.env) | set(s2.env):
        if k in s1.env and k in s2.env:
            env[k] = join(s1.env[k], s2.env[k])
        else:
            env[k] = s1.env.get(k, s2.env.get(k))
    return St(env, join_heap(s1.heap, s2.heap))


def seq_charges(x):
    """charges of the items of a python sequence by position (None when unknown)"""
    if isinstance(x, SeqV):
        return x.qarr
    if isinstance(x, Tup):
        d = {}
        for i, it in enumerate(x.items):
            q = getattr(it, 'q', None)
            if not isinstance(it, Num) or q is None or not isinstance(q, Aff):
                return None
            d[Aff(i)] = q
        return ('partial', d) if d else 'any'
    return None


BUILTINS = {'len', 'range', 'int', 'float', 'complex', 'abs', 'sum', 'max', 'min', 'list', 'tuple', 'reversed',
            'enumerate', 'zip', 'isinstance', 'hasattr', 'getattr', 'type', 'str', 'print', 'round', 'pow', 'sorted',
            'dir', 'eval', 'super', 'property', 'object', 'bool', 'dict', 'set', 'any', 'all', 'map', 'divmod',
            'ValueError', 'TypeError', 'AssertionError', 'NotImplementedError', 'Exception', 'ImportError',
            'ModuleNotFoundError', 'slice', 'id', 'iter', 'next', 'repr', 'open', 'callable', 'globals', 'vars', 'locals',
            'KeyError', 'IndexError', 'RuntimeError', 'AttributeError', 'setattr', 'frozenset', 'staticmethod', 'classmethod',
            'filter', 'ZeroDivisionError', 'OverflowError', 'StopIteration', 'bytes', 'ord', 'chr', 'hash', 'format', 'delattr'}


