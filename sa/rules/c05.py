"""C05 — NFFT only chooses the sampling grid of one underlying spectrum (D5 dependence + D1 nfft exponent).

C05-param: model parameters carry no dependence (data or control) on NFFT.
C05-role:  NFFT reaches the spectrum only as (i) the length argument of the transform, (ii) the size of a zero
           buffer / index arithmetic placing samples, never in a value that is stored in the transformed sequence;
           with scaling off the PSD carries NFFT^0 as a number."""
from fractions import Fraction as F

from ..frontend import AnalysisError, loc, normalise
from ..values import *      # noqa
from .. import contexts as C
from ..d1rules import psd_classes, ctor_args, check_sink, report_conflicts, blocked, PSD_FIELD

PROP = 'C05'
LEVEL = 'proof'
PARAM_FIELDS = [('_ParametricSpectrum__ar', 'ar'), ('_ParametricSpectrum__ma', 'ma'), ('_ParametricSpectrum__rho', 'rho'),
                ('_ParametricSpectrum__reflection', 'reflection'), ('eigenvalues', 'eigenvalues'),
                ('_Spectrum__data', 'data'), ('_Spectrum__sampling', 'sampling')]
# documented exception (exact symbol): the adaptive multitaper weights are a per-frequency array and its stopping test
# averages over the NFFT grid; C05 lists tapers/eigenvalues, not the weights
SRC = 'NFFT'


def dep(v):
    return SRC in taint_of(v)


def check_param(rep, func, ctx, name, val, where):
    construct = '%s [%s]' % (name, ctx)
    if val is None or (isinstance(val, Const) and val.v is None):
        return 0
    if isinstance(val, TopV):
        rep.undecided('param-independent', func, construct, 'value not tracked (%s)' % val.why, where)
        return 1
    if dep(val):
        rep.violation('param-independent', func, construct,
                      'model parameter depends on NFFT (data or control dependence): two admissible NFFT values would '
                      'give different parameters', where)
    else:
        rep.proved('param-independent', func, construct, 'dependence set %s' % sorted(
            t for t in taint_of(val) if not str(t).startswith('V:')), where)
    return 1


def check_roles(rep, func, ctx, itp, nfft_aff, seen, where):
    """fft lengths and buffer stores observed during the abstract run"""
    store_mid = {id(e_[1]): e_[2] for e_ in itp.events if e_[0] == 'store-mid'}
    fft_mids = {getattr(e_[6], 'mid', None) for e_ in itp.events if e_[0] == 'fft' and e_[6] is not None} - {None}
    n = 0
    for ev in itp.events:
        if ev[0] == 'fft':
            _k, node, base, ashape, nlen, ax, a = ev
            key = ('fft', normalise(node))
            n += 1
            from ..prims import _int_aff
            la = _int_aff(nlen) if nlen is not None else None
            if nlen is None or (isinstance(nlen, Const) and nlen.v is None):
                # transform of a buffer that already has the target length
                ok = ashape is not None and ax is not None and ashape[ax % len(ashape)] is not None \
                    and (ashape[ax % len(ashape)] == nfft_aff or SRC not in a.taint)
                detail = 'no length argument: operand length %s' % (ashape,)
            else:
                ok = la is not None and la == nfft_aff
                detail = 'length argument %s' % (la,)
                if SRC not in taint_of(nlen) and la is not None and la != nfft_aff:
                    # a transform whose length does not involve NFFT at all is not on the grid path (lpc, dpss helpers)
                    continue
            if key + (ok,) in seen:
                continue
            seen.add(key + (ok,))
            if ok:
                rep.proved('role-fft-length', func, normalise(node), detail + ' == NFFT [%s]' % ctx, where)
            else:
                rep.violation('role-fft-length', func, normalise(node),
                              'the transform on the PSD path does not use NFFT as its length (%s, NFFT = %s) [%s]'
                              % (detail, nfft_aff, ctx), where)
        elif ev[0] == 'store':
            _k, node, bshape, vt, it_, fq = ev
            if bshape is None or len(bshape) != 1 or bshape[0] is None or bshape[0] != nfft_aff:
                continue
            mid_ = store_mid.get(id(node))
            if mid_ is not None and mid_ not in fft_mids:
                continue            # an NFFT-long buffer that never reaches a transform (an output being assembled)
            key = ('store', fq, normalise(node))
            n += 1
            ok = SRC not in vt
            if key + (ok,) in seen:
                continue
            seen.add(key + (ok,))
            if ok:
                rep.proved('role-buffer-content', fq, normalise(node), 'value stored in the NFFT-long buffer does not '
                           'depend on NFFT (NFFT only positions it) [%s]' % ctx, where)
            else:
                rep.violation('role-buffer-content', fq, normalise(node),
                              'a value that depends on NFFT is stored into the sequence that is transformed [%s]' % ctx, where)
    return n


def run(prog, rep, tier='quick'):
    rep.explanation = (
        'Non-interference of NFFT: (param-independent) after construction + __call__ of every PSD class, and for the '
        'functional estimators, AR/MA coefficients, variances, reflection coefficients, singular values, taper '
        'eigenvalues, data and sampling carry no data or control dependence on the NFFT argument; (role) every '
        'transform on the spectrum path has NFFT as its length, values stored into NFFT-long buffers do not depend '
        'on NFFT, and with scaling off the PSD carries NFFT^0 as a number. With the zero-padding axiom of fft this '
        'gives agreement of two admissible NFFT grids on common frequencies. Not decided: admissibility bounds '
        '(NFFT >= N etc.: truncation when NFFT is smaller), rounding.')
    rep.rule('param-independent', 'dependence set (data+control, exception-insensitive) of each model-parameter sink excludes NFFT')
    rep.rule('role-fft-length', 'length argument of each (r)fft reached with an NFFT-dependent length equals NFFT')
    rep.rule('role-buffer-content', 'values stored into a buffer of length NFFT do not depend on NFFT')
    rep.rule('grid-independent-fold', 'per class and data kind: the weight of bin 0 in the stored PSD (index map) is the same for even and odd NFFT')
    rep.rule('role-no-numeric-NFFT', 'unscaled PSD has NFFT exponent 0 as a number')
    rep.assumptions += ['fft(a, n) zero-pads when n >= len(a) (admissible NFFT)', 'exception-insensitive dependence']
    seen = set()
    dc_weight = {}
    classes = psd_classes(prog)
    nsink = nrole = nrun = 0
    for cls in classes:
        for cplx in (False, True):
            for parity in ('even', 'odd'):
                label = '%s,NFFT %s' % ('complex' if cplx else 'real', parity)
                kw = ctor_args(cls, cplx, parity, scale=False)
                ref, obj, itp, ok = C.run_class(prog, cls.mod, cls.name, [], kw)
                nrun += 1
                if blocked(rep, 'param-independent', cls.qname, label, itp):
                    continue
                if not ok or obj is None:
                    rep.analysed.setdefault('contexts_without_estimate', []).append('%s %s' % (cls.qname, label))
                    continue
                where = loc(cls.mod, cls.node)
                for field, name in PARAM_FIELDS:
                    if field in obj.f:
                        nsink += check_param(rep, cls.qname, label, name, obj.f[field], where)
                nrole += check_roles(rep, cls.qname, label, itp, kw['NFFT'].a, seen, where)
                psd = obj.f.get(PSD_FIELD)
                nf = obj.f.get('_Spectrum__NFFT')
                if psd is not None and isinstance(nf, IntV) and nf.a == kw['NFFT'].a:
                    report_conflicts(rep, 'role-no-numeric-NFFT', itp, ('nfft', 'index'), '%s,%s' % (cls.name, label), seen)
                    check_sink(rep, 'role-no-numeric-NFFT', cls.qname, label, 'psd', psd, {'nfft': F(0)}, where)
                    sg_ = getattr(psd, 'seg', None)
                    if sg_:
                        from .. import segmap as _S
                        first_ = _S.normalise(sg_)[0]
                        dc_weight.setdefault((cls.qname, cplx), {})[parity] = (first_.w, where)
    # the weight the fold puts on the zero-frequency bin is the same on every grid: f = 0 belongs to all of them
    for (cq, cplx_), per in sorted(dc_weight.items()):
        if len(per) == 2:
            (we, wh), (wo, _w) = per['even'], per['odd']
            lab_ = 'zero-frequency bin, %s' % ('complex' if cplx_ else 'real')
            if we == wo:
                rep.proved('grid-independent-fold', cq, lab_, 'weight %s for even and odd NFFT' % we, wh)
            else:
                rep.violation('grid-independent-fold', cq, lab_, 'the estimate at f = 0 carries weight %s when NFFT is even and %s when it is '
                              'odd: two admissible grids disagree at a frequency they share' % (we, wo), wh)
    # functional estimators that take NFFT
    P = lambda: C.symint('P', 2, 'order')
    FUN = [
        ('minvar', 'minvar', lambda x, n: ([x, P()], {'NFFT': n}), lambda r: [('A', r.items[1]), ('k', r.items[2])], lambda r: r.items[0]),
        ('eigenfre', 'eigen', lambda x, n: ([x, P()], {'NFFT': n, 'NSIG': C.symint('NSIG', 1)}), lambda r: [('S', r.items[1])], lambda r: r.items[0]),
        ('mtm', 'pmtm', lambda x, n: ([x], {'NFFT': n, 'NW': C.deg0(label='NW'), 'k': C.symint('K', 1, 'k'), 'method': Const('eigen')}),
         lambda r: [('eigenvalues', r.items[2]), ('weights', r.items[1])], lambda r: r.items[0]),
        ('mtm', 'pmtm', lambda x, n: ([x], {'NFFT': n, 'NW': C.deg0(label='NW'), 'k': C.symint('K', 1, 'k'), 'method': Const('adapt')}),
         lambda r: [('eigenvalues', r.items[2])], lambda r: r.items[0]),
        ('arma', 'arma2psd', lambda x, n: ([], {'A': C.deg0((C.symint('P', 2).a,), True, 'A'), 'B': C.deg0((C.symint('Q', 1).a,), True, 'B'), 'NFFT': n}),
         lambda r: [], lambda r: r),
        ('periodogram', 'speriodogram', lambda x, n: ([x], {'NFFT': n, 'scale_by_freq': Const(False), 'detrend': Const(False), 'window': StrV('w')}),
         lambda r: [], lambda r: r),
        ('correlog', 'CORRELOGRAMPSD', lambda x, n: ([x], {'NFFT': n, 'lag': C.symint('lag', 2, 'lag'), 'window': StrV('w')}),
         lambda r: [], lambda r: r),
    ]
    for mod, fname, mk, params, psdof in FUN:
        f = prog.func(mod, fname)
        for cplx in (False, True):
            for parity in ('even', 'odd'):
                n = C.nfft(parity)
                args, kw = mk(C.data(cplx), n)
                label = '%s,NFFT %s%s' % ('complex' if cplx else 'real', parity,
                                          (',' + kw['method'].v) if 'method' in kw else '')
                v, itp = C.run_function(prog, mod, fname, args, kw)
                nrun += 1
                if blocked(rep, 'param-independent', f.qname, label, itp):
                    continue
                if v is None:
                    rep.undecided('param-independent', f.qname, 'no returning path [%s]' % label, '')
                    continue
                where = loc(f.mod, f.node)
                for name, val in params(v):
                    nsink += check_param(rep, f.qname, label, name, val, where)
                nrole += check_roles(rep, f.qname, label, itp, n.a, seen, where)
                report_conflicts(rep, 'role-no-numeric-NFFT', itp, ('nfft',), '%s,%s' % (fname, label), seen)
                check_sink(rep, 'role-no-numeric-NFFT', f.qname, label, 'spectrum', psdof(v), {'nfft': F(0)}, where)
    rep.analysed['classes'] = [c.qname for c in classes]
    rep.analysed['abstract_runs'] = nrun
    from ..prims import USED
    rep.trusted += sorted(USED)
    rep.floor('parameter sinks', nsink, 20)
    rep.floor('fft/buffer role instances', nrole, 12)
