"""C09 — correlation estimates match their definition and are consistent (decidable clauses)."""
from fractions import Fraction as F

import sympy as sp

from ..frontend import AnalysisError, loc, normalise
from ..values import *      # noqa
from .. import contexts as C
from ..d1rules import check_sink, report_conflicts, blocked

PROP = 'C09'
LEVEL = 'other'
NS = sp.Symbol('N', positive=True)


def szeq(a, b):
    if a is None or b is None:
        return None
    try:
        return sp.simplify(a - b) == 0
    except Exception:
        return None



def lag_sums(rep, f, itp, here, nmax, label, seen):
    """every lag sum runs over all N - k products of the equalised sequences (N = the longer length): a loop whose trip count
    depends on the lag symbol has exactly that many passes, whichever input is the shorter one; the same count for a lag sum
    written as an inner product of two slices"""
    for e in [e_ for e_ in itp.events if e_[0] == 'range-loop' and e_[5] in here]:
        lo_, hi_, st_ = e[2], e[3], e[4]
        if lo_ is None or hi_ is None or st_ != 1 or nmax is None:
            continue
        trip = hi_ - lo_
        ks = [s_ for s_ in trip.t if s_ in Aff.BOUNDS]
        if len(ks) != 1:
            continue
        want_ = nmax - Aff.sym(ks[0])
        c_ = 'lag sum %s [%s]' % (normalise(e[1].iter)[:40], label)
        if ('trip', normalise(e[1].iter), label) in seen:
            continue
        seen.add(('trip', normalise(e[1].iter), label))
        if trip == want_:
            rep.proved('pad', f.qname, c_, '%s products for lag %s' % (trip, ks[0].split('@')[0]), loc(f.mod, e[1]))
        else:
            rep.violation('pad', f.qname, c_, 'the sum for lag k runs over %s products, the definition has %s (N = length of the longer '
                          'sequence): when the second sequence is the shorter one the products beyond its length are dropped although '
                          'the first sequence is not zero there' % (trip, want_), loc(f.mod, e[1]))
    for e in [e_ for e_ in itp.events if e_[0] == 'contract' and e_[4] in here]:
        la_, lb_ = e[2], e[3]
        if la_ is None or lb_ is None or nmax is None:
            continue
        ks = [s_ for s_ in la_.t if s_ in Aff.BOUNDS]
        if len(ks) != 1:
            continue
        want_ = nmax - Aff.sym(ks[0])
        key_ = ('contract', normalise(e[1])[:60], label)
        if key_ in seen:
            continue
        seen.add(key_)
        c_ = 'lag sum %s [%s]' % (normalise(e[1])[:40], label)
        if la_ == want_ and lb_ == want_:
            rep.proved('pad', f.qname, c_, '%s products for lag %s' % (la_, ks[0].split('@')[0]), loc(f.mod, e[1]))
        else:
            rep.violation('pad', f.qname, c_, 'the inner product for lag k sums %s x %s products, the definition has %s (N = length of '
                          'the longer sequence): the last product(s) of the overlap are dropped (or the operands differ in length)'
                          % (la_, lb_, want_), loc(f.mod, e[1]))


def run(prog, rep, tier='quick'):
    rep.explanation = (
        'Decides for all sequences: (pad) after the length equalisation of CORRELATION the padded x depends only on x '
        'and the padded y only on y (dependence analysis over both length orders); (conj) every lag value has the '
        'exponents x^1 * conj(y)^1 in the real and the complex branch, for CORRELATION and xcorr (a missing or extra '
        'conjugate is a type error), coeff-normalised values have amplitude degree 0; (norm) the size signature of lag k '
        'is 1/N (biased), 1/(N-k) (unbiased), 1 (None, coeff) and the k=0 special case carries the signature of the '
        'general formula at k=0; (lags) xcorr selects the window centred on lag 0 of the full correlation, numerator '
        'and unbiased divisor are aligned, the returned lag vector has its zero at the same index and the same length; '
        '(corrmtx) the data matrix has the documented number of rows per method and order+1 columns. NOT decided: '
        'r[0] >= |r[k]|, positive semi-definiteness, Gram = N*Toeplitz (numerical facts).')
    rep.rule('pad', 'dependence set of the padded first (second) sequence excludes the second (first) input')
    rep.rule('conj', 'lag values carry amplitude/phase exponents (x:1,+1 ; y:1,-1); no operation combines different exponents')
    rep.rule('norm', 'size signature per lag as documented; k=0 special case == general formula at k=0')
    rep.rule('lags', 'origin (lag 0) index of numerator, divisor and returned lags all equal maxlags; lengths 2*maxlags+1')
    rep.rule('admission', 'no guard on (N, maxlags) raises for maxlags in 0..N-1')
    rep.rule('corrmtx-shape', 'rows N+m / N / N / N-m / 2(N-m) and m+1 columns')
    seen = set()
    f = prog.func('correlation', 'CORRELATION')
    where = loc(f.mod, f.node)
    Aff.SYM_MIN['Ny'] = 8
    n_pad = n_conj = n_norm = n_zero = 0
    # ---------------- pad
    for cplx in (False, True):
        x = C.data(cplx, label='x')
        y = C.data(cplx, n=Aff.sym('Ny'), label='y', second=True)
        from .. import segmap as SG
        x.seg = SG.identity('X', x.shape[0])
        y.seg = SG.identity('Y', y.shape[0])
        itp = C.new_interp(prog)
        itp.capture_locals[f.qname] = ['x', 'y']
        v, itp = C.run_function(prog, 'correlation', 'CORRELATION', [x, y], {'maxlags': C.symint('L', 1, 'lag'), 'norm': Const('biased')}, itp=itp)
        label = 'complex' if cplx else 'real'
        if blocked(rep, 'pad', f.qname, label, itp):
            continue
        caps = itp.captured.get(f.qname, [])
        if not caps:
            rep.undecided('pad', f.qname, label, 'no return captured', where)
            continue
        here = {f.qname} | {q_ for q_ in itp.trace if q_.startswith('correlation.')}        # CORRELATION and its private helpers
        rp = [e for e in itp.events if e[0] == 'resize-repeat' and e[2] in here]
        for e in rp:
            rep.violation('pad', f.qname, '%s [%s]' % (normalise(e[1]), label), 'numpy.resize fills the longer array with repeated copies '
                          'of the data: the shorter input is periodically extended, not zero-padded', loc(f.mod, e[1]))
        if rp:
            continue
        # where the samples sit after each length equalisation (ndarray.resize / numpy.pad): at the front, zeros behind
        for e in [e_ for e_ in itp.events if e_[0] == 'padded' and e_[3] in here]:
            pv = e[2]
            segs = SG.normalise(pv.seg) if isinstance(pv, Num) and pv.seg is not None else None
            c = 'placement %s [%s]' % (normalise(e[1])[:60], label)
            if segs is None:
                rep.undecided('pad', f.qname, c, 'index map of the padded sequence not derivable', loc(f.mod, e[1]))
                continue
            off = Aff(0)
            bad_ = None
            for sg in segs:
                if sg.src != '0':
                    if not (off == Aff(0) and sg.start == Aff(0) and (sg.stride == 1 or sg.n == Aff(1))):
                        bad_ = 'sample %s sits at slot %s' % (sg.start, off)
                    break
                off = off + sg.n
            tail_ok = all(sg.src == '0' for sg in segs[1:]) if segs and segs[0].src != '0' else False
            if bad_ or not tail_ok:
                rep.violation('pad', f.qname, c, 'the shorter input is not extended with zeros at its END (%s; map %s): every lag is '
                              'computed against a delayed, truncated sequence' % (bad_ or 'samples are not followed by zeros only', SG.show(segs)),
                              loc(f.mod, e[1]))
            else:
                rep.proved('pad', f.qname, c, 'samples first, zeros behind: %s' % SG.show(segs), loc(f.mod, e[1]))
        nmax = Aff.sym('max(%s,%s)' % (x.shape[0], y.shape[0]))          # the name the interpreter gives max(len(x), len(y))
        lag_sums(rep, f, itp, here, nmax, label, seen)
        for var, own, other in (('x', 'x', 'y'), ('y', 'y', 'x')):
            n_pad += 1
            val = caps[-1].get(var)
            t = taint_of(val) if val is not None else frozenset()
            c = 'padded %s [%s]' % (var, label)
            shifted = None
            if other in t:
                rep.violation('pad', f.qname, c, 'the padded %s depends on the other sequence %s: the shorter input is replaced, '
                              'not zero-padded' % (var, other), where)
            elif shifted:
                rep.violation('pad', f.qname, c, 'the shorter input is not padded with zeros at its END: %s -- every lag is computed '
                              'against a delayed (and truncated) sequence' % shifted, where)
            elif own in t:
                rep.proved('pad', f.qname, c, 'depends on %s only' % sorted(x_ for x_ in t if not str(x_).startswith('V:')), where)
            else:
                rep.undecided('pad', f.qname, c, 'dependence lost', where)
    # ---------------- conj + norm : CORRELATION and xcorr
    NORMS = (('biased', 1 / NS), ('unbiased', None), ('coeff', sp.Integer(1)), (None, sp.Integer(1)))
    for fname in ('CORRELATION', 'xcorr'):
        g = prog.func('correlation', fname)
        gwhere = loc(g.mod, g.node)
        for cplx, cplx_y in ((False, False), (True, True), (False, True), (True, False)):
            for norm, _sz in NORMS:
                for cross in (False, True):
                    if cross and norm == 'coeff':
                        continue      # C09 defines the coeff normalisation for the autocorrelation only
                    if cplx != cplx_y and not (cross and norm == 'biased'):
                        continue      # mixed kinds (one real, one complex sequence): one cross-correlation context each way
                    x = C.data(cplx, label='x')
                    args = [x]
                    if cross:
                        args.append(C.data(cplx_y, label='y', second=True))
                    itp = C.new_interp(prog)
                    itp.capture_locals[g.qname] = ['res', 'lags', 'r0', 'maxlags']
                    v, itp = C.run_function(prog, 'correlation', fname, args,
                                            {'maxlags': C.symint('L', 1, 'lag'), 'norm': Const(norm)}, itp=itp)
                    label = 'norm=%s,%s,%s' % (norm, ('complex' if cplx else 'real') if cplx == cplx_y else
                                               ('x complex/y real' if cplx else 'x real/y complex'), 'cross' if cross else 'auto')
                    if blocked(rep, 'conj', g.qname, label, itp):
                        continue
                    comps = ('s', 'g', 'sy', 'gy')
                    nconf = report_conflicts(rep, 'conj', itp, comps, '%s,%s' % (fname, label), seen)
                    r = v.items[0] if (fname == 'xcorr' and isinstance(v, Tup)) else v
                    if r is None:
                        rep.undecided('conj', g.qname, label, 'no returning path', gwhere)
                        continue
                    ph = 1 if cplx else 0
                    if cross:
                        exp = {'s': F(1), 'sy': F(1), 'g': F(ph), 'gy': F(-1 if cplx_y else 0)}
                    else:
                        exp = {'s': F(2), 'sy': F(0), 'g': F(0), 'gy': F(0)}
                    if norm == 'coeff':
                        exp['s'] = F(0)
                        exp['sy'] = F(0)
                    n_conj += 1
                    for c_ in [c_ for c_ in itp.conflicts if c_.comp == 'dtype']:
                        k_ = ('dtype', c_.func, c_.construct)
                        if k_ not in seen:
                            seen.add(k_)
                            rep.violation('conj', c_.func, c_.construct, '%s (first seen for %s): the lag values lose their imaginary '
                                          'part' % (c_.msg, label), loc(c_.mod, c_.node))
                    for e_ in [e_ for e_ in itp.events if e_[0] == 'self-mirror' and e_[2] and not e_[3] and e_[4].startswith('correlation.')]:
                        k_ = ('self-mirror', normalise(e_[1]))
                        if k_ not in seen:
                            seen.add(k_)
                            rep.violation('conj', e_[4], normalise(e_[1])[:60], 'one half of the lag sequence is overwritten with the plain mirror '
                                          'image of the other: for complex data the value at lag -k is conj(r[k]), the conjugate is missing '
                                          '(first seen for %s)' % label, loc('correlation', e_[1]))
                    if (cplx or cplx_y) and isinstance(r, Num) and r.cplx is False:
                        rep.violation('conj', g.qname, label + ' dtype', 'the correlation of a complex sequence is returned in a real '
                                      'array: the imaginary part of every lag value is discarded', gwhere)
                    if not nconf:
                        check_sink(rep, 'conj', g.qname, label, 'r', r, exp, gwhere, itp, comps, seen)
                    if fname == 'CORRELATION' and norm == 'biased' and cplx == cplx_y and x.shape[0] is not None:
                        # equal lengths: every lag sum (loop or inner product of slices) has N - k products
                        lag_sums(rep, g, itp, {g.qname} | {q_ for q_ in itp.trace if q_.startswith('correlation.')}, x.shape[0],
                                 label, seen)
                    # ---- norm
                    if fname == 'xcorr' and not cross and norm == 'biased':
                        # boundary of the lag range: maxlags = 0 is a requested lag count like any other (one value, lag 0)
                        v0, itp0 = C.run_function(prog, 'correlation', fname, [C.data(cplx, label='x')],
                                                  {'maxlags': Const(0), 'norm': Const(norm)})
                        lab0 = 'maxlags=0,%s' % ('complex' if cplx else 'real')
                        n_zero += 1
                        if not blocked(rep, 'lags', g.qname, lab0, itp0):
                            r0_, l0_ = (v0.items if isinstance(v0, Tup) and len(v0.items) == 2 else (None, None))
                            n1 = r0_.shape[0] if isinstance(r0_, Num) and r0_.shape else None
                            n2 = l0_.shape[0] if isinstance(l0_, Num) and l0_.shape else None
                            if n1 is None or n2 is None:
                                rep.undecided('lags', g.qname, lab0, 'lengths of the returned pair not derivable', gwhere)
                            elif n1 == Aff(1) and n2 == Aff(1):
                                rep.proved('lags', g.qname, lab0, 'one value and one lag', gwhere)
                            else:
                                rep.violation('lags', g.qname, lab0, 'maxlags=0 returns %s values and %s lags, expected 2*maxlags+1 = 1 '
                                              '(the requested lag count is treated as absent)' % (n1, n2), gwhere)
                    if cross or cplx or cplx_y:
                        continue
                    n_norm += 1
                    if fname == 'CORRELATION':
                        ins = [e for e in itp.events if e[0] == 'insert' and e[6] == g.qname]
                        if not ins:
                            rep.undecided('norm', g.qname, label, 'lag-0 insertion not found', gwhere)
                            continue
                        e = ins[-1]
                        elem, r0 = e[5], tonum(e[4])
                        ksyms = [s_ for s_ in (elem.sz.free_symbols if elem.sz is not None else []) if s_.name in Aff.BOUNDS]      # the loop variable of the lag loop, whatever it is called
                        want = {'biased': 1 / NS, 'coeff': sp.Integer(1), None: sp.Integer(1)}.get(norm)
                        ok = None
                        detail = 'lag-k signature %s, lag-0 signature %s' % (elem.sz, r0.sz if r0 is not None else None)
                        if norm == 'unbiased':
                            if elem.sz is None or len(ksyms) != 1:
                                ok = False
                            else:
                                k = ksyms[0]
                                ok = szeq(elem.sz, 1 / (NS - k)) and szeq(r0.sz, elem.sz.subs(k, 0))
                        else:
                            ok = bool(szeq(elem.sz, want)) and (r0 is not None and bool(szeq(r0.sz, want)))
                        if ok:
                            rep.proved('norm', g.qname, label, detail, gwhere)
                        else:
                            rep.violation('norm', g.qname, label, 'normalisation of the lag values is not the documented one '
                                          '(%s)' % detail, gwhere)
                    else:
                        rr = r
                        want = {'biased': 1 / NS, 'coeff': sp.Integer(1), None: sp.Integer(1)}.get(norm)
                        if norm == 'unbiased':
                            # N - |lag| per element: decided by the lag alignment rule below
                            rep.proved('norm', g.qname, label, 'per-lag divisor N-|lag| (alignment checked by the lags rule)', gwhere)
                        elif bool(szeq(rr.sz, want)):
                            rep.proved('norm', g.qname, label, 'signature %s' % rr.sz, gwhere)
                        else:
                            rep.violation('norm', g.qname, label, 'normalisation signature %s, documented %s' % (rr.sz, want), gwhere)
                    # ---- lags (xcorr)
                    if fname == 'xcorr':
                        caps = itp.captured.get(g.qname, [])
                        cap = caps[-1] if caps else {}
                        res, lags = cap.get('res'), cap.get('lags')
                        if isinstance(v, Tup) and len(v.items) == 2:
                            res, lags = v.items          # what is actually returned (the locals may be called anything)
                        L = Aff.sym('L')
                        ok = True
                        why = []
                        if isinstance(res, Num) and res.org is None:
                            rep.undecided('lags', g.qname, label, 'origin index of the returned correlation not derivable', gwhere)
                            continue
                        if not isinstance(res, Num) or res.org == 'conflict' or res.org != L:
                            ok = False
                            why.append('lag 0 of the returned correlation is at index %s, not maxlags (numerator/divisor '
                                       'misaligned or window not centred)' % (getattr(res, 'org', None),))
                        if not isinstance(lags, Num) or lags.org != L:
                            ok = False
                            why.append('the zero of the returned lag vector is at index %s' % (getattr(lags, 'org', None),))
                        l1 = res.shape[0] if isinstance(res, Num) and res.shape else None
                        l2 = lags.shape[0] if isinstance(lags, Num) and lags.shape else None
                        if l1 is None or l2 is None or l1 != l2 or l1 != L.scale(2) + 1:
                            ok = False
                            why.append('lengths %s / %s, expected 2*maxlags+1' % (l1, l2))
                        if ok:
                            rep.proved('lags', g.qname, label, 'lag 0 at index maxlags in values and lag vector; length 2*maxlags+1', gwhere)
                        else:
                            rep.violation('lags', g.qname, label, '; '.join(why), gwhere)
    # ---------------- corrmtx shapes
    h = prog.func('linalg', 'corrmtx')
    Nx = Aff.sym('N')
    n_shape = 0
    for cplx, c64 in ((False, False), (True, False), (True, True)):
        for method, rows in (('autocorrelation', lambda m_: Nx + m_), ('prewindowed', lambda m_: Nx), ('postwindowed', lambda m_: Nx),
                             ('covariance', lambda m_: Nx - m_), ('modified', lambda m_: (Nx - m_).scale(2))):
            for mval in (2, 5):
              mm = IntV(mval)
              xd = C.data(cplx)
              xd.c64 = c64          # single-precision complex data is complex data
              v, itp = C.run_function(prog, 'linalg', 'corrmtx', [xd, Const(mval), Const(method)], {})
              n_shape += 1
              label = '%s,m=%d,%s' % (method, mval, ('complex64' if c64 else 'complex') if cplx else 'real')
              if blocked(rep, 'corrmtx-shape', h.qname, label, itp):
                  continue
              lost = [c_ for c_ in itp.conflicts if c_.comp == 'dtype']
              if cplx and (lost or (isinstance(v, Num) and v.cplx is False)):
                  rep.violation('corrmtx-shape', h.qname, label + ' dtype', 'the data matrix of complex data is a real array: the imaginary '
                                'part of the samples is discarded, the Gram matrix is that of the real part', loc(h.mod, h.node))
                  continue
              want = (rows(mm.a), mm.a + 1)
              got = v.shape if isinstance(v, Num) else None
              if got is None or len(got) != 2 or got[0] is None or got[1] is None:
                  rep.undecided('corrmtx-shape', h.qname, label, 'shape not derivable: %s' % (got,), loc(h.mod, h.node))
              elif got[0] == want[0] and got[1] == want[1]:
                  rep.proved('corrmtx-shape', h.qname, label, 'shape %s x %s' % got, loc(h.mod, h.node))
              else:
                  rep.violation('corrmtx-shape', h.qname, label, 'shape %s x %s, documented %s x %s' % (got[0], got[1], want[0], want[1]),
                                loc(h.mod, h.node))
    # maxlags in [0, N-1] is admitted
    from ..d1rules import admission_of
    grid = [{'N': n_, 'La': l_} for n_ in range(2, 10) for l_ in range(0, n_)]
    for fname in ('CORRELATION', 'xcorr'):
        admission_of(rep, prog, 'admission', 'correlation', fname,
                     lambda: ([C.data(True, label='x')], {'maxlags': IntV(Aff.sym('La'), frozenset(['lag'])), 'norm': Const('biased')}), grid,
                     lambda w: 'N = %d, maxlags = %d' % (w['N'], w['La']), seen)
    from ..prims import USED
    rep.trusted += sorted(USED)
    rep.floor('pad obligations', n_pad, 4)
    rep.floor('conjugation contexts', n_conj, 28)
    rep.floor('normalisation contexts', n_norm, 8)
    rep.floor('corrmtx contexts', n_shape, 30)
    rep.floor('maxlags=0 contexts', n_zero, 2)
