"""C02 — every estimator puts spectral values on the frequency axis it reports (D3 lengths + index maps, D2 realness).

For each PSD class x {real, complex} x {NFFT even, odd} the object is built through its constructor chain and
__call__ is abstractly interpreted.  Spectrum-bearing arrays carry an index map whose source F is the NFFT-point
spectrum on the true frequency grid (slot k of an fft output is bin k; the transform of a conjugated vector, e.g. a
row of svd's Vh, is mirrored).  Obligations:
  len   the stored PSD has exactly as many values as frequencies() yields and the object's NFFT is unchanged
  axis  slot i of the stored PSD holds bin i of F (complex data: all NFFT bins; real data: bins 0..floor(NFFT/2),
        from the +f or the -f copy)
  real  the stored PSD is real-valued"""
from fractions import Fraction as F

from ..frontend import AnalysisError, loc
from ..values import *      # noqa
from .. import contexts as C
from .. import segmap as S
from ..segmap import Seg
from ..core import St, PathEnd
from ..d1rules import psd_classes, ctor_args, blocked, PSD_FIELD, report_conflicts

PROP = 'C02'
LEVEL = 'proof'
m = Aff.sym('m')


def structure(segs):
    flat = [Seg(x.n, 'F', x.start, x.stride, 1) for x in segs]      # weights and source labels are not C02's business
    return [(repr(x.n), repr(x.start), x.stride if x.n != Aff(1) else 0) for x in S.normalise(flat)]


def reference_structures(cplx, parity):
    N = m.scale(2) if parity == 'even' else m.scale(2) + 1
    h = m + 1
    if cplx:
        return [structure(S.identity('F', N))]
    return [structure(S.identity('F', h)), structure([Seg(1, 'F', 0, 1), Seg(h - 1, 'F', N - 1, -1)])]


SIDES_FIELD = '_Spectrum__sides'


def run(prog, rep, tier='quick'):
    seen_idx = set()
    rep.explanation = (
        'Decides, for all data and all NFFT of each parity, the length, bin-alignment and realness clauses of C02 for '
        'the 12 PSD classes: len(psd) == len(frequencies()) with NFFT unchanged, slot i <-> bin i through the whole '
        'chain (rfft/fft axioms, model-spectrum slicing, svd -> conjugated vectors -> eigen() re-ordering -> '
        'ifftshift / flip for MUSIC and EV, twosided_2_onesided for the correlogram, taper-axis mean for multitaper), '
        'and a real-valued stored PSD. Not decided: that a tone yields a *maximum* at its bin (numerical), finiteness.')
    rep.rule('len', 'len(stored psd) == number of values frequencies() yields; _Spectrum__NFFT equals the NFFT given')
    rep.rule('axis', 'index map of the stored psd == identity on the bins the axis reports (weights ignored here)')
    rep.rule('layout-flag', "with sides set to 'centerdc' before the evaluation, __call__ leaves _Spectrum__sides at the native layout of the stored estimate ('onesided' real, 'twosided' complex)")
    rep.rule('real', 'stored psd is real-valued (dtype real, or imaginary part provably dropped)')
    rep.assumptions += ['NFFT >= 8', 'real-data spectra are symmetric, so the -f copy may stand for +f']
    classes = psd_classes(prog)
    nctx = 0
    for cls in classes:
        init = cls.find_method('__init__')
        has_method = 'method' in [a.arg for a in init.node.args.args]
        variants = [None] if not has_method else ['adapt', 'unity', 'eigen']
        for cplx, parity, meth, npar in [(c, p, v, q) for c in (False, True) for p in ('even', 'odd') for v in variants
                                         for q in ('even', 'odd')]:
            if True:
                label = '%s, N %s, NFFT %s%s' % ('complex' if cplx else 'real', npar, parity, (', method=%s' % meth) if meth else '')
                kw = ctor_args(cls, cplx, parity, scale=False, overrides={'method': Const(meth)} if meth else None, nparity=npar)
                ref, obj, itp, ok = C.run_class(prog, cls.mod, cls.name, [], kw)
                nctx += 1
                where = loc(cls.mod, cls.node)
                if blocked(rep, 'len', cls.qname, label, itp):
                    continue
                # an index computed by rounding an exact half-integer alternates between floor and ceiling: a definite defect of
                # the layout for every other size (reported once per construct; the derived map is not meaningful then)
                if report_conflicts(rep, 'axis', itp, ('index',), '%s,%s' % (cls.name, label), seen_idx):
                    continue
                # the real / complex decision (hence the layout of the stored PSD) must follow the dtype of the data
                dtv = obj.f.get('_Spectrum__datatype') if obj is not None else None
                want_dt = 'complex' if cplx else 'real'
                if dtv is not None and not (isinstance(dtv, Const) and dtv.v == want_dt):
                    key = ('datatype', cls.name, cplx)
                    if key not in seen_idx:
                        seen_idx.add(key)
                        dep = sorted(str(z) for z in taint_of(dtv) if not str(z).startswith('V:'))
                        rep.violation('len', cls.qname, 'datatype [%s]' % label, 'for %s-dtype data the datatype attribute is %s%s: the '
                                      'one-/two-sided layout is not a function of the dtype (samples declared complex whose imaginary '
                                      'parts vanish are folded like real data)' % (want_dt, getattr(dtv, 'v', 'value dependent'),
                                                                                  (' (depends on %s)' % dep) if dep else ''), loc(cls.mod, cls.node))
                    continue
                psd = obj.f.get(PSD_FIELD) if obj is not None else None
                if not ok or not isinstance(psd, Num):
                    rep.violation('len', cls.qname, 'no estimate [%s]' % label,
                                  'constructor + __call__ has no normal path that stores a PSD in this context '
                                  '(an assert or raise on every path)', where)
                    continue
                # ---- len
                fm = cls.find_method('frequencies')
                st = St({}, dict(itp.final_heap))
                try:
                    fr = itp.call_function(fm, [ref], {}, st, fm.node)
                except PathEnd:
                    fr = None
                nfreq = fr.n if isinstance(fr, SeqV) else None
                if nfreq is None and isinstance(fr, Num) and fr.shape is not None and len(fr.shape) == 1:
                    nfreq = fr.shape[0]          # a list built by a comprehension / an array of the values
                plen = psd.shape[0] if (psd.shape is not None and len(psd.shape) == 1) else None
                nf = obj.f.get('_Spectrum__NFFT')
                want_nfft = kw['NFFT'].a
                if plen is None or nfreq is None:
                    rep.undecided('len', cls.qname, 'length [%s]' % label, 'psd shape %s, frequencies %s' % (psd.shape, nfreq), where)
                elif plen != nfreq:
                    rep.violation('len', cls.qname, 'length [%s]' % label,
                                  'the PSD has %s values but frequencies() returns %s' % (plen, nfreq), where)
                elif not (isinstance(nf, IntV) and nf.a is not None and nf.a == want_nfft):
                    rep.violation('len', cls.qname, 'length [%s]' % label,
                                  'storing the estimate changed the NFFT attribute from %s to %s (its length is not '
                                  'NFFT)' % (want_nfft, getattr(nf, 'a', nf)), where)
                else:
                    rep.proved('len', cls.qname, 'length [%s]' % label, 'len(psd) = len(frequencies()) = %s' % plen, where)
                # ---- axis
                if psd.seg is None:
                    rep.undecided('axis', cls.qname, 'bin map [%s]' % label, 'index map lost on the way to the stored PSD', where)
                else:
                    got = structure(psd.seg)
                    if got in reference_structures(cplx, parity):
                        rep.proved('axis', cls.qname, 'bin map [%s]' % label, S.show(psd.seg), where)
                    else:
                        rep.violation('axis', cls.qname, 'bin map [%s]' % label,
                                      'slot i of the stored PSD does not hold bin i of the spectrum: map is %s' %
                                      S.show(psd.seg), where)
                # ---- real
                if psd.cplx is False or psd.rv:
                    rep.proved('real', cls.qname, 'real-valued [%s]' % label, 'dtype real' if psd.cplx is False else 'imaginary part dropped', where)
                elif psd.cplx is True:
                    rep.violation('real', cls.qname, 'real-valued [%s]' % label, 'the stored PSD is complex-valued', where)
                else:
                    rep.undecided('real', cls.qname, 'real-valued [%s]' % label, 'dtype not derivable', where)
    # ---- layout flag: storing an estimate resets `sides` to the layout the estimate is stored in (frequencies() follows `sides`),
    # whatever `sides` was before the evaluation
    nlf = 0
    for cls in classes:
        init = cls.find_method('__init__')
        has_method = 'method' in [a.arg for a in init.node.args.args]
        for cplx in (False, True):
            label = '%s, sides set to centerdc before the evaluation' % ('complex' if cplx else 'real')
            where = loc(cls.mod, cls.node)
            kw = ctor_args(cls, cplx, 'even', scale=False, overrides={'method': Const('unity')} if has_method else None, nparity='even')
            ref, obj, itp, ok = C.run_class(prog, cls.mod, cls.name, [], kw, call=False)
            nlf += 1
            if blocked(rep, 'layout-flag', cls.qname, label, itp):
                continue
            if not ok or obj is None or SIDES_FIELD not in obj.f:
                rep.undecided('layout-flag', cls.qname, label, 'constructor did not complete / no sides field', where)
                continue
            st = St({}, dict(itp.final_heap))
            st.heap[ref.oid].f[SIDES_FIELD] = Const('centerdc')
            m = cls.find_method('__call__')
            try:
                itp.call_function(m, [ref], {}, st, m.node)
            except PathEnd:
                rep.undecided('layout-flag', cls.qname, label, '__call__ has no normal path', where)
                continue
            if blocked(rep, 'layout-flag', cls.qname, label, itp):
                continue
            got = st.heap[ref.oid].f.get(SIDES_FIELD)
            want = 'twosided' if cplx else 'onesided'
            if isinstance(got, Const) and got.v == want:
                rep.proved('layout-flag', cls.qname, label, 'sides = %r after the estimate is stored' % want, where)
            elif isinstance(got, Const):
                rep.violation('layout-flag', cls.qname, label, 'after the evaluation stores the estimate in %s layout the sides attribute is still '
                              '%r: frequencies() reports the %r axis for values laid out %s, so a peak is reported at the wrong frequency'
                              % (want, got.v, got.v, want), where)
            else:
                rep.undecided('layout-flag', cls.qname, label, 'sides attribute is not a constant after the evaluation', where)
    rep.floor('layout-flag contexts', nlf, 24)
    rep.analysed['classes'] = [c.qname for c in classes]
    rep.analysed['contexts'] = nctx
    from ..prims import USED
    rep.trusted += sorted(USED)
    rep.floor('PSD classes', len(classes), 12)
    rep.floor('contexts', nctx, 96)
