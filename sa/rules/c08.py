"""C08 — sampling-rate and scale_by_freq normalisation is uniform (D1 components hz, nfft).

`nfft` is the exponent of NFFT *as a number*; its only legitimate source is df = sampling/NFFT, so 2*pi/df carries
hz^-1 nfft^+1 and the nfft exponent of the stored PSD counts the applications of the scale_by_freq factor along the
whole call tree (a factor applied inside speriodogram *and* by scale() is 2)."""
from fractions import Fraction as F

from ..frontend import AnalysisError, loc
from ..values import *      # noqa
from .. import contexts as C
from ..d1rules import psd_classes, ctor_args, check_sink, report_conflicts, blocked, PSD_FIELD

PROP = 'C08'
LEVEL = 'proof'

# hz exponent of the unscaled PSD per class, as C08 states it: AR/MA/ARMA model spectra are divided by the sampling
# frequency, periodogram / correlogram / multitaper / subspace values do not depend on it.  pminvar is not
# constrained by C08 (C16 requires hz^+1 there).
MODEL = ('pburg', 'pyule', 'pcovar', 'pmodcovar', 'parma', 'pma')
FLAT = ('Periodogram', 'pcorrelogram', 'MultiTapering', 'pmusic', 'pev')


def run(prog, rep, tier='quick'):
    rep.explanation = (
        'For every PSD class x {scale_by_freq on, off} x {real, complex} x {NFFT even, odd} the object is built through '
        'its real constructor chain and __call__ is abstractly interpreted: the stored PSD must carry nfft exponent 1 '
        'with scaling on (exactly one application of 2*pi/df along the call tree) and 0 with scaling off, and hz '
        'exponent -1 (AR/MA/ARMA model classes) or 0 (periodogram, correlogram, multitaper, MUSIC, EV) unscaled, one '
        'less when scaled. frequencies() values carry hz^1 nfft^-1 (k*sampling/NFFT); arma2psd returns rho^1 T^-1 on its '
        'three (A,B) branches. Decides the normalisation exponents for all inputs, not numerical equality.')
    rep.rule('scale-once', 'nfft exponent of the stored PSD = 1 if scale_by_freq else 0; hz exponent as tabulated from C08')
    rep.rule('axis-units', 'every value returned by frequencies(sides) has hz^1 (index * sampling / NFFT)')
    rep.rule('arma2psd-units', 'arma2psd(A,B,rho,T): result has the exponents of rho/T on the A-only, B-only and A,B branches')
    rep.assumptions += ['exact arithmetic', 'NFFT enters numerically only through float(NFFT) / df']
    seen = set()
    classes = psd_classes(prog)
    nctx = 0
    for cls in classes:
        if cls.name in MODEL:
            hz0 = -1
        elif cls.name in FLAT:
            hz0 = 0
        elif cls.name == 'pminvar':
            hz0 = None
        else:
            rep.undecided('scale-once', cls.qname, 'class not in the C08 table', 'new PSD class: extend the table')
            continue
        for scale in (False, True):
            for cplx in (False, True):
                for parity in ('even', 'odd'):
                    label = 'scale_by_freq=%s,%s,NFFT %s' % (scale, 'complex' if cplx else 'real', parity)
                    kw = ctor_args(cls, cplx, parity, scale=scale)
                    ref, obj, itp, ok = C.run_class(prog, cls.mod, cls.name, [], kw)
                    nctx += 1
                    if blocked(rep, 'scale-once', cls.qname, label, itp):
                        continue
                    if not ok or obj is None or PSD_FIELD not in obj.f or (
                            isinstance(obj.f[PSD_FIELD], Const) and obj.f[PSD_FIELD].v is None):
                        # no normal path in this context (e.g. an assert on the NFFT parity): nothing to scale;
                        # the missing estimate is C02's business
                        rep.analysed.setdefault('contexts_without_estimate', []).append('%s %s' % (cls.qname, label))
                        continue
                    psd = obj.f[PSD_FIELD]
                    nf = obj.f.get('_Spectrum__NFFT')
                    want = kw['NFFT']
                    if not (isinstance(nf, IntV) and nf.a is not None and nf.a == want.a):
                        # the object silently changed its own NFFT (PSD length != NFFT): reported under C02
                        rep.analysed.setdefault('contexts_with_changed_NFFT', []).append('%s %s' % (cls.qname, label))
                        continue
                    nconf = report_conflicts(rep, 'scale-once', itp, ('nfft', 'hz'), '%s,%s' % (cls.name, label), seen)
                    exp = {'nfft': F(1 if scale else 0)}
                    if hz0 is not None:
                        exp['hz'] = F(hz0 - (1 if scale else 0))
                    check_sink(rep, 'scale-once', cls.qname, label, 'psd', psd, exp, loc(cls.mod, cls.node))
                    if parity == 'even':
                        # the same object evaluated a second time (what every attribute change leads to): scaled once again, not
                        # zero times (a "done already" flag that outlives the estimate) and not twice
                        from ..core import St, PathEnd
                        st2 = St({}, itp.final_heap)
                        callm = cls.find_method('__call__')
                        try:
                            itp.call_function(callm, [ref], {}, st2, callm.node)
                            obj2 = st2.heap.get(ref.oid)
                        except PathEnd:
                            obj2 = None
                        psd2 = obj2.f.get(PSD_FIELD) if obj2 is not None else None
                        if psd2 is None or (isinstance(psd2, Const) and psd2.v is None):
                            rep.undecided('scale-once', cls.qname, label + ', second evaluation', 'no estimate stored by the second call',
                                          loc(cls.mod, cls.node))
                        else:
                            check_sink(rep, 'scale-once', cls.qname, label + ', second evaluation', 'psd', psd2, exp, loc(cls.mod, cls.node))
                    if parity == 'even' and not cplx:
                        # the sampling rate assigned AFTER construction is the one every later estimate uses: the object is built
                        # with a rate measured in its own unit (component sy), `sampling` is then assigned the context's rate, and
                        # the next estimate must carry the new rate's exponents and none of the old one's
                        from ..core import St, PathEnd
                        kw3 = dict(kw)
                        old_rate = C.sampling()
                        old_rate.deg = dict(old_rate.deg)
                        old_rate.deg['hz'], old_rate.deg['sy'] = F(0), F(1)
                        old_rate.fsf = None
                        old_rate.taint = frozenset(['sampling0'])
                        kw3['sampling'] = old_rate
                        ref3, obj3, itp3, ok3 = C.run_class(prog, cls.mod, cls.name, [], kw3)
                        nctx += 1
                        lab3 = label + ', sampling assigned after construction'
                        if ok3 and obj3 is not None and not blocked(rep, 'scale-once', cls.qname, lab3, itp3):
                            st3 = St({}, itp3.final_heap)
                            callm = cls.find_method('__call__')
                            try:
                                new_rate = C.sampling()
                                new_rate.differs_from = frozenset([old_rate.uid])
                                itp3.setattr_ref(ref3, 'sampling', new_rate, st3, cls.node)
                                itp3.call_function(callm, [ref3], {}, st3, callm.node)
                                o3 = st3.heap.get(ref3.oid)
                            except PathEnd:
                                o3 = None
                            psd3 = o3.f.get(PSD_FIELD) if o3 is not None else None
                            if psd3 is None or (isinstance(psd3, Const) and psd3.v is None):
                                rep.undecided('scale-once', cls.qname, lab3, 'no estimate stored after the assignment', loc(cls.mod, cls.node))
                            else:
                                exp3 = dict(exp)
                                exp3['sy'] = F(0)
                                check_sink(rep, 'scale-once', cls.qname, lab3, 'psd', psd3, exp3, loc(cls.mod, cls.node))
                    # frequency axis of the same object
                    if scale is False and parity == 'even':
                        sp_ = prog.cls('psd', 'Spectrum')
                        fm = cls.find_method('frequencies')
                        from ..core import St, PathEnd
                        for sides in ('onesided', 'twosided', 'centerdc'):
                            st = St({}, dict(itp.final_heap))
                            try:
                                fr = itp.call_function(fm, [ref, Const(sides)], {}, st, fm.node)
                            except PathEnd:
                                fr = None
                            key = ('axis', cls.qname, cplx, sides)
                            check_sink(rep, 'axis-units', cls.qname, '%s,%s' % ('complex' if cplx else 'real', sides),
                                       'frequencies()', fr, {'hz': F(1)}, loc(fm.mod, fm.node))
    # the functional periodogram applies the factor itself when asked (used by pdaniell and FourierSpectrum.periodogram)
    fsp = prog.func('periodogram', 'speriodogram')
    for scale in (False, True):
        for cplx in (False, True):
            for parity in ('even', 'odd'):
                label = 'scale_by_freq=%s,%s,NFFT %s' % (scale, 'complex' if cplx else 'real', parity)
                v, itp = C.run_function(prog, 'periodogram', 'speriodogram', [C.data(cplx)],
                                        {'NFFT': C.nfft(parity), 'sampling': C.sampling(), 'scale_by_freq': Const(scale),
                                         'detrend': Const(False), 'window': StrV('window')})
                nctx += 1
                if blocked(rep, 'scale-once', fsp.qname, label, itp):
                    continue
                report_conflicts(rep, 'scale-once', itp, ('nfft', 'hz'), 'speriodogram,' + label, seen)
                check_sink(rep, 'scale-once', fsp.qname, label, 'psd', v,
                           {'nfft': F(1 if scale else 0), 'hz': F(-1 if scale else 0)}, loc(fsp.mod, fsp.node))
    # the Daniell smoother averages that periodogram: the returned pair (psd, frequencies) carries the periodogram's exponents
    fd = prog.func('periodogram', 'DaniellPeriodogram')
    for scale in (False, True):
        for cplx in (False, True):
            label = 'scale_by_freq=%s,%s' % (scale, 'complex' if cplx else 'real')
            v, itp = C.run_function(prog, 'periodogram', 'DaniellPeriodogram', [C.data(cplx), Const(2)],
                                    {'NFFT': C.nfft('even'), 'sampling': C.sampling(), 'scale_by_freq': Const(scale),
                                     'detrend': Const(False), 'window': StrV('window')})
            nctx += 1
            if blocked(rep, 'scale-once', fd.qname, label, itp):
                continue
            if not (isinstance(v, Tup) and len(v.items) == 2):
                rep.undecided('scale-once', fd.qname, label, 'no (psd, frequencies) pair returned', loc(fd.mod, fd.node))
                continue
            report_conflicts(rep, 'scale-once', itp, ('nfft', 'hz'), 'DaniellPeriodogram,' + label, seen)
            check_sink(rep, 'scale-once', fd.qname, label, 'psd', v.items[0],
                       {'nfft': F(1 if scale else 0), 'hz': F(-1 if scale else 0)}, loc(fd.mod, fd.node))
            check_sink(rep, 'axis-units', fd.qname, label, 'frequencies', v.items[1], {'hz': F(1)}, loc(fd.mod, fd.node))
    # arma2psd branches
    f = prog.func('arma', 'arma2psd')
    rho = Num({**zero_deg(), 's': F(2)}, (), False)
    for lab, a, b in (('A only', True, False), ('B only', False, True), ('A and B', True, True)):
        for cplx in (False, True):
            kw = {'rho': rho, 'T': C.sampling(), 'NFFT': C.nfft('even')}
            kw['A'] = C.deg0((C.symint('P', 2).a,), cplx) if a else Const(None)
            kw['B'] = C.deg0((C.symint('Q', 1).a,), cplx) if b else Const(None)
            v, itp = C.run_function(prog, 'arma', 'arma2psd', [], kw)
            nctx += 1
            if blocked(rep, 'arma2psd-units', f.qname, lab, itp):
                continue
            report_conflicts(rep, 'arma2psd-units', itp, ('hz', 'nfft', 's'), lab, seen)
            check_sink(rep, 'arma2psd-units', f.qname, '%s,%s' % (lab, 'complex' if cplx else 'real'), 'psd', v,
                       {'s': F(2), 'hz': F(-1), 'nfft': F(0)}, loc(f.mod, f.node))
    rep.analysed['classes'] = [c.qname for c in classes]
    rep.analysed['abstract_runs'] = nctx
    from ..prims import USED
    rep.trusted += sorted(USED)
    rep.floor('PSD classes', len(classes), 12)
    rep.floor('class contexts', nctx, 12 * 8)
