"""C20 — every named window is a well-formed taper of the requested length (D7 + factory tables + forwarding)."""
import ast
from fractions import Fraction as F

import sympy as sp

from ..frontend import AnalysisError, loc, normalise
from ..values import *      # noqa
from .. import contexts as C
from ..core import St, PathEnd
from ..d1rules import blocked
from .. import winsym as W

PROP = 'C20'
LEVEL = 'other'
# documented alias pairs (create_window docstring): alias -> canonical name
ALIASES = {'sinc': 'lanczos', 'hanning': 'hann', 'rectangle': 'rectangular', 'triangular': 'bartlett', 'sine': 'cosine'}
# documented shape parameters (C20 / create_window docstring)
SHAPE_PARAMS = {'kaiser': {'beta'}, 'blackman': {'alpha'}, 'cauchy': {'alpha'}, 'flattop': {'mode'}, 'gaussian': {'alpha'},
                'chebwin': {'attenuation'}, 'tukey': {'r'}, 'poisson': {'alpha'}, 'poisson_hanning': {'alpha'},
                'taylor': {'nbar', 'sll'}}
TOL = sp.Rational(1, 10 ** 6)


def window_table(prog):
    m = prog.modules.get('window')
    if m is None or 'window_names' not in m.consts:
        raise AnalysisError('window.window_names vanished')
    try:
        return ast.literal_eval(m.consts['window_names'])
    except Exception:
        raise AnalysisError('window_names is no longer a literal table')


def run(prog, rep, tier='quick'):
    rep.explanation = (
        'For every name of window_names and every length N >= 3 (symbolic): the generator is typed by a reflection-'
        'symmetry type system over the index grid (SYM / ASYM / REFL(c)) with exact constants (multiples of pi), which '
        'proves w[n] = w[N-1-n] on every parameter branch, computes the length symbolically (= N) and the exact centre '
        'value for odd N (= 1 within 1e-6: sum of the cosine coefficients, exp(0), sinc(0), ...), and flags a division '
        'by a grid that vanishes at the centre (non-finite sample). Tables: every name resolves to a generator whose '
        'first parameter is the length, documented aliases share one generator, the factory parameter table equals the '
        'documented shape parameters and each is a real keyword of its generator. Forwarding (abstract interpretation of '
        'create_window / Window): each user keyword reaches the generator parameter of the same name, unknown keywords '
        'and keywords for parameter-less windows raise, Window.data is the factory result, ENBW = N*sum(w^2)/sum(w)^2 '
        '(scale invariant, one factor N; >= 1 by Cauchy-Schwarz). NOT decided: max <= 1 away from the centre, equality '
        'of library windows with their closed forms, N < 3.')
    rep.rule('table', 'window_names entries resolve; first parameter is the length; alias pairs share a generator')
    rep.rule('symmetric', 'every return of the generator has reflection type SYM')
    rep.rule('length', 'every return of the generator has symbolic length N')
    rep.rule('centre', 'centre sample (odd N) == 1 within 1e-6, exact arithmetic on the literals')
    rep.rule('finite', 'no division by a grid that vanishes at the centre sample')
    rep.rule('factory-params', 'for every name the keywords create_window accepts (abstract call per keyword) == the documented shape parameters, each a keyword of its generator')
    rep.rule('forwarding', 'create_window(N, name, p=v) calls the generator with p=v; unknown keywords raise')
    rep.rule('closed-form-ends', 'window_tukey(N, r=0) is all ones and window_tukey(N, r=1) is the Hann generator\'s result (abstract call with the literal ratio)')
    rep.rule('window-object', 'Window.data is the factory result; Window.enbw has scaling degree 0 and size signature N')
    rep.trusted += ['numpy.hamming/hanning/bartlett/kaiser, scipy chebwin: N real symmetric samples, maximum 1 at the centre of an odd window',
                    'cos/sin reflection identities at multiples of pi', 'elementwise functions preserve reflection symmetry']
    rep.assumptions += ['N >= 3; string parameters at their defaults (flat-top symmetric mode), numeric shape parameters symbolic']
    table = window_table(prog)
    m = prog.modules['window']
    n_names = 0
    funcs_seen = {}
    for name in sorted(table):
        fn = table[name]
        where = 'src/spectrum/window.py'
        n_names += 1
        if fn not in m.funcs:
            rep.violation('table', 'window.create_window', 'name %s' % name, 'window_names[%r] = %r is not a function of the module' % (name, fn), where)
            continue
        f = m.funcs[fn]
        where = loc('window', f)
        params = [a.arg for a in f.args.args]
        if not params or len(params) - len(f.args.defaults) != 1:
            rep.violation('table', 'window.' + fn, 'name %s' % name, 'the generator must take exactly one positional argument, the length', where)
        else:
            rep.proved('table', 'window.' + fn, 'name %s' % name, 'resolves; first parameter %s is the length' % params[0], where)
        if name in ALIASES:
            canon = ALIASES[name]
            if table.get(canon) == fn:
                rep.proved('table', 'window.create_window', 'alias %s == %s' % (name, canon), 'same generator %s' % fn, where)
            else:
                rep.violation('table', 'window.create_window', 'alias %s == %s' % (name, canon),
                              'documented aliases map to different generators (%s vs %s)' % (fn, table.get(canon)), where)
        # ---- D7
        try:
            wk = W.Walker(prog)
            rets, _done = wk.function_returns(f, [W.scalar(W.N)])
        except AnalysisError as e:
            rep.undecided('symmetric', 'window.' + fn, 'name %s' % name, str(e), where)
            continue
        if not rets:
            rep.undecided('symmetric', 'window.' + fn, 'name %s' % name, 'no return reached', where)
            continue
        for r, conds in rets:
            br = (' [%s]' % ' and '.join(conds)) if conds else ''
            cname = '%s%s' % (name, br)
            if not isinstance(r, W.D):
                rep.undecided('symmetric', 'window.' + fn, cname, 'non-numeric return', where)
                continue
            if r.kind == W.SYM:
                rep.proved('symmetric', 'window.' + fn, cname, 'reflection type SYM', where)
            else:
                rep.violation('symmetric', 'window.' + fn, cname, 'the returned samples are not provably w[n] = w[N-1-n] '
                              '(reflection type %s%s)' % (r.kind, '(%s)' % r.c if r.kind == W.REFL else ''), where)
            if r.length is None:
                rep.undecided('length', 'window.' + fn, cname, 'length not derivable', where)
            elif W.iszero(r.length - W.N):
                rep.proved('length', 'window.' + fn, cname, 'length N', where)
            else:
                rep.violation('length', 'window.' + fn, cname, 'returns %s samples, N requested' % sp.simplify(r.length), where)
            if r.hazard:
                rep.violation('finite', 'window.' + fn, cname, r.hazard[0], where)
            else:
                rep.proved('finite', 'window.' + fn, cname, 'no vanishing divisor at the centre', where)
            if r.hazard:
                continue
            cen = None
            if r.centre is not None:
                try:
                    cen = sp.simplify(r.centre)
                except Exception:
                    cen = None
            if cen is None:
                rep.undecided('centre', 'window.' + fn, cname, 'centre value not derivable', where)
            elif not cen.is_number:
                rep.violation('centre', 'window.' + fn, cname, 'the centre sample of an odd-length window is not '
                              'identically 1 over the parameter range: %s' % cen, where)
            elif abs(cen - 1) <= TOL:
                rep.proved('centre', 'window.' + fn, cname, 'centre sample = %s' % cen, where)
            else:
                rep.violation('centre', 'window.' + fn, cname, 'centre sample of an odd-length window is %s, not 1' % cen, where)
    # ---------------- factory parameter table: decided from what the factory does, however the table is written -- for every
    # name and every keyword any generator knows, the abstract call create_window(N, name, kw=marker) either reaches the generator
    # or raises; the accepted set must be the documented shape parameters
    cw = m.funcs.get('create_window')
    if cw is None:
        raise AnalysisError('create_window vanished')
    where = loc('window', cw)
    allkw = sorted(set(a.arg for fn_ in set(table.values()) if fn_ in m.funcs for a in m.funcs[fn_].args.args[1:]))
    got = {}
    n_par = 0
    fcw = prog.func('window', 'create_window')
    for name in sorted(table):
        fn = table[name]
        if fn not in m.funcs:
            continue
        acc = set()
        for kwname in allkw:
            itp = C.new_interp(prog, summaries={})
            itp.summaries.pop('window.Window', None)
            itp.watch['window.' + fn] = []
            st_ = St({}, {})
            try:
                v_ = itp.call_function(fcw, [C.symint('Nw', 3, 'N'), Const(name)], {kwname: C.deg0(label='marker:' + kwname)}, st_, fcw.node)
            except PathEnd:
                v_ = None
            if v_ is not None and itp.watch['window.' + fn]:
                acc.add(kwname)
        if acc:
            got[name] = acc
    for name in sorted(set(got) | set(SHAPE_PARAMS)):
        n_par += 1
        a, b = got.get(name), SHAPE_PARAMS.get(name)
        if a != b:
            rep.violation('factory-params', 'window.create_window', 'parameters of %s' % name,
                          'factory accepts %s, documented shape parameters are %s' % (sorted(a or []), sorted(b or [])), where)
            continue
        fn = table.get(name)
        f = m.funcs.get(fn)
        kws = set(x.arg for x in f.args.args[1:]) if f is not None else set()
        if not (a <= kws):
            rep.violation('factory-params', 'window.create_window', 'parameters of %s' % name,
                          '%s is not a keyword parameter of %s' % (sorted(a - kws), fn), where)
        else:
            rep.proved('factory-params', 'window.create_window', 'parameters of %s' % name, str(sorted(a)), where)
    # ---------------- forwarding through the factory (abstract interpretation, no Window summary)
    n_fwd = 0
    for name in sorted(table):
        fn = table[name]
        if fn not in m.funcs:
            continue
        fq = 'window.' + fn
        params = sorted(SHAPE_PARAMS.get(name, []))
        cases = [({}, True)] + [({p: True}, True) for p in params] + [({'not_a_parameter': True}, False)]
        for kwspec, should_return in cases:
            itp = C.new_interp(prog, summaries={})
            itp.summaries.pop('window.Window', None)
            itp.watch[fq] = []
            markers = {}
            kwargs = {}
            for p in kwspec:
                mk = C.deg0(label='marker:' + p)
                markers[p] = mk
                kwargs[p] = mk
            st = St({}, {})
            f = prog.func('window', 'create_window')
            try:
                v = itp.call_function(f, [C.symint('Nw', 3, 'N'), Const(name)], kwargs, st, f.node)
            except PathEnd:
                v = None
            n_fwd += 1
            label = '%s(%s)' % (name, ','.join(kwspec) or '')
            calls = list(itp.watch[fq])        # reached from the factory (directly or through a private helper)
            if not should_return:
                if v is None and not calls:
                    rep.proved('forwarding', 'window.create_window', label, 'unknown keyword raises', where)
                else:
                    rep.violation('forwarding', 'window.create_window', label, 'an undocumented keyword is accepted', where)
                continue
            if v is None or not calls:
                rep.violation('forwarding', 'window.create_window', label, 'the factory raises / never calls the generator for a documented call', where)
                continue
            ok = True
            for p, mk in markers.items():
                got_v = calls[-1]['params'].get(p)
                if not (isinstance(got_v, Num) and got_v.uid == mk.uid):
                    ok = False
                    rep.violation('forwarding', 'window.create_window', label,
                                  'keyword %s does not reach the parameter %s of %s' % (p, p, fn), where)
            nparam = calls[-1]['params']
            first = [a.arg for a in m.funcs[fn].args.args][0]
            if not (isinstance(nparam.get(first), IntV) and nparam[first].a == Aff.sym('Nw')):
                ok = False
                rep.violation('forwarding', 'window.create_window', label, 'the length is not forwarded as the first argument', where)
            if ok:
                rep.proved('forwarding', 'window.create_window', label, 'generator %s called with the same keywords' % fn, where)
    # ---------------- Window object
    wcls = prog.cls('window', 'Window')
    itp = C.new_interp(prog)
    itp.summaries.pop('window.Window', None)
    marker = Num({**zero_deg(), 'win': F(1)}, (Aff.sym('Nw'),), False, taint=frozenset(['w']))
    itp.summaries['window.create_window'] = lambda i, a, k, n, s: marker
    st = St({}, {})
    try:
        ref = itp.instantiate(wcls, [C.symint('Nw', 3, 'N'), Const('hamming')], {}, st, wcls.node)
        obj = st.heap[ref.oid]
    except PathEnd:
        obj = None
    where = loc('window', wcls.node)
    if obj is None:
        rep.violation('window-object', 'window.Window', 'construction', 'Window(N, name) raises for a valid name', where)
    else:
        d = obj.f.get('_Window__data')
        if isinstance(d, Num) and d.uid == marker.uid:
            rep.proved('window-object', 'window.Window', 'data', 'Window.data is the array create_window returned', where)
        else:
            rep.violation('window-object', 'window.Window', 'data', 'Window.data is not the factory result unmodified', where)
        e = obj.f.get('_Window__enbw')
        en = tonum(e) if e is not None else None
        nn = obj.f.get('_Window__N')
        if en is None:
            rep.undecided('window-object', 'window.Window', 'enbw', 'not numeric', where)
        else:
            deg_ok = deq(en.deg['win'], 0)
            sz_ok = en.sz is not None and sp.simplify(en.sz - sp.Symbol('Nw', positive=True)) == 0
            absl = sorted(l_ for l_ in en.taint if isinstance(l_, str) and l_.startswith('ABS:'))
            if absl:
                an, aq = itp.abs_nodes[absl[0]]
                rep.violation('window-object', aq or 'window.enbw', 'enbw: %s' % normalise(an)[:50], 'the equivalent noise bandwidth is built on a '
                              'sum of moduli: N*sum(w^2)/sum(w)^2 needs the plain sum of the samples -- for windows with negative samples '
                              '(flat-top, Lanczos) sum|w| > |sum w| and the reported ENBW is too small', loc('window', an))
            elif deg_ok and sz_ok and en.shape == ():
                rep.proved('window-object', 'window.Window', 'enbw', 'scalar, scale invariant, size signature N', where)
            else:
                rep.violation('window-object', 'window.Window', 'enbw',
                              'ENBW is not N*sum(w^2)/sum(w)^2: window-scaling exponent %s, size signature %s, shape %s'
                              % (en.deg['win'], en.sz, en.shape), where)
        if isinstance(nn, IntV) and nn.a == Aff.sym('Nw'):
            rep.proved('window-object', 'window.Window', 'N', 'Window.N is the requested length', where)
        else:
            rep.violation('window-object', 'window.Window', 'N', 'Window.N is not the requested length', where)
    # ---------------- Tukey at the ends of its taper ratio: r = 0 is the rectangular window, r = 1 the Hann window (the general
    # three-piece formula divides by r and is not evaluated there, so both ends are separate branches of the generator)
    try:
        ftk = prog.func('window', 'window_tukey')
    except Exception:
        ftk = None
    if ftk is not None:
        for rv, what in ((0, 'rectangular'), (1, 'hann')):
            itp = C.new_interp(prog, summaries={})
            st_ = St({}, {})
            try:
                out = itp.call_function(ftk, [C.symint('Nw', 3, 'N')], {'r': Const(rv)}, st_, ftk.node)
            except PathEnd:
                out = None
            if blocked(rep, 'closed-form-ends', ftk.qname, 'r=%d' % rv, itp):
                continue
            on = out if isinstance(out, Num) else None
            ones_ = on is not None and on.fill == 1
            cos_ = sorted(q_ for q_ in itp.trace if q_ in ('window.window_hann', 'window.window_hanning', 'window.window_cosine',
                                                          'window.window_hamming', 'window._coeff4', 'window._kaiser'))
            if rv == 0:
                if ones_ or 'window.window_rectangle' in itp.trace:
                    rep.proved('closed-form-ends', ftk.qname, 'r=0', 'all ones (rectangular)', loc(ftk.mod, ftk.node))
                elif cos_:
                    rep.violation('closed-form-ends', ftk.qname, 'r=0', 'a taper ratio of 0 means no tapered part at all: the window is '
                                  'rectangular (all ones), but this branch returns the result of %s' % cos_[0], loc(ftk.mod, ftk.node))
                else:
                    rep.undecided('closed-form-ends', ftk.qname, 'r=0', 'result is not recognisably all ones', loc(ftk.mod, ftk.node))
            else:
                if 'window.window_hann' in itp.trace or 'window.window_hanning' in itp.trace:
                    rep.proved('closed-form-ends', ftk.qname, 'r=1', 'the Hann generator', loc(ftk.mod, ftk.node))
                elif ones_ or 'window.window_rectangle' in itp.trace:
                    rep.violation('closed-form-ends', ftk.qname, 'r=1', 'a taper ratio of 1 makes the whole window one cosine lobe (the '
                                  'Hann window), but this branch returns all ones', loc(ftk.mod, ftk.node))
    rep.analysed['window_names'] = sorted(table)
    rep.floor('window names', n_names, 29)
    rep.floor('factory parameter rows', n_par, 10)
    rep.floor('forwarding cases', n_fwd, 29 * 2)
