"""C14 — covariance / modified-covariance AR fits: decidable wiring, shape, sign and normalisation clauses."""
import ast
from fractions import Fraction as F

import sympy as sp

from ..frontend import AnalysisError, loc, normalise
from ..values import *      # noqa
from .. import contexts as C
from ..d1rules import check_sink, report_conflicts, blocked

PROP = 'C14'
LEVEL = 'other'
NS = sp.Symbol('N', positive=True)
PS = sp.Symbol('P', positive=True)


def run(prog, rep, tier='quick'):
    rep.explanation = (
        'Decidable clauses of C14 for all data and orders: (binding) arcovar builds the \'covariance\' data matrix and modcovar '
        'the \'modified\' one, of the data and the requested order; (regression) the least-squares problem is lstsq(-Xc, X1) with '
        'X1 the first column (one per equation) and Xc the remaining `order` columns of the same matrix, the minus sign on the '
        'regressor block only, and the solution returned as the coefficient vector; (error) the returned error is real, carries '
        'amplitude degree 2 and is assembled from X1 and the solution; (Marple) the fast recursions return a variance '
        'normalised by N-p (forward, backward: covariance; forward+backward: modified covariance) and degree-0 coefficients. '
        'NOT decided: least-squares optimality / orthogonality of the residual, exact recovery of exponentials, equality of '
        'the two implementations (numerical).')
    rep.rule('binding', 'corrmtx(x, order, <method>) with the method of the estimator')
    rep.rule('regression', 'lstsq(A, b): A = -X[:, 1:] (order columns), b = X[:, 0], both slices of the corrmtx result; solution returned')
    rep.rule('error', 'returned error real, s=2')
    rep.rule('data-matrix', "corrmtx 'covariance': entry (i,k) = x[p+i-k], i < N-p; 'modified': those rows followed by conj x[(i-(N-p))+k] (block maps derived for symbolic N, p)")
    rep.rule('conjugation', 'arcovar under x[n] -> x[n]e^{i theta n}: data matrix entry (i,k) has charge i-k+p, the solution a[j] charge j+1, every inner product sums terms of one charge, the error has charge 0')
    rep.rule('error-sign', 'in arcovar / modcovar the returned error adds |b|^2 and b^H A a with opposite sign parity relative to the un-negated data matrix and the least-squares solution')
    rep.rule('exact-solve', 'lstsq is called without cond / rcond (no singular-value truncation)')
    rep.rule('marple-normalisation', 'size signature of the returned variances == 1/(N-p)')
    rep.rule('class-normalisation', 'pcovar.rho has size signature 1/(N-p) and pmodcovar.rho 1/(2(N-p)): the per-equation normalisation of the sibling Marple recursions')
    rep.rule('admission', 'no guard on (N, order) raises on the grid N=6..12, order=1..N/2 (arcovar, modcovar and the Marple recursions)')
    rep.rule('final-order-variance', 'a variance returned from inside the order loop depends (def-use within the iteration) on the coefficient stored in that iteration')
    rep.rule('final-order-unguarded', 'no raise-guard on a returned variance lies between its order update and the exit (return / break) taken at the final order of a Marple recursion')
    rep.rule('guard-consistency', 'all raise-guards of one scalar inside a Marple recursion accept the same interval (open/closed ends included)')
    seen = set()
    cm = prog.func('linalg', 'corrmtx')
    n_b = n_m = 0
    for mod, fname, method in (('covar', 'arcovar', 'covariance'), ('modcovar', 'modcovar', 'modified')):
        f = prog.func(mod, fname)
        where = loc(f.mod, f.node)
        for cplx in (False, True):
            for pval in (2, 5):
                itp = C.new_interp(prog)
                itp.watch[cm.qname] = []
                x = C.data(cplx, phase=False)
                v, itp = C.run_function(prog, mod, fname, [x, Const(pval)], {}, itp=itp)
                ctx = 'order=%d,%s' % (pval, 'complex' if cplx else 'real')
                n_b += 1
                if blocked(rep, 'binding', f.qname, ctx, itp):
                    continue
                calls = itp.watch[cm.qname]
                bad = []
                if len(calls) != 1:
                    bad.append('expected one corrmtx call, saw %d' % len(calls))
                else:
                    p = calls[0]['params']
                    if not (isinstance(p.get('x_input'), Num) and p['x_input'].uid == x.uid):
                        bad.append('corrmtx is not applied to the data')
                    if not (isinstance(p.get('m'), Const) and p['m'].v == pval):
                        bad.append('corrmtx order is %r' % (getattr(p.get('m'), 'v', p.get('m')),))
                    if not (isinstance(p.get('method'), Const) and p['method'].v == method):
                        bad.append('method %r instead of %r' % (getattr(p.get('method'), 'v', None), method))
                if bad:
                    rep.violation('binding', f.qname, ctx, '; '.join(bad), where)
                    continue
                rep.proved('binding', f.qname, ctx, "corrmtx(x, %d, '%s')" % (pval, method), where)
                X = calls[0]['ret']
                ls = [e for e in itp.events if e[0] == 'lstsq']
                if len(ls) != 1 or not isinstance(X, Num):
                    rep.undecided('regression', f.qname, ctx, 'lstsq call not found', where)
                    continue
                A, b = ls[0][2], ls[0][3]
                rows = X.shape[0] if X.shape else None
                bad = []
                if not (A.shape is not None and len(A.shape) == 2 and A.shape[1] == Aff(pval) and A.shape[0] == rows):
                    bad.append('regressor block has shape %s, required %s x %d' % (A.shape, rows, pval))
                if not (b.shape is not None and len(b.shape) == 1 and b.shape[0] == rows):
                    bad.append('target has shape %s, required (%s,)' % (b.shape, rows))
                if not A.neg:
                    bad.append('the regressor block is not negated (the model is x[n] + sum a_k x[n-k] = e[n])')
                if b.neg:
                    bad.append('the target column is negated')
                if A.col0 is None or b.col0 is None:
                    bad.append('regressor / target are not column slices the analysis can follow')
                elif not (A.col0 == Aff(1) and b.col0 == Aff(0)):
                    bad.append('columns used: regressors from column %s, target column %s (required 1.. and 0)' % (A.col0, b.col0))
                if not (getattr(A, 'src_uid', None) == X.uid and getattr(b, 'src_uid', None) == X.uid):
                    bad.append('regressors and target are not taken from the corrmtx result')
                if isinstance(v, Tup) and len(v.items) == 2:
                    sol = ls[0][4]
                    if getattr(v.items[0], 'uid', 0) != sol.uid:
                        bad.append('the returned coefficients are not the least-squares solution')
                if bad:
                    rep.violation('regression', f.qname, ctx, '; '.join(bad), where)
                else:
                    rep.proved('regression', f.qname, ctx, 'lstsq(-X[:,1:], X[:,0]) on the %s matrix; solution returned' % method, where)
                if isinstance(v, Tup) and len(v.items) == 2:
                    report_conflicts(rep, 'error', itp, ('s',), '%s,%s' % (fname, ctx), seen)
                    e = v.items[1]
                    check_sink(rep, 'error', f.qname, ctx, 'e', e, {'s': F(2)}, where)
                    en = tonum(e)
                    if en is not None and (en.cplx is False or en.rv):
                        rep.proved('error', f.qname, 'e real [%s]' % ctx, '', where)
                    else:
                        rep.violation('error', f.qname, 'e real [%s]' % ctx, 'the returned error is not real-valued', where)
    # ---------------- which sample sits where in the data matrix (affine block maps, all N and orders)
    from .. import segmap as S
    from ..interp_expr import amap_reduce
    n_dm = 0
    for method, users in (('covariance', 'covar.arcovar'), ('modified', 'modcovar.modcovar')):
        for cplx, c64 in ((False, False), (True, False), (True, True)):
            x = C.data(cplx, phase=False)
            x.c64 = c64           # complex data in single precision: complex data all the same
            x.seg = S.identity('X', x.shape[0])
            Pv = C.symint('P', 3, 'order')
            v, itp = C.run_function(prog, 'linalg', 'corrmtx', [x, Pv], {'method': Const(method)})
            ctx = '%s,%s' % (method, ('complex64' if c64 else 'complex') if cplx else 'real')
            n_dm += 1
            cw = loc(cm.mod, cm.node)
            if blocked(rep, 'data-matrix', cm.qname, ctx, itp):
                continue
            lost = [c_ for c_ in itp.conflicts if c_.comp == 'dtype']
            if lost or (cplx and isinstance(v, Num) and v.cplx is False):
                c_ = lost[0] if lost else None
                rep.violation('data-matrix', cm.qname, ctx + ' dtype', 'the data matrix of complex data is held in a real buffer%s: the '
                              'imaginary part of every sample is discarded, the fit is that of the real part'
                              % ((' (`%s`)' % c_.construct) if c_ else ''), loc(c_.mod, c_.node) if c_ else cw)
                continue
            A = tonum(v) if v is not None else None
            if A is None or A.amap is None:
                rep.undecided('data-matrix', cm.qname, ctx, 'arrangement of the data matrix not derivable', cw)
                continue
            if A.amap == 'bad':
                rep.violation('data-matrix', cm.qname, ctx, 'the matrix is assembled from pieces that are not an affine arrangement of '
                              'the data', cw)
                continue
            NP = x.shape[0] - Pv.a
            want = {(repr(Aff(0)), repr(NP), '1', '-1', repr(Pv.a), False)}
            if method == 'modified':
                want.add((repr(NP), repr(NP.scale(2)), '1', '1', repr(-NP), True))
            got = {(repr(b[0]), repr(b[1]), str(b[4]), str(b[5]), repr(b[6]), bool(b[8])) for b in amap_reduce(A.amap)}
            cols_ok = all(b[2] == Aff(0) and b[3] == Pv.a + 1 for b in A.amap)
            if not cplx:
                want = {w[:5] for w in want}        # conjugation is the identity on real data
                got = {g[:5] for g in got}
            if got == want and cols_ok:
                rep.proved('data-matrix', cm.qname, ctx, 'rows 0..N-p-1: x[p+i-k]' + ('; rows N-p..2(N-p)-1: conj x[(i-(N-p))+k]'
                           if method == 'modified' else '') + ' (used by %s)' % users, cw)
            else:
                rep.violation('data-matrix', cm.qname, ctx, 'the %s data matrix holds %s (rows from, to, d/di, d/dk, offset[, conj]); '
                              'required %s: the least-squares problem solved is not the %s prediction-error problem'
                              % (method, sorted(got), sorted(want), 'forward' if method == 'covariance' else 'forward-backward'), cw)
    rep.floor('data-matrix contexts', n_dm, 6)
    # ---------------- conjugate placement (modulation charges of the data matrix, the solution and the error; 2-D charges)
    from ..d4rules import run_d4, report_q, check_q
    from .. import charge as Q
    n_q = 0
    seen_q = set()
    f = prog.func('covar', 'arcovar')
    for pval in (2, 5):
        v, itp = run_d4(prog, 'covar', 'arcovar', [C.data(True, phase=False), Const(pval)])
        ctx = 'order=%d' % pval
        n_q += 1
        if blocked(rep, 'conjugation', f.qname, ctx, itp):
            continue
        nconf = report_q(rep, 'conjugation', itp, ('covar.arcovar', 'linalg.corrmtx'), ctx, seen_q)
        if isinstance(v, Tup) and len(v.items) == 2:
            check_q(rep, 'conjugation', f.qname, ctx, 'a', v.items[0], Q.lin(1, Aff(1)), loc(f.mod, f.node), nconf)
            check_q(rep, 'conjugation', f.qname, ctx, 'e', v.items[1], Aff(0), loc(f.mod, f.node), nconf)
        elif not nconf:
            rep.undecided('conjugation', f.qname, ctx, 'no (a, e) pair returned', loc(f.mod, f.node))
    rep.floor('conjugation contexts', n_q, 2)
    # ---------------- sign of the cross term in the returned error: e = |b|^2 - b^H A a_ls (a = -a_ls for the model x + sum a_k x = e)
    n_sg = 0
    for mod, fname in (('covar', 'arcovar'), ('modcovar', 'modcovar')):
        f = prog.func(mod, fname)
        for cplx in (False, True):
            v, itp = C.run_function(prog, mod, fname, [C.data(cplx, phase=False), Const(3)], {})
            ctx = 'complex' if cplx else 'real'
            if blocked(rep, 'error-sign', f.qname, ctx, itp):
                continue
            here = {f.qname} | {q_ for q_ in itp.trace if q_.startswith(mod + '.')}       # the estimator and its private helpers
            sums = [e for e in itp.events if e[0] == 'sum-signs' and e[6] in here and e[5] == () and e[4] is not TOP and deq(e[4], 2)]
            n_sg += 1
            good = [e for e in sums if e[2] != e[3]]
            if good:
                rep.proved('error-sign', f.qname, ctx, 'the error combines the energy term and the cross term with opposite sign parity '
                           '(%s)' % normalise(good[0][1])[:80], loc(f.mod, good[0][1]))
            elif sums:
                rep.violation('error-sign', f.qname, '%s [%s]' % (normalise(sums[0][1])[:80], ctx), 'the cross term b^H A a enters the returned '
                              'error with the same sign parity as the energy term |b|^2 (a negation was moved or dropped between the '
                              'regressor block used in the solve and the one used here): the value is 2|b|^2 - e_min, not the minimum',
                              loc(f.mod, sums[0][1]))
            else:
                rep.undecided('error-sign', f.qname, ctx, 'no sum of two energy terms found in the error computation', loc(f.mod, f.node))
    rep.floor('error-sign contexts', n_sg, 4)
    # ---------------- the solve is the plain least-squares solve
    for mod, fname, method in (('covar', 'arcovar', 'covariance'), ('modcovar', 'modcovar', 'modified')):
        f = prog.func(mod, fname)
        v, itp = C.run_function(prog, mod, fname, [C.data(True, phase=False), Const(3)], {})
        ls = [e for e in itp.events if e[0] == 'lstsq']
        for e in ls:
            # None and a negative rcond both mean "machine precision"
            extra = {k: val for k, val in e[5].items() if not (isinstance(val, Const) and (val.v is None or (
                     isinstance(val.v, (int, float)) and not isinstance(val.v, bool) and val.v < 0)))
                     and k not in ('lapack_driver', 'overwrite_a', 'overwrite_b', 'check_finite')}
            if extra:
                rep.violation('exact-solve', f.qname, normalise(e[1]), 'the least-squares solve is given %s: singular values below the '
                              'threshold are dropped, so for a full-rank but ill-conditioned data matrix the result is a truncated '
                              'solution, not the minimiser of the prediction error' % ', '.join('%s=%s' % (k, getattr(val, 'v', val)) for k, val in sorted(extra.items())),
                              loc(f.mod, e[1]))
            else:
                rep.proved('exact-solve', f.qname, normalise(e[1]), 'no truncation threshold passed (machine-precision default)', loc(f.mod, e[1]))
        pv = [e for e in itp.events if e[0] == 'pinv' and e[3] == f.qname and 'x' in e[2].taint
              and e[2].shape is not None and len(e[2].shape) == 2 and e[2].shape[0] == e[2].shape[1]]
        if not ls and pv:
            rep.violation('exact-solve', f.qname, normalise(pv[0][1])[:70], 'the coefficients come from the pseudo-inverse of the square Gram '
                          'matrix of the data (normal equations): the condition number is squared and pinv drops every direction whose '
                          'singular value is below its relative cutoff, so for a full-rank but ill-conditioned data matrix (noiseless '
                          'close sinusoids) the result is a truncated solution, not the minimiser of the prediction error',
                          loc(f.mod, pv[0][1]))
        elif not ls:
            rep.undecided('exact-solve', f.qname, 'lstsq', 'lstsq call not found', loc(f.mod, f.node))
    # Marple recursions
    for mod, fname, idxs in (('covar', 'arcovar_marple', (1, 3)), ('modcovar', 'modcovar_marple', (1,))):
        f = prog.func(mod, fname)
        where = loc(f.mod, f.node)
        for cplx in (False, True):
            v, itp = C.run_function(prog, mod, fname, [C.data(cplx, phase=False), C.symint('P', 2, 'order')], {})
            ctx = 'complex' if cplx else 'real'
            n_m += 1
            if blocked(rep, 'marple-normalisation', f.qname, ctx, itp):
                continue
            if not isinstance(v, Tup):
                rep.undecided('marple-normalisation', f.qname, ctx, 'no tuple returned', where)
                continue
            report_conflicts(rep, 'error', itp, ('s',), '%s,%s' % (fname, ctx), seen)
            check_sink(rep, 'error', f.qname, ctx, 'coefficients', v.items[0], {'s': F(0)}, where)
            for i in idxs:
                val = v.items[i]
                check_sink(rep, 'error', f.qname, ctx, 'variance[%d]' % i, val, {'s': F(2)}, where)
                sz = getattr(val, 'sz', None)
                ok = sz is not None and sp.simplify(sz - 1 / (NS - PS)) == 0
                if ok:
                    rep.proved('marple-normalisation', f.qname, 'variance[%d] [%s]' % (i, ctx), 'size signature 1/(N-p)', where)
                else:
                    rep.violation('marple-normalisation', f.qname, 'variance[%d] [%s]' % (i, ctx), 'the returned variance is normalised by '
                                  '%s, not by the number of equations N-p' % (('1/(%s)' % sp.simplify(1 / sz)) if sz not in (None, 0) else 'an unknown factor'), where)
    # the PSD classes normalise the least-squares minimum the way the sibling Marple recursion does (per equation)
    n_cn = 0
    for mod, cname, want, txt in (('covar', 'pcovar', 1 / (NS - PS), 'N-p'), ('modcovar', 'pmodcovar', 1 / (2 * (NS - PS)), '2(N-p)')):
        cls = prog.cls(mod, cname)
        where = loc(cls.mod, cls.node)
        for cplx in (False, True):
            ctx = 'complex' if cplx else 'real'
            ref, obj, itp, okc = C.run_class(prog, mod, cname, [C.data(cplx, phase=False), C.symint('P', 2, 'order')], {})
            n_cn += 1
            if blocked(rep, 'class-normalisation', cls.qname, ctx, itp):
                continue
            rho = obj.f.get('_ParametricSpectrum__rho') if (okc and obj is not None) else None
            sz = getattr(rho, 'sz', None)
            if not isinstance(rho, Num) or sz is None:
                rep.undecided('class-normalisation', cls.qname, ctx, 'no size signature for the noise variance of the object', where)
            elif sp.simplify(sz - want) == 0:
                rep.proved('class-normalisation', cls.qname, 'rho [%s]' % ctx, 'size signature 1/(%s)' % txt, where)
            else:
                rep.violation('class-normalisation', cls.qname, 'rho [%s]' % ctx, 'the noise variance of the object is the least-squares minimum '
                              'normalised by %s, not by the number of equations %s that the Marple recursion of the same method uses: rho '
                              'and the PSD level differ from the per-sample minimum by a factor that depends on the order' %
                              (('1/(%s)' % sp.simplify(1 / sz)) if sz != 0 else 'an unknown factor', txt), where)
    rep.floor('class variances examined', n_cn, 4)
    # the variance returned from inside the order recursion includes the order update of the final order: in the iteration that
    # returns, every returned scalar is (re)computed from the coefficient stored in that iteration
    n_fo = 0
    for mod, fname in (('covar', 'arcovar_marple'), ('modcovar', 'modcovar_marple')):
        f = prog.func(mod, fname)
        for lp in [n_ for n_ in ast.walk(f.node) if isinstance(n_, (ast.For, ast.While))]:
            ridx = [i_ for i_, st_ in enumerate(lp.body) if any(isinstance(x_, ast.Return) for x_ in ast.walk(st_))]
            if not ridx:
                continue
            R_ = ridx[0]
            ret = [x_ for x_ in ast.walk(lp.body[R_]) if isinstance(x_, ast.Return)][0]
            if not isinstance(ret.value, ast.Tuple) or len(ret.value.elts) < 2 or not isinstance(ret.value.elts[0], ast.Name):
                continue
            coef_arr = ret.value.elts[0].id
            deps = {}

            def closure(names):
                out = set()
                todo = list(names)
                while todo:
                    n_ = todo.pop()
                    if n_ in out:
                        continue
                    out.add(n_)
                    todo += list(deps.get(n_, ()))
                return out
            coef_names = set()

            def scan(stmts, stop=None):
                for st_ in stmts:
                    if st_ is stop:
                        return True
                    for x_ in ast.walk(st_):
                        if isinstance(x_, ast.Return) and x_ is ret:
                            # statements of this block that precede the return have been scanned by the recursive walk below
                            pass
                    if isinstance(st_, ast.Assign) and len(st_.targets) == 1:
                        t_ = st_.targets[0]
                        used = {n_.id for n_ in ast.walk(st_.value) if isinstance(n_, ast.Name)}
                        if isinstance(t_, ast.Name):
                            deps[t_.id] = closure(used) - {t_.id} | ({t_.id} & set()) | (deps.get(t_.id, set()) if t_.id in used else set())
                        elif isinstance(t_, ast.Subscript) and isinstance(t_.value, ast.Name) and t_.value.id == coef_arr \
                                and isinstance(st_.value, ast.Name):
                            coef_names.add(st_.value.id)
                    elif isinstance(st_, ast.If):
                        for blk in (st_.body, st_.orelse):
                            if any(x_ is ret for b_ in blk for x_ in ast.walk(b_)):
                                if scan(blk, stop=None):
                                    return True
                    if any(x_ is ret for x_ in ast.walk(st_)) and isinstance(st_, ast.Return):
                        return True
                return False
            scan(lp.body[:R_ + 1])
            if not coef_names:
                continue
            n_fo += 1
            appended = {a_.func.value.id for a_ in ast.walk(lp) if isinstance(a_, ast.Call) and isinstance(a_.func, ast.Attribute)
                        and a_.func.attr == 'append' and isinstance(a_.func.value, ast.Name)}
            bad_ = [el.id for el in ret.value.elts[1:] if isinstance(el, ast.Name) and el.id != coef_arr and el.id not in appended
                    and not (closure({el.id}) & coef_names)]
            if bad_:
                rep.violation('final-order-variance', f.qname, 'return inside the recursion', 'the returned %s does not depend on the coefficient '
                              '(%s) stored in the iteration that returns: the order update of the last order is missing from the returned '
                              'variance, which is then the minimum of order p-1' % (bad_, sorted(coef_names)), loc(f.mod, ret))
            else:
                rep.proved('final-order-variance', f.qname, 'return inside the recursion', 'the returned scalars are recomputed from %s before '
                           'the return' % sorted(coef_names), loc(f.mod, ret))
    rep.floor('in-loop returns examined', n_fo, 1)
    # validity tests of the recursion scalars: every test of one scalar inside one recursion accepts the same interval
    from ..guards import accepted_intervals, show as show_iv
    n_g = 0
    for mod, fname in (('covar', 'arcovar_marple'), ('modcovar', 'modcovar_marple')):
        f = prog.func(mod, fname)
        per = {}
        for g_, iv in accepted_intervals(f.node):
            for name, rng in iv.items():
                per.setdefault(name, []).append((g_, rng))
        for name, lst in sorted(per.items()):
            n_g += 1
            kinds = sorted(set(r_ for _, r_ in lst), key=str)
            if len(kinds) > 1:
                minority = min(kinds, key=lambda k_: sum(1 for _, r_ in lst if r_ == k_))
                g_ = [g0 for g0, r_ in lst if r_ == minority][0]
                rep.violation('guard-consistency', f.qname, 'validity tests of %s' % name, 'the tests of %s in this recursion accept different '
                              'intervals: %s (e.g. line %d accepts %s): a value one test lets through as valid makes another raise, so inputs '
                              'that reach the boundary are rejected' % (name, ', '.join(show_iv(k_) for k_ in kinds), g_.lineno, show_iv(minority)),
                              loc(f.mod, g_))
            else:
                rep.proved('guard-consistency', f.qname, 'validity tests of %s' % name, '%d test(s), all accept %s' % (len(lst), show_iv(kinds[0])),
                           loc(f.mod, f.node))
    # exact fits are inside C14's domain (p noiseless exponentials at order p): there the final-order minimum is 0 up to round-off of
    # either sign, so no sign test of a returned variance may sit between its order update and the exit of the final order
    n_fu = 0
    for mod, fname in (('covar', 'arcovar_marple'), ('modcovar', 'modcovar_marple')):
        f = prog.func(mod, fname)
        guards_ = accepted_intervals(f.node)
        for lp in [n_ for n_ in ast.walk(f.node) if isinstance(n_, (ast.For, ast.While))]:
            xidx = [i_ for i_, st_ in enumerate(lp.body) if isinstance(st_, ast.If)
                    and any(isinstance(x_, (ast.Return, ast.Break)) for x_ in ast.walk(st_))
                    and not any(isinstance(x_, ast.Raise) for x_ in ast.walk(st_))]
            if not xidx:
                continue
            X_ = xidx[0]
            exits = [x_ for x_ in ast.walk(lp.body[X_]) if isinstance(x_, (ast.Return, ast.Break))]
            if isinstance(exits[0], ast.Return):
                rets = [exits[0]]
            else:
                rets = [st_ for st_ in f.node.body[f.node.body.index(lp) + 1:] if isinstance(st_, ast.Return)] if lp in f.node.body else []
            returned = {n_.id for r_ in rets if r_.value is not None for n_ in ast.walk(r_.value) if isinstance(n_, ast.Name)}
            if not returned:
                continue
            n_fu += 1

            def last_store(name):
                last = -1
                for i_, st_ in enumerate(lp.body[:X_]):
                    for x_ in ast.walk(st_):
                        if isinstance(x_, ast.Name) and x_.id == name and isinstance(x_.ctx, ast.Store):
                            last = i_
                return last
            bad_ = []
            for g_, iv in guards_:
                top = [i_ for i_, st_ in enumerate(lp.body[:X_]) if any(x_ is g_ for x_ in ast.walk(st_))]
                if not top:
                    continue
                for name in iv:
                    ls_ = last_store(name)
                    if name in returned and 0 <= ls_ <= top[0]:
                        bad_.append((name, g_))
            if bad_:
                for name, g_ in bad_:
                    rep.violation('final-order-unguarded', f.qname, 'order update of %s -> exit of the final order' % name,
                                  'a raise-guard on %s (line %d) lies between the order update of %s and the exit taken at the final order: '
                                  'for an exact fit (p noiseless exponentials at order p, inside the stated domain) the final minimum is 0 up '
                                  'to round-off of either sign, so the recursion raises instead of returning the coefficients' %
                                  (name, g_.lineno, name), loc(f.mod, g_))
            else:
                rep.proved('final-order-unguarded', f.qname, 'order update -> exit of the final order', 'no raise-guard on a returned scalar '
                           '(%s) between its last update and the final-order exit (statement %d of the order loop)' %
                           (', '.join(sorted(returned)), X_), loc(f.mod, lp.body[X_]))
    rep.floor('final-order exits examined', n_fu, 2)
    # the stated domain (N - p >= p) is admitted by all four estimators
    from ..d1rules import admission_of
    grid = [{'N': n_, 'Pa': p_} for n_ in range(6, 13) for p_ in range(1, n_ // 2 + 1)]
    for mod, fname in (('covar', 'arcovar'), ('modcovar', 'modcovar'), ('covar', 'arcovar_marple'), ('modcovar', 'modcovar_marple')):
        admission_of(rep, prog, 'admission', mod, fname,
                     lambda: ([C.data(True, phase=False), IntV(Aff.sym('Pa'), frozenset(['order']))], {}), grid,
                     lambda w: 'N = %d samples, order = %d' % (w['N'], w['Pa']), seen)
    rep.floor('guarded recursion scalars', n_g, 1)
    rep.floor('binding contexts', n_b, 8)
    rep.floor('marple contexts', n_m, 4)
