"""C17 — MUSIC / EV: decidable clauses (argument validation, subspace selection wiring, singular values exposed,
noise-subspace accumulation)."""
import ast
from fractions import Fraction as F

from ..frontend import AnalysisError, loc, normalise
from ..values import *      # noqa
from .. import contexts as C
from ..d1rules import check_sink, report_conflicts, blocked

PROP = 'C17'
LEVEL = 'other'


def run(prog, rep, tier='quick'):
    rep.explanation = (
        'Decidable clauses of C17 for all data: (validation) eigen() has no normal path when NSIG and threshold are both '
        'given, when NSIG < 0 or NSIG >= P, or for an unknown method, and does return for admissible arguments; (selection) the '
        'AIC/MDL rule is consulted only when neither NSIG nor threshold is given, and it is the rule that was named; '
        '(singular values) the returned S is the very array svd produced from the forward-backward matrix of 2*min(N-P,100) '
        'rows and P columns; (accumulation) the pseudo-spectrum accumulates |FFT_NFFT(v_I)|^2 over I = NSIG..P-1, indexes the '
        'singular-value weight of EV with the same I, and is inverted once; exponents MUSIC 0 / EV 1 (with C03) and the bin '
        'order (with C02). NOT decided: peak locations, number of non-negligible singular values, positivity (numerical).')
    rep.rule('admission', 'no guard on (N, P, NSIG) raises for N >= 2P, 1 <= NSIG < P')
    rep.rule('forwarding', 'music() / ev(): the eigen() call receives X, P, NSIG, threshold, NFFT, criteria, verbose unchanged and the matching method')
    rep.rule('validation', 'constant-argument contexts on both sides of each documented bound')
    rep.rule('selection', 'aic_eigen / mdl_eigen called iff NSIG is None and threshold is None, and matching `criteria`')
    rep.rule('singular-values', 'returned S is svd(FB)[1]; FB has shape (2*NP, P)')
    rep.rule('data-matrix', 'FB[i,k] = x[i-k+P-1] (i<NP), conj(x[i-NP+k+1]) (NP<=i<2NP), as an affine block map')
    rep.rule('accumulation', 'loop range(NSIG, P); V[:, I] and S[I] use the loop index; PSD = 1/PSD once')
    f = prog.func('eigenfre', 'eigen')
    where = loc(f.mod, f.node)
    n_v = 0
    X = lambda: C.data(True, phase=False)
    nf = lambda: C.nfft('even')
    def npint(v_):
        c_ = Const(v_)
        c_.npint = True          # a numpy integer scalar: what argmin() + 1 or mask.sum() hands over
        return c_
    CASES = [
        ({'NSIG': Const(3), 'threshold': C.deg0()}, 8, False, 'NSIG and threshold together'),
        ({'NSIG': Const(0), 'threshold': C.deg0()}, 8, False, 'NSIG = 0 and threshold together'),
        ({'NSIG': npint(0), 'threshold': C.deg0()}, 8, False, 'NSIG = 0 (numpy integer) and threshold together'),
        ({'NSIG': Const(-1)}, 8, False, 'NSIG < 0'),
        ({'NSIG': Const(8)}, 8, False, 'NSIG == P'),
        ({'NSIG': Const(9)}, 8, False, 'NSIG > P'),
        ({'NSIG': Const(7)}, 8, True, 'NSIG = P-1'),
        ({'NSIG': Const(0)}, 8, True, 'NSIG = 0'),
        ({'NSIG': Const(3), 'method': Const('dummy')}, 8, False, 'unknown method'),
        ({'NSIG': Const(3), 'method': Const('ev')}, 8, True, 'ev'),
        ({'threshold': C.deg0()}, 8, True, 'threshold only'),
        ({}, 8, True, 'neither'),
    ]
    CASES += [
        ({'NSIG': npint(-1)}, 8, False, 'NSIG < 0 (numpy integer)'),
        ({'NSIG': npint(8)}, 8, False, 'NSIG == P (numpy integer)'),
        ({'NSIG': npint(3)}, 8, True, 'NSIG = 3 (numpy integer)'),
    ]
    for kw, P, want, label in CASES:
        kw = dict(kw)
        kw.setdefault('NFFT', nf())
        v, itp = C.run_function(prog, 'eigenfre', 'eigen', [X(), Const(P)], kw)
        n_v += 1
        if blocked(rep, 'validation', f.qname, label, itp):
            continue
        got = v is not None
        if got == want:
            rep.proved('validation', f.qname, label, 'returns' if got else 'raises on every path', where)
        else:
            rep.violation('validation', f.qname, label, 'inadmissible arguments are accepted' if got else 'admissible arguments are rejected', where)
    # selection
    n_s = 0
    for kw, want_aic, want_mdl, label in (
            ({'NSIG': Const(3)}, 0, 0, 'NSIG given'),
            ({'threshold': C.deg0()}, 0, 0, 'threshold given'),
            ({'criteria': Const('aic')}, 1, 0, 'neither, criteria=aic'),
            ({'criteria': Const('mdl')}, 0, 1, 'neither, criteria=mdl'),
            ({}, 1, 0, 'neither, default criteria')):
        itp = C.new_interp(prog)
        itp.watch['criteria.aic_eigen'] = []
        itp.watch['criteria.mdl_eigen'] = []
        kw = dict(kw)
        kw['NFFT'] = nf()
        v, itp = C.run_function(prog, 'eigenfre', 'eigen', [X(), Const(8)], kw, itp=itp)
        n_s += 1
        na, nm = len(itp.watch['criteria.aic_eigen']), len(itp.watch['criteria.mdl_eigen'])
        if (na, nm) == (want_aic, want_mdl):
            rep.proved('selection', 'eigenfre._get_signal_space', label, 'aic_eigen x%d, mdl_eigen x%d' % (na, nm), where)
        else:
            rep.violation('selection', 'eigenfre._get_signal_space', label, 'order-selection rules consulted: aic x%d, mdl x%d (required '
                          'x%d, x%d): explicit dimension, threshold and AIC/MDL are not mutually exclusive / the wrong rule runs'
                          % (na, nm, want_aic, want_mdl), where)
        # singular values
        if label == 'NSIG given' and isinstance(v, Tup) and len(v.items) == 2:
            sv = [e for e in itp.events if e[0] == 'svd']
            if len(sv) == 1:
                A, S = sv[0][2], sv[0][3]
                okS = isinstance(v.items[1], Num) and v.items[1].uid == S.uid
                okA = A.shape is not None and len(A.shape) == 2 and A.shape[1] == Aff(8) and A.shape[0] is not None \
                    and 'x' in A.taint
                if okS and okA:
                    rep.proved('singular-values', f.qname, 'S', 'svd of the %s x %s data matrix, returned unmodified' % (A.shape[0], A.shape[1]), where)
                else:
                    rep.violation('singular-values', f.qname, 'S', 'the returned singular values are not those svd produced from the '
                                  'forward-backward data matrix (shape %s)' % (A.shape,), where)
            elif not sv and [e for e in itp.events if e[0] == 'eigh'] and any(
                    isinstance(l_, str) and l_.startswith('EIG:') for l_ in taint_of(v.items[1])):
                eg = [e for e in itp.events if e[0] == 'eigh'][0]
                rep.violation('singular-values', f.qname, 'S', 'the returned values are computed from an eigen-decomposition (%s), not '
                              'by svd of the forward-backward data matrix: the eigenvalues of the Gram matrix are the squared singular '
                              'values only in exact arithmetic -- for noiseless data the null ones come out as +-round-off, so their '
                              'roots are NaN or ~1e-8 of the largest instead of negligible' % normalise(eg[1])[:60], loc(f.mod, eg[1]))
            else:
                rep.undecided('singular-values', f.qname, 'S', 'svd call not found', where)
    # accumulation (structure of the noise-subspace loop)
    loop = None
    for n in ast.walk(f.node):
        if isinstance(n, ast.For) and any(isinstance(c, ast.Call) and getattr(c.func, 'id', getattr(c.func, 'attr', '')) == 'fft' for c in ast.walk(n)):
            loop = n
    if loop is None:
        raise AnalysisError('noise-subspace loop of eigen() not found')
    bad = []
    it = loop.iter
    if not (isinstance(it, ast.Call) and getattr(it.func, 'id', '') == 'range' and len(it.args) == 2
            and isinstance(it.args[0], ast.Name) and it.args[0].id == 'NSIG' and isinstance(it.args[1], ast.Name) and it.args[1].id == 'P'):
        bad.append('the loop does not run over range(NSIG, P): %s' % normalise(it))
    tv = loop.target.id if isinstance(loop.target, ast.Name) else None
    for sub in ast.walk(loop):
        if isinstance(sub, ast.Subscript) and isinstance(sub.value, ast.Name) and sub.value.id == 'S' and isinstance(sub.ctx, ast.Load):
            if not (isinstance(sub.slice, ast.Name) and sub.slice.id == tv):
                bad.append('the EV weight is S[%s], not S[%s]' % (normalise(sub.slice), tv))
        if isinstance(sub, ast.Subscript) and isinstance(sub.value, ast.Name) and sub.value.id == 'V' and isinstance(sub.ctx, ast.Load):
            sl = sub.slice
            col = sl.elts[1] if isinstance(sl, ast.Tuple) and len(sl.elts) == 2 else None
            if not (isinstance(col, ast.Name) and col.id == tv):
                bad.append('the noise vector is V[.., %s], not column %s' % (normalise(col) if col is not None else '?', tv))
    if bad:
        # not written as `for I in range(NSIG, P): ... V[:, I] ... S[I]`: decide from the values instead -- which singular
        # vectors / singular values are read, and over which index range
        Pv_ = C.symint('P', 3, 'order')
        Ns_ = C.symint('NSIG', 1)
        vbad = []
        nreads = 0
        for method in ('music', 'ev'):
            v_, itp_ = C.run_function(prog, 'eigenfre', 'eigen', [X(), Pv_], {'NSIG': Ns_, 'method': Const(method), 'NFFT': nf()})
            reads = [e for e in itp_.events if e[0] == 'svd-read' and e[4] == f.qname]
            syms = set()
            for e in reads:
                idx = [a for a in e[2] if a is not None]
                if e[1] == 'svd-Vh':
                    # V = Vh^T (tr flag): the vector index is the column of V / the row of Vh
                    pos = 1 if e[3] else 0
                    ia = e[2][pos] if len(e[2]) > pos else None
                else:
                    ia = e[2][0] if e[2] else None
                nreads += 1
                if ia is None:
                    vbad.append('%s read with an index the analysis cannot follow' % e[1])
                    continue
                ls = [s_ for s_ in ia.t if s_ in Aff.BOUNDS]
                if len(ls) != 1 or ia != Aff.sym(ls[0]):
                    vbad.append('%s is read at index %s' % (e[1], ia))
                    continue
                lo_, hi_ = Aff.BOUNDS[ls[0]]
                if not (lo_ == Ns_.a and hi_ == Pv_.a):
                    vbad.append('%s is read over the index range [%s, %s), not [NSIG, P)' % (e[1], lo_, hi_))
                syms.add(ls[0])
            if method == 'ev' and not any(e[1] == 'singular' for e in reads):
                vbad.append('the EV branch does not read the singular values')
            if len(syms) > 1:
                vbad.append('singular vectors and singular values are indexed by different loop variables')
        if vbad or not nreads:
            rep.violation('accumulation', f.qname, 'noise-subspace loop', '; '.join(sorted(set(vbad)) or bad), where)
        else:
            rep.proved('accumulation', f.qname, 'noise-subspace loop', 'singular vectors and values are read with one index running over '
                       '[NSIG, P) (%d reads examined)' % nreads, where)
    else:
        rep.proved('accumulation', f.qname, 'noise-subspace loop', 'I = NSIG..P-1; V[:, I], S[I]', where)
    # data matrix: which sample sits where (affine block maps)
    from .. import segmap as S
    for cplx in (False, True):
        x = C.data(cplx, phase=False)
        x.seg = S.identity('X', x.shape[0])
        Pv = C.symint('P', 3, 'order')
        v, itp = C.run_function(prog, 'eigenfre', 'eigen', [x, Pv], {'NSIG': C.symint('NSIG', 1), 'NFFT': nf()})
        ctx = 'complex' if cplx else 'real'
        sv = [e for e in itp.events if e[0] == 'svd']
        if len(sv) != 1:
            rep.undecided('data-matrix', f.qname, ctx, 'svd call not found', where)
            continue
        A = sv[0][2]
        if A.amap == 'bad':
            rep.violation('data-matrix', f.qname, ctx, 'the forward-backward matrix is assembled from pieces that are not one '
                          'affine arrangement of the data (e.g. a Toeplitz/Hankel block whose first column and last row are not a '
                          'contiguous run of samples)', where)
            continue
        if not A.amap or A.shape is None or A.shape[0] is None:
            rep.undecided('data-matrix', f.qname, ctx, 'arrangement of the data matrix not derivable', where)
            continue
        NP = A.shape[0].scale(F(1, 2))
        syms = set(A.shape[0].t) | set(Pv.a.t)
        blocks = [b for b in A.amap if all(set(aff(z).t) <= syms for z in (b[0], b[1], b[6]))]
        want = {(repr(Aff(0)), repr(NP), '1', '-1', repr(Pv.a - 1), False),
                (repr(NP), repr(NP.scale(2)), '1', '1', repr(Aff(1) - NP), True)}
        got = {(repr(b[0]), repr(b[1]), str(b[4]), str(b[5]), repr(b[6]), bool(b[8]) if cplx else (bool(b[8]) if False else (b[1] == NP.scale(2)))) for b in blocks}
        if not cplx:
            # for real data conjugation is the identity: ignore the flag
            want = {w[:5] for w in want}
            got = {g[:5] for g in got}
        if got == want:
            rep.proved('data-matrix', f.qname, ctx, 'rows 0..NP-1: x[i-k+P-1]; rows NP..2NP-1: conj x[(i-NP)+k+1]', where)
        else:
            rep.violation('data-matrix', f.qname, ctx, 'forward-backward data matrix holds %s; required forward rows x[i-k+P-1] and '
                          'conjugated backward rows x[(i-NP)+k+1]' % sorted(got), where)
    seen = set()
    for method, d in (('music', 0), ('ev', 1)):
        v, itp = C.run_function(prog, 'eigenfre', 'eigen', [X(), C.symint('P', 3, 'order')], {'NSIG': C.symint('NSIG', 1), 'method': Const(method), 'NFFT': nf()})
        report_conflicts(rep, 'accumulation', itp, ('s',), method, seen)
        for e in itp.events:
            if e[0] == 'masked-ufunc' and (e[4] == f.qname or (e[4].startswith('eigenfre.') and e[4] in itp.trace)):
                fill = e[3]
                same = fill in ('inf', float('inf'))
                key = ('masked', normalise(e[1]))
                if key in seen:
                    continue
                seen.add(key)
                if same:
                    rep.proved('accumulation', f.qname, 'masked %s' % normalise(e[1])[:60], 'excluded entries are +inf, as the plain reciprocal gives', loc(f.mod, e[1]))
                else:
                    rep.violation('accumulation', f.qname, 'masked %s' % normalise(e[1])[:60], 'a masked ufunc on the way to the pseudo-spectrum: '
                                  'where the mask is false the result keeps the `out` buffer (%s), not the value of the operation -- at an '
                                  'exact null of the noise-subspace projection the pseudo-spectrum is %s instead of +inf (not positive / not a peak)'
                                  % ('filled with %s' % fill if fill is not None else 'unspecified contents', fill if fill is not None else 'arbitrary'), loc(f.mod, e[1]))
        if isinstance(v, Tup):
            check_sink(rep, 'accumulation', f.qname, method, 'pseudo-spectrum', v.items[0], {'s': F(d)}, where)
    # N >= 2P, P > NSIG >= 1 is admitted
    from ..d1rules import admission_of
    seen_adm = set()
    grid = [{'N': n_, 'Pa': p_, 'Ka': k_} for n_ in (8, 13, 20) for p_ in range(2, n_ // 2 + 1) for k_ in range(1, p_)]
    for meth_ in ('music', 'ev'):
        admission_of(rep, prog, 'admission', 'eigenfre', 'eigen',
                     lambda: ([C.data(True, phase=False), IntV(Aff.sym('Pa'), frozenset(['order']))],
                              {'NSIG': IntV(Aff.sym('Ka'), frozenset(['NSIG'])), 'method': Const(meth_), 'NFFT': C.nfft('even')}), grid,
                     lambda w: 'N = %d, P = %d, NSIG = %d' % (w['N'], w['Pa'], w['Ka']), seen_adm)
    # the functional wrappers music() / ev() are eigen() with the method fixed: every other argument arrives unchanged
    eg = prog.func('eigenfre', 'eigen')
    n_w = 0
    for wname in ('music', 'ev'):
        w_ = prog.func('eigenfre', wname)
        for given in ('NSIG', 'threshold'):
            itp = C.new_interp(prog)
            itp.watch[eg.qname] = []
            xx = C.data(True, phase=False)
            pp = C.symint('P', 2, 'order')
            nf = C.nfft('even')
            kw = {'NFFT': nf, 'criteria': Const('mdl'), 'verbose': Const(False)}
            if given == 'NSIG':
                kw['NSIG'] = C.symint('K', 1, 'nsig')
            else:
                kw['threshold'] = C.deg0(label='threshold')
            try:
                C.run_function(prog, 'eigenfre', wname, [xx, pp], kw, itp=itp)
            except AnalysisError:
                pass
            n_w += 1
            ctx = '%s given' % given
            calls = itp.watch[eg.qname]
            if len(calls) != 1:
                rep.undecided('forwarding', w_.qname, ctx, 'expected one eigen call, saw %d' % len(calls), loc(w_.mod, w_.node))
                continue
            pr = calls[0]['params']
            bad_ = []
            def same_(a_, b_):
                if isinstance(a_, Num) and isinstance(b_, Num):
                    return a_.uid == b_.uid
                if isinstance(a_, IntV) and isinstance(b_, IntV):
                    return a_.a is not None and a_.a == b_.a
                if isinstance(a_, Const) and isinstance(b_, Const):
                    return a_.v == b_.v
                return False
            want = {'X': xx, 'P': pp, 'NFFT': nf, 'criteria': kw['criteria'], 'verbose': kw['verbose'],
                    'NSIG': kw.get('NSIG', Const(None)), 'threshold': kw.get('threshold', Const(None)), 'method': Const(wname)}
            for k_, v_ in want.items():
                if not same_(pr.get(k_), v_):
                    bad_.append(k_)
            if bad_:
                rep.violation('forwarding', w_.qname, ctx, '%s() does not hand its %s to eigen() unchanged: the value the caller gave is '
                              'ignored (or replaced by a default), so validation and subspace selection run on other settings'
                              % (wname, bad_), loc(w_.mod, w_.node))
            else:
                rep.proved('forwarding', w_.qname, ctx, 'X, P, NSIG, threshold, NFFT, criteria, verbose forwarded; method=%r' % wname,
                           loc(w_.mod, w_.node))
    rep.floor('wrapper contexts', n_w, 4)
    rep.floor('validation cases', n_v, 10)
    rep.floor('selection cases', n_s, 5)
