"""C15 — MA and ARMA estimators return valid models (decidable clauses: counts, exposure, units, domain guard)."""
from fractions import Fraction as F

from ..frontend import AnalysisError, loc
from ..values import *      # noqa
from .. import contexts as C
from ..d1rules import psd_classes, ctor_args, check_sink, blocked, PSD_FIELD

PROP = 'C15'
LEVEL = 'other'
MODEL = ('parma', 'pma', 'pburg', 'pyule', 'pcovar', 'pmodcovar')


def length_of(v):
    n = tonum(v) if not isinstance(v, (SeqV, TopV, Opaque)) else None
    if n is None or n.shape is None or len(n.shape) != 1:
        return None
    return n.shape[0]


def run(prog, rep, tier='quick'):
    rep.explanation = (
        'Decides the structural clauses of C15 for all data: (counts) arma_estimate returns exactly P AR and Q MA '
        'coefficients on both sides of its P<=4 implementation switch and ma returns Q; (exposure) in every AR/MA/ARMA '
        'class the coefficient arrays and the variance handed to arma2psd are the very objects stored in .ar/.ma/.rho, '
        'and T is the sampling attribute (constant rho/sampling, with C08); (guard) ma raises unless 0 < Q < M. '
        'NOT decided: invertibility, positivity of the variance/PSD, the least-squares characterisation (numerical).')
    rep.rule('solver-input', 'the sequence handed to arcovar / arcovar_marple has exactly `lag` values and the order is P')
    rep.rule('counts', 'symbolic length of the returned coefficient vectors equals the requested order')
    rep.rule('solver-output', 'the AR coefficients returned by arma_estimate derive from the first result of arcovar / arcovar_marple (value identity through slicing)')
    rep.rule('exposure', 'identity of the abstract values: arma2psd(A,B,rho,T) receives obj.ar / obj.ma / obj.rho / obj.sampling')
    rep.rule('admission', 'no guard on the sizes raises on the stated domains of ma (0<Q<M<N) and arma_estimate (Q<=lag, lag+2P-Q<=N, 2Q<N-P)')
    rep.rule('guard', 'ma(X,Q,M) has a normal path iff 0 < Q < M (constant contexts on both sides of each bound)')
    f = prog.func('arma', 'arma_estimate')
    n_counts = 0
    for cplx in (False, True):
        for P, Q in ((1, 1), (3, 2), (4, 4), (5, 2), (7, 3)):
            itp = C.new_interp(prog)
            itp.watch['covar.arcovar'] = []
            itp.watch['covar.arcovar_marple'] = []
            lagv = C.symint('lag', 8, 'lag')
            v, itp = C.run_function(prog, 'arma', 'arma_estimate', [C.data(cplx), Const(P), Const(Q), lagv], {}, itp=itp)
            label = 'P=%d,Q=%d,%s' % (P, Q, 'complex' if cplx else 'real')
            where = loc(f.mod, f.node)
            if blocked(rep, 'counts', f.qname, label, itp):
                continue
            # the modified Yule-Walker equations use exactly `lag` correlation values on both solver branches
            calls = itp.watch['covar.arcovar'] + itp.watch['covar.arcovar_marple']
            if len(calls) != 1:
                rep.undecided('solver-input', f.qname, label, 'expected one covariance-solver call, saw %d' % len(calls), where)
            else:
                xin = calls[0]['params'].get('x')
                ln = length_of(xin) if xin is not None else None
                o = calls[0]['params'].get('order')
                oko = isinstance(o, Const) and o.v == P
                if ln is not None and ln == lagv.a and oko:
                    rep.proved('solver-input', f.qname, label, 'solver receives the `lag` correlation values, order P', where)
                else:
                    rep.violation('solver-input', f.qname, label, 'the covariance solver receives %s values (order %s): the AR part is '
                                  'not the least-squares solution over lags Q+1..lag' % (ln, getattr(o, 'v', o)), where)
            # which result of the solver becomes the AR part: the FORWARD predictor (first component / arcovar's solution)
            if len(calls) == 1 and isinstance(v, Tup) and len(v.items) == 3 and isinstance(calls[0]['ret'], Tup):
                ret = calls[0]['ret']
                arv = v.items[0]
                src = getattr(arv, 'base_uid', None) if getattr(arv, 'base_uid', None) is not None else getattr(arv, 'uid', None)
                uids = [getattr(x, 'uid', None) for x in ret.items]
                if src in uids or getattr(arv, 'uid', None) in uids:
                    pos = uids.index(src) if src in uids else uids.index(arv.uid)
                    if pos == 0:
                        rep.proved('solver-output', f.qname, label, 'the AR part is the first result (forward predictor) of the solver', where)
                    else:
                        rep.violation('solver-output', f.qname, label, 'the AR part is taken from result %d of the covariance solver, not '
                                      'from its first result: for arcovar_marple that is the backward predictor (conjugate-reversed '
                                      'dynamics), not the least-squares AR solution' % pos, where)
                else:
                    rep.undecided('solver-output', f.qname, label, 'provenance of the AR part not derivable', where)
            if not isinstance(v, Tup) or len(v.items) != 3:
                rep.undecided('counts', f.qname, label, 'no 3-tuple returned: %r' % (v,), where)
                continue
            for name, val, want in (('AR', v.items[0], P), ('MA', v.items[1], Q)):
                n_counts += 1
                ln = length_of(val)
                if ln is None:
                    rep.undecided('counts', f.qname, '%s count [%s]' % (name, label), 'length not derivable: %r' % (val,), where)
                elif ln == Aff(want):
                    rep.proved('counts', f.qname, '%s count [%s]' % (name, label), 'length %s' % ln, where)
                else:
                    rep.violation('counts', f.qname, '%s count [%s]' % (name, label),
                                  'returns %s %s coefficients, %d were requested' % (ln, name, want), where)
    g = prog.func('arma', 'ma')
    for cplx in (False, True):
        v, itp = C.run_function(prog, 'arma', 'ma', [C.data(cplx), Const(3), Const(9)], {})
        n_counts += 1
        ln = length_of(v.items[0]) if isinstance(v, Tup) else None
        label = 'Q=3,M=9,%s' % ('complex' if cplx else 'real')
        if ln == Aff(3):
            rep.proved('counts', g.qname, 'MA count [%s]' % label, 'length 3', loc(g.mod, g.node))
        elif ln is None:
            rep.undecided('counts', g.qname, 'MA count [%s]' % label, 'length not derivable', loc(g.mod, g.node))
        else:
            rep.violation('counts', g.qname, 'MA count [%s]' % label, 'returns %s coefficients, 3 requested' % ln, loc(g.mod, g.node))
    # guard
    n_guard = 0
    for Q, M, want in ((0, 5, False), (-1, 5, False), (5, 5, False), (6, 5, False), (1, 2, True), (4, 5, True)):
        v, itp = C.run_function(prog, 'arma', 'ma', [C.data(True), Const(Q), Const(M)], {})
        n_guard += 1
        label = 'Q=%d,M=%d' % (Q, M)
        got = v is not None
        if got == want:
            rep.proved('guard', g.qname, label, 'returns' if got else 'raises on every path', loc(g.mod, g.node))
        else:
            rep.violation('guard', g.qname, label, ('accepts an order outside 0<Q<M' if got else
                                                   'rejects an admissible order'), loc(g.mod, g.node))
    # exposure
    n_exp = 0
    a2p = prog.func('arma', 'arma2psd')
    for cls in psd_classes(prog):
        if cls.name not in MODEL:
            continue
        for cplx in (False, True):
            itp = C.new_interp(prog)
            itp.watch[a2p.qname] = []
            kw = ctor_args(cls, cplx, 'even', scale=False, small_orders=True)
            ref, obj, itp, ok = C.run_class(prog, cls.mod, cls.name, [], kw, itp=itp)
            label = 'complex' if cplx else 'real'
            where = loc(cls.mod, cls.node)
            if blocked(rep, 'exposure', cls.qname, label, itp):
                continue
            calls = itp.watch[a2p.qname]
            if not ok or len(calls) != 1:
                rep.undecided('exposure', cls.qname, label, 'expected exactly one arma2psd call, saw %d' % len(calls), where)
                continue
            p = calls[0]['params']
            for pname, field in (('A', '_ParametricSpectrum__ar'), ('B', '_ParametricSpectrum__ma'), ('rho', '_ParametricSpectrum__rho')):
                passed, stored = p.get(pname), obj.f.get(field)
                none_p = isinstance(passed, Const) and passed.v is None
                none_s = stored is None or (isinstance(stored, Const) and stored.v is None)
                n_exp += 1
                c = '%s <-> .%s [%s]' % (pname, field.split('__')[-1], label)
                if pname == 'rho' and none_s:
                    if isinstance(passed, Const) and passed.v == 1.0:
                        rep.violation('exposure', cls.qname, c, 'the PSD is built with the default rho=1 and no variance is exposed', where)
                    else:
                        # rho not exposed by this class (pyule): C15 constrains the constant only "whenever rho is exposed"
                        rep.proved('exposure', cls.qname, c, 'rho passed but not exposed by this class', where)
                    continue
                if none_p and none_s:
                    rep.proved('exposure', cls.qname, c, 'both absent', where)
                elif none_p != none_s:
                    rep.violation('exposure', cls.qname, c, 'the object exposes %s but the PSD is built %s it' % (
                        'no ' + field.split('__')[-1] if none_s else 'a ' + field.split('__')[-1],
                        'with' if none_s else 'without'), where)
                elif getattr(passed, 'uid', 1) == getattr(stored, 'uid', 2):
                    rep.proved('exposure', cls.qname, c, 'same abstract value', where)
                else:
                    rep.violation('exposure', cls.qname, c, 'the array passed to arma2psd is not the one the object exposes', where)
            T = p.get('T')
            n_exp += 1
            c = 'T <-> .sampling [%s]' % label
            samp = kw.get('sampling')
            if isinstance(T, Num) and samp is not None and T.uid == samp.uid:
                rep.proved('exposure', cls.qname, c, 'T is the sampling attribute', where)
            else:
                rep.violation('exposure', cls.qname, c, 'arma2psd is not called with T = sampling (%r)' % (T,), where)
    # the stated domains are admitted: ma 0 < Q < M < N ; arma_estimate Q <= lag, lag + 2P - Q <= N, 2Q < N - P
    from ..d1rules import admission_of
    seen_adm = set()
    grid = [{'N': n_, 'Ma': m_, 'Qa': q_} for n_ in (16, 17) for m_ in range(2, n_) for q_ in range(1, m_)]
    admission_of(rep, prog, 'admission', 'arma', 'ma',
                 lambda: ([C.data(True, phase=False), IntV(Aff.sym('Qa'), frozenset(['order'])), IntV(Aff.sym('Ma'), frozenset(['order']))], {}), grid,
                 lambda w: 'N = %d, Q = %d, M = %d' % (w['N'], w['Qa'], w['Ma']), seen_adm)
    grid = [{'N': n_, 'Pa': p_, 'Qa': q_, 'La': l_} for n_ in (16, 21) for p_ in range(1, 5) for q_ in range(1, 5)
            for l_ in range(q_, n_ - 2 * p_ + q_ + 1) if 2 * q_ < n_ - p_]
    admission_of(rep, prog, 'admission', 'arma', 'arma_estimate',
                 lambda: ([C.data(True, phase=False), IntV(Aff.sym('Pa'), frozenset(['order'])), IntV(Aff.sym('Qa'), frozenset(['order'])),
                           IntV(Aff.sym('La'), frozenset(['lag']))], {}), grid,
                 lambda w: 'N = %d, P = %d, Q = %d, lag = %d' % (w['N'], w['Pa'], w['Qa'], w['La']), seen_adm)
    rep.floor('count obligations', n_counts, 20)
    rep.floor('guard contexts', n_guard, 6)
    rep.floor('exposure obligations', n_exp, 6 * 2 * 3)
