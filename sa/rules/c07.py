"""C07 — the PSD attribute is never stale (inductive typestate argument, D6).

Invariant I:  psd is None  or  modified  or  psd == convert(F_C(attributes), sides)
         and  _range.N == NFFT  and  _range.sampling == sampling  and  Range.df == sampling/N.
Every method of the hierarchy preserves I if O1..O4 below hold on *every path*; hence I holds
after setter/call/read histories of any length (induction on the history)."""
import ast

from ..frontend import AnalysisError, normalise, loc, mangle
from ..typestate import Typestate, ExplosionError
from .. import contexts as CX
from ..values import Num

PROP = "C07"
LEVEL = "proof"
# attributes C07 lists ("data, NFFT, sampling, window, lag, detrend, scale_by_freq, sides, model orders")
ATTRS = ['data', 'NFFT', 'sampling', 'window', 'lag', 'detrend', 'scale_by_freq', 'ar_order', 'ma_order']
PSD_FIELD = '_Spectrum__psd'
ARRAY_ATTRS = ('data', 'data_y')       # array valued: `==` is element-wise, no same-value shortcut is expected


def psd_classes(prog):
    base = prog.cls('psd', 'Spectrum')
    out = []
    for c in prog.subclasses_of(base):
        m = c.find_method('__call__')
        if m is not None:
            out.append(c)
    out.sort(key=lambda c: c.qname)
    return base, out


def _is_const(v, value):
    return v is not None and v.has_const and v.const is value


def _path_sig(p, fields):
    w = []
    for e in p.events:
        if e[0] == 'wr' and e[1] in fields and e[1] not in w:
            w.append(e[1])
    return w


def _psd_known_none(p):
    """path condition tells that the cache is empty"""
    for t, truth, dcls in p.conds:
        if isinstance(t, ast.Compare) and len(t.ops) == 1 and isinstance(t.left, ast.Attribute) \
                and isinstance(t.left.value, ast.Name) and mangle(dcls.name, t.left.attr) == PSD_FIELD \
                and isinstance(t.comparators[0], ast.Constant) and t.comparators[0].value is None:
            if isinstance(t.ops[0], ast.IsNot) and truth is False:
                return True
            if isinstance(t.ops[0], ast.Is) and truth is True:
                return True
    return False


def check_O2(rep, fname, p, where, seen):
    """every `modified = False` on the path is dominated by a refresh of the cache"""
    n = 0
    for i, e in enumerate(p.events):
        if e[0] == 'wr' and e[1] == 'modified' and _is_const(e[2], False):
            n += 1
            ok, why = False, ''
            refreshed = False
            for ev in p.events[:i]:
                if ev[0] == 'compute' or (ev[0] == 'get' and ev[1] == 'psd'):
                    refreshed = True
                    ok, why = True, 'estimator re-run / psd getter read before the flag is cleared'
                if ev[0] == 'wr' and ev[1] == PSD_FIELD:
                    v = ev[2]
                    if _is_const(v, None):
                        continue
                    if PSD_FIELD in v.fields and not refreshed:
                        ok, why = False, 'cache re-assigned from the raw (possibly stale) cache without a refresh'
                    else:
                        ok, why = True, 'cache assigned from a value supplied/computed on this path'
            if not ok and _psd_known_none(p):
                ok, why = True, 'cache known to be empty on this path'
            sig = 'modified=False after writes %s' % (_path_sig(p, set(x[1] for x in p.events if x[0] == 'wr')),)
            key = ('O2', fname, sig + ('' if ok else ' [no refresh]'))
            if key in seen:
                continue
            seen.add(key)
            if ok:
                rep.proved('O2-clear-dominated-by-refresh', fname, sig, why, where, p.describe())
            else:
                rep.violation('O2-clear-dominated-by-refresh', fname, sig,
                              'modified is cleared on a path with no refresh of the cached PSD (%s): a stale PSD '
                              'would be served as fresh' % (why or 'no cache write, no re-run'), where, p.describe())
    return n


def _eval_atoms(test, atoms):
    """evaluate a boolean test under an assignment of recognised atoms; None = unknown"""
    if isinstance(test, ast.BoolOp):
        vals = [_eval_atoms(v, atoms) for v in test.values]
        if isinstance(test.op, ast.Or):
            if any(v is True for v in vals):
                return True
            if all(v is False for v in vals):
                return False
            return None
        if any(v is False for v in vals):
            return False
        if all(v is True for v in vals):
            return True
        return None
    if isinstance(test, ast.UnaryOp) and isinstance(test.op, ast.Not):
        v = _eval_atoms(test.operand, atoms)
        return None if v is None else (not v)
    a = _atom(test)
    if a is not None:
        name, positive = a
        if name in atoms:
            return atoms[name] if positive else (not atoms[name])
    return None


def _atom(test):
    """recognise  self.__psd is None | self.__psd is not None | self.modified [is/==] True|False | self.modified"""
    if isinstance(test, ast.Attribute) and isinstance(test.value, ast.Name):
        if test.attr == 'modified':
            return ('modified', True)
        return None
    if isinstance(test, ast.Compare) and len(test.ops) == 1 and isinstance(test.left, ast.Attribute) \
            and isinstance(test.left.value, ast.Name) and isinstance(test.comparators[0], ast.Constant):
        attr, op, c = test.left.attr, test.ops[0], test.comparators[0].value
        if attr.endswith('__psd') and c is None:
            if isinstance(op, (ast.Is, ast.Eq)):
                return ('psdnone', True)
            if isinstance(op, (ast.IsNot, ast.NotEq)):
                return ('psdnone', False)
        if attr == 'modified' and isinstance(c, bool):
            if isinstance(op, (ast.Is, ast.Eq)):
                return ('modified', c)
            if isinstance(op, (ast.IsNot, ast.NotEq)):
                return ('modified', not c)
    return None


def _is_super_call(st):
    return (isinstance(st, ast.Expr) and isinstance(st.value, ast.Call) and isinstance(st.value.func, ast.Attribute)
            and isinstance(st.value.func.value, ast.Call) and isinstance(st.value.func.value.func, ast.Name)
            and st.value.func.value.func.id == 'super')


def run(prog, rep, tier='quick'):
    rep.explanation = (
        'Decides the protocol clauses of C07 for every history: O1 each listed attribute that the class\' __call__ '
        'reads has a setter whose every value-changing path ends with modified=True (a plain attribute fails); '
        'O2 every modified=False is dominated by a refresh of the cache on its path (through inlined callees); '
        'O3 the psd getter re-runs the estimator whenever psd is None or modified, and every __call__ assigns psd on '
        'every normal path; O4 every write of NFFT/sampling is paired with the Range update on the same path and '
        'Range.df is recomputed as sampling/N. Does NOT decide that F_C is numerically the right estimate.')
    rep.rule('O1-setter-marks-modified', 'for a in C07 list read by C.__call__: every non-raising path of a\'s setter '
             'that writes the backing field ends with modified=True; no setter => violation')
    rep.rule('O2-clear-dominated-by-refresh', 'every store modified=False is preceded on its path by self(), a read '
             'through the psd getter, or a cache assignment not derived from the raw cache; or the cache is known empty')
    rep.rule('O3-getter-recomputes', 'paths of the psd getter that skip self() are only feasible when psd is not None '
             'and modified is not True')
    rep.rule('O3-call-assigns-psd', 'every non-raising path of C.__call__ assigns the psd cache')
    rep.rule('O5-derivation-from-fresh-cache', 'a store to the psd cache whose value is computed from the raw cache field is preceded on its path by a refresh (psd getter or self())')
    rep.rule('O8-sides-follows-layout', 'outside __init__ every path that writes the sides label also stores a cache value, sets modified=True, or runs with the cache known empty')
    rep.rule('O9-data-owned', 'after construction the stored data array shares no storage with the constructor argument (D8 memory identity on the abstract run)')
    rep.rule('O10-cache-rebound', 'every store to the cache field binds a new array; no element / slice / augmented store through the private field')
    rep.rule('O7-same-value-noop', 'for every scalar attribute the setter writes the backing field / sets modified only on a path guarded by a comparison of the stored value with the value being stored (old != new)')
    rep.rule('O6-N-follows-data', 'every store to the data length N is on a path that stores new data and takes its size')
    rep.rule('O4-range-paired', 'every path writing __NFFT (resp. __sampling) also updates _range.N (resp. '
             '_range.sampling / constructs the Range with it); Range recomputes df = sampling/N after each change')
    rep.trusted += ['python attribute/property semantics incl. private-name mangling',
                    'numpy.array(x) copies its argument']
    rep.assumptions += ['methods of the hierarchy contain no loops whose trip count changes which fields are written',
                        'attributes are only assigned through the public names (no external writes to mangled fields)']
    ts = Typestate(prog)
    base, classes = psd_classes(prog)
    rep.analysed['classes'] = [c.qname for c in classes]
    seen = set()
    n_setters = set()
    n_calls = 0
    n_clear_sites = 0
    total_paths = 0

    # ---------------- per class
    for C in classes:
        callm = C.find_method('__call__')
        cpaths = ts.method_paths(C, callm)
        total_paths += len(cpaths)
        n_calls += 1
        where = loc(callm.mod, callm.node)
        # O3b
        bad = [p for p in cpaths if p.end != 'raise' and not (p.has('set', 'psd') or p.has('wr', PSD_FIELD))]
        if bad:
            rep.violation('O3-call-assigns-psd', callm.qname, 'path without psd assignment',
                          'a normal path through __call__ leaves the cache unassigned: the getter would return a '
                          'stale/None PSD after clearing the flag', where, bad[0].describe())
        else:
            rep.proved('O3-call-assigns-psd', callm.qname, 'all %d normal paths assign psd' %
                       len([p for p in cpaths if p.end != 'raise']), '', where)
        for p in cpaths:
            if p.end != 'raise':
                n_clear_sites += check_O2(rep, callm.qname, p, where, seen)
        # read set
        gets, rds = set(), set()
        for p in cpaths:
            for e in p.events:
                if e[0] == 'get':
                    gets.add(e[1])
                elif e[0] == 'rd':
                    rds.add(e[1])
        rep.analysed.setdefault('call_read_sets', {})[C.qname] = sorted((gets | rds) & set(ATTRS + ['sides']))
        for a in ATTRS:
            if a not in gets and a not in rds:
                continue
            pr = C.find_prop(a)
            if pr is None:
                key = ('O1', C.qname, a)
                if key not in seen:
                    seen.add(key)
                    rep.violation('O1-setter-marks-modified', C.qname, 'attribute %s is a plain field' % a,
                                  '%s.__call__ reads self.%s but the attribute has no setter: assigning it after '
                                  'construction cannot mark the PSD as modified' % (C.name, a), where)
                continue
            pcls, (fget, fset) = pr
            if fset is None:
                continue   # read-only (derived) attribute
            setter = pcls.find_method(fset)
            getter = pcls.find_method(fget)
            n_setters.add(setter.qname)
            # backing field from the getter
            gp = ts.method_paths(C, getter)
            backing = set()
            for p in gp:
                if p.ret is not None:
                    backing |= set(f for f in p.ret.fields if '.' not in f)
            if len(backing) != 1:
                raise AnalysisError('cannot determine the backing field of %s.%s (%s)' % (C.qname, a, sorted(backing)))
            F = list(backing)[0]
            spaths = ts.method_paths(C, setter)
            total_paths += len(spaths)
            swhere = loc(setter.mod, setter.node)
            # does the getter hand out the stored object itself (`return self.<F>`)?  then the caller can edit it in place
            exposed = any(isinstance(r_, ast.Return) and isinstance(r_.value, ast.Attribute) and isinstance(r_.value.value, ast.Name)
                          and r_.value.value.id == 'self' for r_ in ast.walk(getter.node))
            if a in ARRAY_ATTRS and exposed and ('O1a-ok', setter.qname) not in seen and \
                    all(any(e[0] == 'wr' and e[1] == F for e in p_.events) for p_ in spaths if p_.end != 'raise'):
                seen.add(('O1a-ok', setter.qname))
                rep.proved('O1-setter-marks-modified', setter.qname, 'every non-raising path writes %s' % F,
                           'no same-value shortcut in the setter of an array whose getter hands out the stored object', swhere)
            if a in ARRAY_ATTRS and ('O9', C.qname) not in seen:
                # O9: the object keeps its OWN copy of the samples (D8 memory identity): after construction the stored array shares no
                # storage with the caller's array -- otherwise the caller's later in-place edits change the data behind the cache
                # without passing through the setter.  Decided on the abstract run of the constructor, whatever way the copy is made.
                seen.add(('O9', C.qname))
                from ..d1rules import ctor_args as _ctor_args
                try:
                    kw9 = _ctor_args(C, False, 'even', scale=False)
                except AnalysisError:
                    kw9 = None
                if kw9 is not None and 'data' in kw9:
                    kw9['data'].view_of = frozenset(["the caller's data array"])
                    _r9, obj9, itp9, _ok9 = CX.run_class(prog, C.mod, C.name, [], kw9, call=False)
                    d9 = obj9.f.get(F) if obj9 is not None else None
                    if not isinstance(d9, Num):
                        rep.undecided('O9-data-owned', C.qname, 'stored data', 'the stored data field is not an array value: %r' % (d9,), swhere)
                    elif d9.view_of:
                        rep.violation('O9-data-owned', C.qname, 'stored data', 'the object stores %s itself (or a zero-copy view of it): a later '
                                      'in-place edit of that array by the caller changes the samples behind the cached PSD without going '
                                      'through the setter, so psd keeps the estimate of the old samples' % ' / '.join(sorted(d9.view_of)), swhere)
                    else:
                        rep.proved('O9-data-owned', C.qname, 'stored data', 'shares no storage with the constructor argument', swhere)
            for p in spaths:
                if p.end == 'raise':
                    continue
                n_clear_sites += check_O2(rep, setter.qname, p, swhere, seen)
                w = [e for e in p.events if e[0] == 'wr' and e[1] == F]
                if not w and a in ARRAY_ATTRS and exposed:
                    # O1 for array-valued attributes: there is no sound "same value" shortcut -- `obj.data *= g` edits the stored
                    # array in place and then hands that very array to the setter, where it compares equal to itself
                    key = ('O1a', setter.qname)
                    if key not in seen:
                        seen.add(key)
                        rep.violation('O1-setter-marks-modified', setter.qname, 'path without a write of %s' % F,
                                      'a non-raising path of the %s setter returns without storing the value and marking the PSD as modified; '
                                      'the getter returns the stored array itself, so after an in-place edit (`obj.%s *= g`) the array the '
                                      'setter receives IS the stored one and any equality shortcut skips the refresh' % (a, a),
                                      swhere, p.describe())
                if not w:
                    continue
                fin = p.final_write('modified')
                state = 'True' if (fin is not None and _is_const(fin[2], True)) else (
                    'unset' if fin is None else 'not-True')
                sig = 'writes %s; modified=%s' % (F, state)
                key = ('O1', setter.qname, sig)
                if key in seen:
                    continue
                seen.add(key)
                # O7: assigning the value the attribute already has must not mark the estimate stale (a recomputation resets
                # `sides`, so the stored result would change): the path that writes is taken only when old != new
                if a not in ARRAY_ATTRS and state == 'True':
                    st_w = w[-1][3] if len(w[-1]) > 3 else None
                    rhs = st_w.value if isinstance(st_w, ast.Assign) else None
                    newname = rhs.id if isinstance(rhs, ast.Name) else None
                    fattr = F.split('__')[-1] if '__' in F else F
                    guarded = False
                    for tst, truth, _c in p.conds:
                        while isinstance(tst, ast.UnaryOp) and isinstance(tst.op, ast.Not):
                            tst, truth = tst.operand, not truth          # `if not (a == b):` is `if a != b:`
                        for cmp_ in [x for x in ast.walk(tst) if isinstance(x, ast.Compare) and len(x.ops) == 1]:
                            sides_ = [cmp_.left, cmp_.comparators[0]]
                            has_f = any(isinstance(s_, ast.Attribute) and s_.attr.lstrip('_') == fattr.lstrip('_') for s_ in sides_)
                            has_n = newname is not None and any(isinstance(s_, ast.Name) and s_.id == newname for s_ in sides_)
                            if has_f and has_n and cmp_ is tst:
                                if (isinstance(cmp_.ops[0], ast.NotEq) and truth) or (isinstance(cmp_.ops[0], ast.Eq) and not truth):
                                    guarded = True
                    key7 = ('O7', setter.qname, guarded)
                    if key7 not in seen:
                        seen.add(key7)
                        if guarded:
                            rep.proved('O7-same-value-noop', setter.qname, 'writes %s' % F, 'only on the path where the new value differs '
                                       'from the stored one', swhere, p.describe())
                        else:
                            rep.violation('O7-same-value-noop', setter.qname, 'writes %s' % F, 'the setter stores the value and sets '
                                          'modified=True even when it equals the stored one (no old != new test of the stored value on '
                                          'this path): re-assigning an unchanged %s forces a recomputation, which resets `sides` -- the '
                                          'psd the user had converted is replaced' % a, swhere, p.describe())
                if state == 'True':
                    rep.proved('O1-setter-marks-modified', setter.qname, sig, 'attribute %s' % a, swhere, p.describe())
                else:
                    rep.violation('O1-setter-marks-modified', setter.qname, sig,
                                  'a path of the %s setter stores a new value in %s without setting modified=True: '
                                  'the next read of psd returns the estimate of the old value' % (a, F),
                                  swhere, p.describe())

        # sides setter, psd setter/getter (class independent unless overridden; de-duplicated by key)
        for a in ('sides', 'psd'):
            pr = C.find_prop(a)
            if pr is None:
                raise AnalysisError('property %s vanished from %s' % (a, C.qname))
            pcls, (fget, fset) = pr
            setter = pcls.find_method(fset)
            n_setters.add(setter.qname)
            for p in ts.method_paths(C, setter):
                if p.end != 'raise':
                    n_clear_sites += check_O2(rep, setter.qname, p, loc(setter.mod, setter.node), seen)
        # O3a: getter
        pcls, (fget, fset) = C.find_prop('psd')
        getter = pcls.find_method(fget)
        gpaths = ts.method_paths(C, getter)
        for p in gpaths:
            if p.end == 'raise':
                continue
            n_clear_sites += check_O2(rep, getter.qname, p, loc(getter.mod, getter.node), seen)
            key = ('O3a', getter.qname, tuple(p.describe()))
            if key in seen:
                continue
            seen.add(key)
            if p.has('compute'):
                # the recompute must come before the cache read that is returned
                idx_c = [i for i, e in enumerate(p.events) if e[0] == 'compute'][0]
                idx_r = [i for i, e in enumerate(p.events) if e[0] == 'rd' and e[1] == PSD_FIELD]
                ret_from_cache = p.ret is not None and PSD_FIELD in p.ret.fields
                if ret_from_cache and idx_r and idx_r[-1] > idx_c:
                    rep.proved('O3-getter-recomputes', getter.qname, 'recompute path returns the refreshed cache', '',
                               loc(getter.mod, getter.node), p.describe())
                else:
                    rep.violation('O3-getter-recomputes', getter.qname, 'recompute path returns a pre-refresh value',
                                  'the getter re-runs the estimator but does not return the refreshed cache',
                                  loc(getter.mod, getter.node), p.describe())
                continue
            feasible_bad = []
            unknown = False
            for psdnone in (True, False):
                for modified in (True, False):
                    if not psdnone and not modified:
                        continue
                    sat = True
                    for t, truth, _d in p.conds:
                        v = _eval_atoms(t, {'psdnone': psdnone, 'modified': modified})
                        if v is None:
                            unknown = True
                        elif v != truth:
                            sat = False
                            break
                    if sat:
                        feasible_bad.append((psdnone, modified))
            if unknown:
                rep.undecided('O3-getter-recomputes', getter.qname, 'skip path %s' % p.describe(),
                              'guard of the psd getter not recognised')
            elif feasible_bad:
                rep.violation('O3-getter-recomputes', getter.qname, 'skip path feasible with (psd is None, modified)=%s'
                              % (feasible_bad,), 'the getter can return the cache without re-running the estimator '
                              'although the cache is empty or marked modified', loc(getter.mod, getter.node), p.describe())
            else:
                rep.proved('O3-getter-recomputes', getter.qname, 'skip path only when psd is not None and not modified',
                           '', loc(getter.mod, getter.node), p.describe())

    # ---------------- O4 pairing, every method of every class of the hierarchy (analysed on its own class)
    n_pair = 0
    hier = [base] + prog.subclasses_of(base)
    PAIRS = (('_Spectrum__NFFT', 'N', 'NFFT'), ('_Spectrum__sampling', 'sampling', 'sampling'))

    def pairing_events(p, field, last):
        for e in p.events:
            if e[0] == 'wrsub' and e[1] == '_range' and e[2] == sub_of[field]:
                v = e[3]
                if field in v.fields or (v.params and v.params & last[2].params) or \
                        (v.node is not None and last[2].node is not None and normalise(v.node) == normalise(last[2].node)):
                    return True
            if e[0] == 'wr' and e[1] == '_range' and any('Range' in c for c in e[2].calls):
                v = e[2]
                if (v.params & last[2].params) or field in v.fields:
                    return True
        return False

    sub_of = {f: s for f, s, _l in PAIRS}

    def record(f, field, label, paired, p, ev=None):
        sig = 'writes %s' % field
        fq = ev[4] if ev is not None and len(ev) > 4 else f.qname
        if fq != f.qname:
            return          # the store belongs to an inlined callee, which is analysed as a method of its own
        key = ('O4', f.qname, sig, paired)
        if key in seen:
            return
        seen.add(key)
        if paired:
            rep.proved('O4-range-paired', f.qname, sig, '_range.%s updated on the same path' % sub_of[field],
                       loc(f.mod, f.node), p.describe())
        else:
            rep.violation('O4-range-paired', f.qname, sig,
                          '%s is stored without updating _range.%s on the same path: df and frequencies() '
                          'keep the old %s' % (label, sub_of[field], label), loc(f.mod, f.node), p.describe())

    for D in hier:
        for mname, mnode in D.methods.items():
            f = D.find_method(mname)
            mw = ts.may_write(D, f)
            if not (mw & set(sub_of)):
                continue
            # only methods that textually store one of the two fields carry an O4 obligation of their own:
            # stores reached through a setter/constructor call are attributed to the method containing them
            direct = {mangle(D.name, t.attr) for t in ast.walk(mnode)
                      if isinstance(t, ast.Attribute) and isinstance(t.ctx, ast.Store)
                      and isinstance(t.value, ast.Name) and t.value.id == 'self'}
            if not (direct & set(sub_of)):
                continue
            try:
                paths = ts.method_paths(D, f)
                stmtwise = None
            except ExplosionError:
                paths = None
                stmtwise = ts.statement_paths(D, f)
            if paths is not None:
                for p in paths:
                    if p.end == 'raise':
                        continue
                    for field, sub, label in PAIRS:
                        ws = [e for e in p.events if e[0] == 'wr' and e[1] == field and not _is_const(e[2], None)]
                        if not ws:
                            continue
                        n_pair += 1
                        record(f, field, label, pairing_events(p, field, ws[-1]), p, ws[-1])
            else:
                # constructor: statement-wise.  A write in statement i is paired if its own path pairs it, or
                # if some top-level statement pairs the same value on all of its normal paths.
                for field, sub, label in PAIRS:
                    for st, ps in stmtwise:
                        if ps is None:
                            if _is_super_call(st):
                                continue     # the inherited constructor is analysed as a method of its own class
                            raise AnalysisError('statement too complex in %s: %s' % (f.qname, normalise(st)))
                        for p in ps:
                            if p.end == 'raise':
                                continue
                            ws = [e for e in p.events if e[0] == 'wr' and e[1] == field and not _is_const(e[2], None)]
                            if not ws:
                                continue
                            n_pair += 1
                            paired = pairing_events(p, field, ws[-1])
                            if not paired:
                                for st2, ps2 in stmtwise:
                                    if ps2 is None or st2 is st:
                                        continue
                                    normal = [q for q in ps2 if q.end != 'raise']
                                    if normal and all(pairing_events(q, field, ws[-1]) for q in normal):
                                        paired = True
                                        break
                            record(f, field, label, paired, p, ws[-1])
    # O4b: a method other than the constructor that installs a *new* Range must build it from the current NFFT and
    # sampling; O6: the data length N changes only together with the data
    n_o6 = 0
    for D in hier:
        for mname, mnode in D.methods.items():
            f = D.find_method(mname)
            direct = {mangle(D.name, t.attr) for t in ast.walk(mnode)
                      if isinstance(t, ast.Attribute) and isinstance(t.ctx, ast.Store)
                      and isinstance(t.value, ast.Name) and t.value.id == 'self'}
            sub_stores = any(isinstance(t, ast.Attribute) and isinstance(t.ctx, ast.Store) and isinstance(t.value, ast.Attribute)
                             and t.value.attr == '_range' for t in ast.walk(mnode))
            if not (direct & {'_range', '_Spectrum__N'}) and not sub_stores:
                continue
            try:
                paths = ts.method_paths(D, f)
            except ExplosionError:
                paths = []
                for _st, ps in ts.statement_paths(D, f):
                    paths += ps or []
            for p in paths:
                if p.end == 'raise':
                    continue
                for e in p.events:
                    if e[0] == 'wrsub' and e[1] == '_range' and e[2] in ('N', 'sampling') and mname != '__init__':
                        # O4c: what is stored into the Range is the current NFFT (resp. sampling), nothing else
                        v = e[3]
                        srcs = {'N': ('_Spectrum__NFFT', 'NFFT'), 'sampling': ('_Spectrum__sampling', 'sampling')}[e[2]]
                        okv = srcs[0] in v.fields or srcs[1] in v.getters
                        if not okv and v.params:
                            # the new value itself, stored into the attribute's own field on the same path
                            ws_ = p.writes(srcs[0])
                            okv = bool(ws_) and bool(ws_[-1][2].params & v.params)
                        key = ('O4c', f.qname, e[2], okv)
                        if key not in seen:
                            seen.add(key)
                            if okv:
                                rep.proved('O4-range-paired', f.qname, 'stores _range.%s' % e[2], 'the value is the current %s' % srcs[1], loc(f.mod, f.node))
                            else:
                                rep.violation('O4-range-paired', f.qname, 'stores _range.%s' % e[2], 'the frequency Range receives a value that '
                                              'is not the current %s (%s): df and frequencies() no longer describe the stored PSD'
                                              % (srcs[1], ', '.join(sorted(v.fields | v.getters)) or 'unrelated value'), loc(f.mod, f.node), p.describe())
                    if e[0] == 'wr' and e[1] == '_range' and len(e) > 4 and e[4] == f.qname and mname != '__init__':
                        v = e[2]
                        if not any('Range' in c for c in v.calls):
                            continue
                        a0 = v.argv[0] if v.argv else None
                        okN = a0 is not None and ('_Spectrum__NFFT' in a0.fields or 'NFFT' in a0.getters)
                        key = ('O4b', f.qname, okN)
                        if key in seen:
                            continue
                        seen.add(key)
                        if okN:
                            rep.proved('O4-range-paired', f.qname, 'installs a new Range', 'built from the current NFFT', loc(f.mod, f.node))
                        else:
                            rep.violation('O4-range-paired', f.qname, 'installs a new Range',
                                          'the frequency Range is rebuilt with a length that is not the current NFFT: df and '
                                          'frequencies() no longer match the PSD', loc(f.mod, f.node), p.describe())
                    if e[0] == 'wr' and e[1] == '_Spectrum__N' and not _is_const(e[2], None) and len(e) > 4 and e[4] == f.qname:
                        n_o6 += 1
                        v = e[2]
                        ok = ('data' in v.getters or '_Spectrum__data' in v.fields) and p.has('wr', '_Spectrum__data')
                        if not ok:
                            # the size of a local that is also what is stored as the data on this path
                            dws = p.writes('_Spectrum__data')
                            if dws and dws[-1][2].params and dws[-1][2].params <= v.params:
                                ok = True
                        key = ('O6', f.qname, ok)
                        if key in seen:
                            continue
                        seen.add(key)
                        if ok:
                            rep.proved('O6-N-follows-data', f.qname, 'writes _Spectrum__N', 'N is the size of the data stored on the same path', loc(f.mod, f.node))
                        else:
                            rep.violation('O6-N-follows-data', f.qname, 'writes _Spectrum__N',
                                          'the data length N is overwritten without storing new data (N must equal data.size: '
                                          'estimators normalise by it)', loc(f.mod, f.node), p.describe())
    rep.floor('writes of the data length N', n_o6, 1)
    # O5: a method that re-derives the cache from itself (the sides setter converting the stored PSD) must start from a
    # refreshed cache: a value computed from the *raw* cache field is stale whenever an attribute change is pending
    n_o5 = 0
    for D in hier:
        for mname, mnode in D.methods.items():
            if mname in ('__init__', '__call__'):
                continue
            f = D.find_method(mname)
            direct = {mangle(D.name, t.attr) for t in ast.walk(mnode)
                      if isinstance(t, ast.Attribute) and isinstance(t.ctx, ast.Store)
                      and isinstance(t.value, ast.Name) and t.value.id == 'self'}
            if PSD_FIELD not in direct:
                continue
            try:
                paths = ts.method_paths(D, f)
            except ExplosionError:
                continue
            for p in paths:
                if p.end == 'raise':
                    continue
                for e in p.events:
                    if e[0] == 'wr' and e[1] == PSD_FIELD and len(e) > 4 and e[4] == f.qname:
                        v = e[2]
                        if PSD_FIELD not in v.fields or not v.calls:
                            continue            # not derived from the raw cache (or the cache itself, stored back unchanged)
                        n_o5 += 1
                        ok = v.refreshed or ('psd' in v.getters)
                        key = ('O5', f.qname, ok)
                        if key in seen:
                            continue
                        seen.add(key)
                        if ok:
                            rep.proved('O5-derivation-from-fresh-cache', f.qname, 'stores a value derived from the cache',
                                       'the cache was read through the psd getter (refreshed) on the same path', loc(f.mod, f.node), p.describe())
                        else:
                            rep.violation('O5-derivation-from-fresh-cache', f.qname, 'stores a value derived from the cache',
                                          'the new cache value is computed from the raw cache field without a refresh (psd getter / '
                                          'self()) on this path: with an attribute change pending it converts an obsolete estimate, '
                                          'and the next read recomputes and discards the conversion', loc(f.mod, f.node), p.describe())
    rep.floor('cache derivations examined', n_o5, 1)
    # O8: the `sides` label describes the layout of the stored PSD: outside __init__ it is written only together with a new
    # cache value (conversion / freshly set PSD), on a path that marks the estimate as modified (the recomputation stores the
    # default layout again), or while the cache is empty
    SIDES_FIELD = '_Spectrum__sides'
    n_o8 = 0
    for D in hier:
        for mname, mnode in D.methods.items():
            if mname == '__init__':
                continue
            f = D.find_method(mname)
            direct = {mangle(D.name, t.attr) for t in ast.walk(mnode)
                      if isinstance(t, ast.Attribute) and isinstance(t.ctx, ast.Store)
                      and isinstance(t.value, ast.Name) and t.value.id == 'self'}
            if SIDES_FIELD not in direct:
                continue
            try:
                paths = ts.method_paths(D, f)
            except ExplosionError:
                rep.undecided('O8-sides-follows-layout', f.qname, 'writes %s' % SIDES_FIELD, 'too many paths')
                continue
            for p in paths:
                if p.end == 'raise':
                    continue
                if not any(e[0] == 'wr' and e[1] == SIDES_FIELD for e in p.events):
                    continue
                n_o8 += 1
                fin = p.final_write('modified')
                marks = fin is not None and _is_const(fin[2], True)
                stores = any(e[0] == 'wr' and e[1] == PSD_FIELD for e in p.events)
                ok = marks or stores or _psd_known_none(p)
                key = ('O8', f.qname, ok, marks, stores)
                if key in seen:
                    continue
                seen.add(key)
                if ok:
                    rep.proved('O8-sides-follows-layout', f.qname, 'writes %s (%s)' % (SIDES_FIELD, 'modified=True' if marks else
                               ('with a new cache value' if stores else 'cache empty')), '', loc(f.mod, f.node), p.describe())
                else:
                    rep.violation('O8-sides-follows-layout', f.qname, 'writes %s' % SIDES_FIELD, 'a path relabels `sides` while the stored PSD '
                                  'keeps its layout and is not marked for recomputation: frequencies() and the next conversion read the '
                                  'cache under the wrong layout', loc(f.mod, f.node), p.describe())
    rep.floor('sides-label writes examined', n_o8, 3)
    # O10: the cache field is re-bound to a fresh array, never written in place: the psd getter hands out the stored array itself,
    # so `self.__psd[:] = new` silently overwrites the estimate a caller obtained before the re-evaluation
    n_o10 = 0
    for D in hier:
        for mname, mnode in D.methods.items():
            f = D.find_method(mname)
            for st_ in ast.walk(mnode):
                tg = []
                if isinstance(st_, ast.Assign):
                    tg = st_.targets
                elif isinstance(st_, ast.AugAssign):
                    tg = [st_.target]
                for t_ in tg:
                    tb_ = t_
                    sub = False
                    while isinstance(tb_, ast.Subscript):
                        tb_, sub = tb_.value, True
                    if isinstance(tb_, ast.Attribute) and isinstance(tb_.value, ast.Name) and tb_.value.id == 'self' \
                            and mangle(D.name, tb_.attr) == PSD_FIELD:
                        n_o10 += 1
                        inplace = sub or isinstance(st_, ast.AugAssign)
                        key = ('O10', f.qname, normalise(st_))
                        if key in seen:
                            continue
                        seen.add(key)
                        if inplace:
                            rep.violation('O10-cache-rebound', f.qname, normalise(st_)[:70], 'the cached array is written in place: it is the '
                                          'very array the psd getter returned earlier, so a result the caller still holds changes under '
                                          'their hands when the object is re-evaluated', loc(f.mod, st_))
                        else:
                            rep.proved('O10-cache-rebound', f.qname, normalise(st_)[:70], 'the field is bound to a new object', loc(f.mod, st_))
    rep.floor('cache stores examined', n_o10, 2)
    # Range itself: df recomputed from the current N and sampling after each change
    R = prog.cls('psd', 'Range')
    n_range = 0
    for mname in R.methods:
        f = R.find_method(mname)
        for p in ts.method_paths(R, f):
            if p.end == 'raise':
                continue
            idxs = [i for i, e in enumerate(p.events) if e[0] == 'wr' and e[1] in ('_Range__N', '_Range__sampling')
                    and not _is_const(e[2], None)]
            if not idxs:
                continue
            n_range += 1
            last = idxs[-1]
            dfw = [(i, e) for i, e in enumerate(p.events) if e[0] == 'wr' and e[1] == '_Range__df' and i > last]
            ok = False
            detail = 'no df update after the last write of N/sampling'
            if dfw:
                e = dfw[-1][1]
                st = e[3]
                rhs = st.value if isinstance(st, (ast.Assign, ast.AugAssign)) else None
                if isinstance(rhs, ast.BinOp) and isinstance(rhs.op, ast.Div):
                    left = {mangle('Range', n.attr) for n in ast.walk(rhs.left) if isinstance(n, ast.Attribute)}
                    right = {mangle('Range', n.attr) for n in ast.walk(rhs.right) if isinstance(n, ast.Attribute)}
                    if '_Range__sampling' in left and '_Range__N' in right and '_Range__N' not in left \
                            and '_Range__sampling' not in right:
                        ok = True
                    else:
                        detail = 'df is not computed as sampling / N: %s' % normalise(rhs)
                else:
                    detail = 'df is not computed as a quotient sampling / N'
            sig = 'writes N/sampling'
            key = ('O4r', f.qname, ok)
            if key in seen:
                continue
            seen.add(key)
            if ok:
                rep.proved('O4-range-paired', f.qname, sig, 'df = sampling/N recomputed', loc(f.mod, f.node))
            else:
                rep.violation('O4-range-paired', f.qname, sig, detail, loc(f.mod, f.node), p.describe())
    # Spectrum.df reads the Range
    dfp = base.find_prop('df')
    if dfp is None:
        raise AnalysisError('Spectrum.df vanished')
    g = dfp[0].find_method(dfp[1][0])
    okdf = all(p.ret is not None and '_range.df' in p.ret.fields for p in ts.method_paths(base, g) if p.end != 'raise')
    if okdf:
        rep.proved('O4-range-paired', g.qname, 'df getter', 'df is read from the Range object', loc(g.mod, g.node))
    else:
        rep.violation('O4-range-paired', g.qname, 'df getter', 'df is not the Range step', loc(g.mod, g.node))

    rep.analysed['setters'] = sorted(n_setters)
    rep.analysed['paths_enumerated'] = total_paths
    rep.floor('PSD classes with __call__', n_calls, 12)
    rep.floor('distinct setters analysed', len(n_setters), 9)
    rep.floor('modified=False sites on analysed paths', n_clear_sites, 3)
    rep.floor('NFFT/sampling write paths', n_pair, 3)
    rep.floor('Range update paths', n_range, 2)
