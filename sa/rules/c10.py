"""C10 — Levinson and the Toeplitz / Hermitian / Cholesky solvers (decidable clauses)."""
import ast
from fractions import Fraction as F

from ..frontend import AnalysisError, loc, normalise
from ..values import *      # noqa
from .. import contexts as C
from .. import charge as Q
from ..d1rules import check_sink, report_conflicts
from ..d4rules import arr, scal, run_d4, report_q, check_q, blocked

PROP = 'C10'
LEVEL = 'other'


def loops_of(fnode):
    return [n for n in ast.walk(fnode) if isinstance(n, (ast.For, ast.While))]


def guard_rule(rep, prog, mod, fname, pname='P', allow=None):
    """every update of the prediction error inside the recursion is followed - before the next division by it, the
    end of the iteration or a continue - by a non-positivity test that raises"""
    f = prog.func(mod, fname)
    from ..idioms import canonicalise
    node = canonicalise(f.node)
    where = loc(f.mod, f.node)
    n = 0
    for loop in loops_of(node):
        body = loop.body
        for i, st in enumerate(body):
            ups = [a for a in ast.walk(st) if isinstance(a, ast.Assign) and len(a.targets) == 1
                   and isinstance(a.targets[0], ast.Name) and a.targets[0].id == pname
                   and any(isinstance(x, ast.Name) and x.id == pname for x in ast.walk(a.value))]
            if not ups or isinstance(st, (ast.For, ast.While)):
                continue
            n += 1
            found = None
            why = 'the iteration ends without testing it'
            for nxt in body[i + 1:]:
                if isinstance(nxt, ast.If) and _tests_nonpositive(nxt.test, pname) and any(isinstance(x, ast.Raise) for x in nxt.body):
                    extra = _extra_conditions(nxt.test, pname)
                    bad_extra = [e for e in extra if not (allow and _is_param_flag(e, allow))]
                    if bad_extra:
                        why = 'the raise is guarded by an extra condition %s' % normalise(bad_extra[0])
                        found = False
                    else:
                        found = True
                    break
                if _divides_by(nxt, pname):
                    why = 'it is used as a divisor (%s) before being tested' % normalise(nxt)[:60]
                    found = False
                    break
                if any(isinstance(x, (ast.Continue, ast.Break, ast.Return)) for x in ast.walk(nxt)) and not isinstance(nxt, ast.If):
                    break
                if isinstance(nxt, ast.If) and any(isinstance(x, (ast.Continue, ast.Break, ast.Return)) for b in nxt.body for x in ast.walk(b)):
                    why = 'a path leaves the iteration (%s) before it is tested' % normalise(nxt.test)
                    found = False
                    break
            construct = 'update %s' % normalise(st)
            if found:
                rep.proved('guard', f.qname, construct, 'followed by the non-positivity test that raises', where)
            else:
                rep.violation('guard', f.qname, construct, 'the prediction error is updated but %s: a non-positive-definite '
                              'system is accepted silently' % why, where)
    return n


def _tests_nonpositive(test, pname):
    for c in ast.walk(test):
        if isinstance(c, ast.Compare) and len(c.ops) == 1 and isinstance(c.left, ast.Name) and c.left.id == pname \
                and isinstance(c.ops[0], (ast.LtE, ast.Lt)) and isinstance(c.comparators[0], ast.Constant) \
                and c.comparators[0].value == 0:
            # must be a conjunct, not inside an `or` with something else / a negation
            return True
    return False


def _extra_conditions(test, pname):
    if isinstance(test, ast.BoolOp) and isinstance(test.op, ast.And):
        return [v for v in test.values if not _tests_nonpositive(v, pname)]
    if isinstance(test, ast.BoolOp):
        return [test]
    return []


def _is_param_flag(e, allow):
    """allow_singularity == False / not allow_singularity"""
    names = [x.id for x in ast.walk(e) if isinstance(x, ast.Name)]
    return names == [allow]


def _divides_by(st, pname):
    for x in ast.walk(st):
        if isinstance(x, ast.BinOp) and isinstance(x.op, ast.Div):
            if any(isinstance(y, ast.Name) and y.id == pname for y in ast.walk(x.right)):
                return True
    return False


def recurrence_rule(rep, prog, mod, fname, pname='P', coef_arrays=('A', 'ref')):
    """P <- P*(1 - |k|^2) with the same k that is stored as the new coefficient / reflection coefficient"""
    f = prog.func(mod, fname)
    from ..idioms import canonicalise
    node = canonicalise(f.node)
    where = loc(f.mod, f.node)
    n = 0
    for loop in loops_of(node):
        for st in ast.walk(loop):
            if not (isinstance(st, ast.Assign) and len(st.targets) == 1 and isinstance(st.targets[0], ast.Name)
                    and st.targets[0].id == pname and isinstance(st.value, ast.BinOp) and isinstance(st.value.op, ast.Mult)):
                continue
            l, r = st.value.left, st.value.right
            if isinstance(r, ast.Name) and r.id == pname:
                l, r = r, l
            if not (isinstance(l, ast.Name) and l.id == pname):
                continue
            n += 1
            kname = _one_minus_sq(r)
            construct = normalise(st)
            if kname is None:
                rep.violation('recurrence', f.qname, construct, 'the prediction error is not updated as P*(1-|k|^2)', where)
                continue
            stored = set()
            for b in ast.walk(loop):
                if isinstance(b, ast.Assign) and isinstance(b.value, ast.Name) and b.value.id == kname:
                    for tg in b.targets:          # A[k] = ref[k] = temp stores into both
                        if isinstance(tg, ast.Subscript) and isinstance(tg.value, ast.Name):
                            stored.add(tg.value.id)
            missing = [a for a in coef_arrays if a not in stored]
            if missing:
                rep.violation('recurrence', f.qname, construct, 'the coefficient %s used in the error update is not the one '
                              'stored in %s' % (kname, missing), where)
            else:
                rep.proved('recurrence', f.qname, construct, 'k = %s is stored in %s' % (kname, sorted(stored)), where)
    return n


def _one_minus_sq(e):
    """1 - abs(k)**2  |  1 - k**2  -> 'k'"""
    if isinstance(e, ast.BinOp) and isinstance(e.op, ast.Sub) and isinstance(e.left, ast.Constant) and e.left.value in (1, 1.0):
        x = e.right
        if isinstance(x, ast.BinOp) and isinstance(x.op, ast.Pow) and isinstance(x.right, ast.Constant) and x.right.value in (2, 2.0):
            b = x.left
            if isinstance(b, ast.Call) and isinstance(b.func, ast.Name) and b.func.id == 'abs' and isinstance(b.args[0], ast.Name):
                return b.args[0].id
            if isinstance(b, ast.Name):
                return b.id
        if isinstance(x, ast.BinOp) and isinstance(x.op, ast.Mult) and isinstance(x.left, ast.Name):
            # temp1*temp2 (general Toeplitz: forward and backward coefficient)
            return x.left.id
    return None


def run(prog, rep, tier='quick'):
    rep.explanation = (
        'Decidable clauses of C10, for all inputs: (charge) LEVINSON, HERMTOEP and TOEPLITZ are typed in the modulation-'
        'charge domain (r[k]: charge k, T[i,j]: charge i-j): every product/sum in the order recursion must combine equal '
        'charges, which pins each conjugate and each index of the recursion (a dropped conjugate or an off-by-one lag is a '
        'type error) and fixes the charges of the outputs (a[k], k_k: k+1; P: 0; solution x[i]: i); (guard) every update of '
        'the prediction error is followed, before the next division by it or the end of the iteration, by the P<=0 test that '
        'raises (only allow_singularity may disable it); (recurrence) P <- P*(1-|k|^2) with the very k stored as coefficient '
        'and reflection coefficient, starting from real(r[0]); (nesting) nothing computed in iteration k depends on the '
        'requested order; (scaling) a, k degree 0 and P degree 1 in r; (cholesky) the three back ends solve with matching '
        'triangular flags / L then L^H. NOT decided: that the recursions satisfy T x = z numerically, stability, |k|<1.')
    rep.rule('order-update', 'in LEVINSON / HERMTOEP / TOEPLITZ no store A[i2] = f(.., A[i1], ..) follows a store to A[i1] in the same iteration (i1 != i2): the simultaneous order update must use the saved previous value; a sweep that stores both ends j and c-j of each pair has exactly floor((c+2)/2) passes for even and odd order')
    rep.rule('admission', 'no guard on (len(r), order) raises on the grid len(r)=2..9, order=1..len(r)-1')
    rep.rule('dtype', 'HERMTOEP / TOEPLITZ: no complex value is stored into a real buffer and the solution is complex when the matrix or the right-hand side is')
    rep.rule('charge', 'no operation in the recursion combines different modulation charges; outputs carry the charges of their representation')
    rep.rule('guard', 'update of P -> (P<=0 -> raise) before the next division by P / end of iteration')
    rep.rule('recurrence', 'P = P*(1-|k|^2) and the same k is stored in the coefficient arrays')
    rep.rule('nesting', 'values stored in iteration k carry no dependence on the requested order')
    rep.rule('scaling', 'exponents under r -> s*r: a, k: 0; P: 1')
    rep.rule('cholesky', 'cho_solve flag == cholesky flag; numpy path solves with L then with conj(L).T on the first result')
    seen = set()
    L = C.symint('L', 2, 'lag')
    nq = 0
    # ---------------- charges
    lev = prog.func('levinson', 'LEVINSON')
    for order in (None, 'given'):
        r = arr(L.a + 1, 1, 0, True, s=2)
        kw = {}
        if order:
            Aff.SYM_MIN['Mo'] = 1
            kw['order'] = IntV(Aff.sym('Mo'), frozenset(['order']))
        v, itp = run_d4(prog, 'levinson', 'LEVINSON', [r], kw)
        ctx = 'complex r, order %s' % (order or 'default')
        if blocked(rep, 'charge', lev.qname, ctx, itp):
            continue
        nconf = report_q(rep, 'charge', itp, {lev.qname}, ctx, seen)
        nq += 1
        if isinstance(v, Tup) and len(v.items) == 3:
            check_q(rep, 'charge', lev.qname, ctx, 'a', v.items[0], Q.lin(1, Aff(1)), loc(lev.mod, lev.node), nconf)
            check_q(rep, 'charge', lev.qname, ctx, 'P', v.items[1], Aff(0), loc(lev.mod, lev.node), nconf)
            check_q(rep, 'charge', lev.qname, ctx, 'reflection', v.items[2], Q.lin(1, Aff(1)), loc(lev.mod, lev.node), nconf)
        else:
            rep.undecided('charge', lev.qname, ctx, 'no (a, P, k) triple returned')
    ht = prog.func('toeplitz', 'HERMTOEP')
    v, itp = run_d4(prog, 'toeplitz', 'HERMTOEP', [scal(0), arr(L.a, 1, 1, True), arr(L.a + 1, 1, 0, True)], {})
    if not blocked(rep, 'charge', ht.qname, 'complex', itp):
        nconf = report_q(rep, 'charge', itp, {ht.qname}, 'complex system', seen)
        nq += 1
        check_q(rep, 'charge', ht.qname, 'complex system', 'solution x', v, Q.lin(1, Aff(0)), loc(ht.mod, ht.node), nconf)
    tp = prog.func('toeplitz', 'TOEPLITZ')
    v, itp = run_d4(prog, 'toeplitz', 'TOEPLITZ', [scal(0), arr(L.a, 1, 1, True), arr(L.a, -1, -1, True), arr(L.a + 1, 1, 0, True)], {})
    if not blocked(rep, 'charge', tp.qname, 'complex', itp):
        nconf = report_q(rep, 'charge', itp, {tp.qname}, 'general system', seen)
        nq += 1
        check_q(rep, 'charge', tp.qname, 'general system', 'solution x', v, Q.lin(1, Aff(0)), loc(tp.mod, tp.node), nconf)
    # ---------------- dtype of the solution buffers: complex whenever the matrix or the right-hand side is
    n_dt = 0
    for mod_, fn_, mk_args in (
            ('toeplitz', 'HERMTOEP', lambda tc, zc: [C.deg0(label='T0'), C.deg0((L.a,), tc, 'T'), C.deg0((L.a + 1,), zc, 'Z')]),
            ('toeplitz', 'TOEPLITZ', lambda tc, zc: [C.deg0(label='T0'), C.deg0((L.a,), tc, 'TC'), C.deg0((L.a,), tc, 'TR'), C.deg0((L.a + 1,), zc, 'Z')])):
        g = prog.func(mod_, fn_)
        for tc, zc in ((True, False), (False, True), (True, True)):
            v, itp = C.run_function(prog, mod_, fn_, mk_args(tc, zc), {})
            ctx = 'matrix %s, right-hand side %s' % ('complex' if tc else 'real', 'complex' if zc else 'real')
            if blocked(rep, 'dtype', g.qname, ctx, itp):
                continue
            n_dt += 1
            bad = [c for c in itp.conflicts if c.comp == 'dtype' and c.func == g.qname]
            vn = tonum(v) if v is not None else None
            if bad:
                for c in bad[:3]:
                    key = ('dtype', c.func, c.construct)
                    if key in seen:
                        continue
                    seen.add(key)
                    rep.violation('dtype', g.qname, c.construct, '%s (first seen for %s): the solver returns the real part of the '
                                  'solution only' % (c.msg, ctx), 'src/spectrum/%s.py:%s' % (c.mod, c.line))
            elif vn is not None and vn.cplx is False:
                rep.violation('dtype', g.qname, ctx, 'the returned solution has a real dtype although the system is complex', loc(g.mod, g.node))
            else:
                rep.proved('dtype', g.qname, ctx, 'every buffer written with complex values is complex; solution dtype complex', loc(g.mod, g.node))
    # LEVINSON on a complex autocorrelation: A, the reflection coefficients and every work buffer must be complex
    g = prog.func('levinson', 'LEVINSON')
    v, itp = C.run_function(prog, 'levinson', 'LEVINSON', [C.deg0((L.a + 1,), True, 'r')], {})
    if not blocked(rep, 'dtype', g.qname, 'complex autocorrelation', itp):
        n_dt += 1
        bad = [c for c in itp.conflicts if c.comp == 'dtype' and c.func == g.qname]
        outs = v.items if isinstance(v, Tup) else []
        real_out = [nm for nm, o in zip(('a', 'P', 'k'), outs) if nm != 'P' and isinstance(o, Num) and o.cplx is False]
        if bad:
            for c in bad[:3]:
                key = ('dtype', c.func, c.construct)
                if key not in seen:
                    seen.add(key)
                    rep.violation('dtype', g.qname, c.construct, '%s (complex autocorrelation): the stored coefficient loses its '
                                  'imaginary part' % c.msg, 'src/spectrum/%s.py:%s' % (c.mod, c.line))
        elif real_out:
            rep.violation('dtype', g.qname, 'complex autocorrelation', 'returned %s has a real dtype for complex input' % real_out, loc(g.mod, g.node))
        else:
            rep.proved('dtype', g.qname, 'complex autocorrelation', 'A and the reflection coefficients are complex buffers', loc(g.mod, g.node))
    rep.floor('dtype contexts', n_dt, 7)
    # ---------------- in-place two-ended order updates read the previous order's values
    from ..orderupdate import check as order_check
    n_ou = 0
    for mod_, fn_ in (('levinson', 'LEVINSON'), ('toeplitz', 'HERMTOEP'), ('toeplitz', 'TOEPLITZ')):
        g = prog.func(mod_, fn_)
        cnt, bad = order_check(g.node)
        n_ou += cnt
        if bad:
            for s_, arr_, idx_ in bad:
                rep.violation('order-update', g.qname, normalise(s_)[:90], 'the right-hand side reads %s[%s] after it was overwritten '
                              'earlier in the same iteration: the order update needs the previous order\'s value there (save it in a '
                              'temporary first, or assign both ends at once)' % (arr_, idx_), loc(g.mod, s_))
        else:
            rep.proved('order-update', g.qname, 'in-place stores', '%d array stores inside loops examined: none reads an element of the '
                       'same array that was overwritten earlier in the iteration' % cnt, loc(g.mod, g.node))
    rep.floor('order-update stores examined', n_ou, 10)
    # ---------------- the two-ended sweep takes every coefficient pair exactly once
    from ..orderupdate import sweep_check, show_lin
    n_sw = 0
    for mod_, fn_ in (('levinson', 'LEVINSON'), ('toeplitz', 'HERMTOEP'), ('toeplitz', 'TOEPLITZ')):
        g = prog.func(mod_, fn_)
        cnt, bad = sweep_check(g.node)
        n_sw += cnt
        for inner, kname, res in bad:
            msg = '; '.join('%s = %s: %s passes, %s pairs' % (kname, '2q' if p_ == 0 else '2q+1', show_lin(res[p_][0]), show_lin(res[p_][1]))
                            for p_ in (0, 1) if res[p_][0] != res[p_][1])
            rep.violation('order-update', g.qname, 'sweep %s' % normalise(inner.iter)[:60], 'the in-place step-up stores both ends (j and its '
                          'mirror) of each coefficient pair, so the sweep must take every pair exactly once -- %s: a pass too many updates the '
                          'middle pair again with already-updated values, a pass short leaves a pair at the previous order' % msg,
                          loc(g.mod, inner))
        if cnt and not bad:
            rep.proved('order-update', g.qname, 'two-ended sweeps', '%d sweep(s): trip count == number of (j, mirror) pairs for even and '
                       'odd order' % cnt, loc(g.mod, g.node))
    rep.analysed['two-ended sweeps'] = n_sw
    # ---------------- guards and recurrences
    ng = guard_rule(rep, prog, 'levinson', 'LEVINSON', 'P', allow='allow_singularity')
    ng += guard_rule(rep, prog, 'toeplitz', 'HERMTOEP', 'P')
    ng += guard_rule(rep, prog, 'toeplitz', 'TOEPLITZ', 'P')
    nr = recurrence_rule(rep, prog, 'levinson', 'LEVINSON', 'P', ('A', 'ref'))
    nr += recurrence_rule(rep, prog, 'toeplitz', 'HERMTOEP', 'P', ('A',))
    nr += recurrence_rule(rep, prog, 'toeplitz', 'TOEPLITZ', 'P', ('A',))
    # P0 = real(r[0])
    for st in lev.node.body:
        pass
    # ---------------- nesting + scaling (LEVINSON)
    for cplx in (False, True):
        r = Num({**zero_deg(), 's': F(1)}, (L.a + 1,), cplx, taint=frozenset(['r']))
        Aff.SYM_MIN['Mo'] = 1
        itp = C.new_interp(prog, loop_taint=False)
        v, itp = C.run_function(prog, 'levinson', 'LEVINSON', [r], {'order': IntV(Aff.sym('Mo'), frozenset(['order']))}, itp=itp)
        ctx = 'complex' if cplx else 'real'
        where = loc(lev.mod, lev.node)
        bad = [e for e in itp.events if e[0] == 'store' and e[5] == lev.qname and 'order' in e[3]]
        if bad:
            rep.violation('nesting', lev.qname, normalise(bad[0][1]), 'a value stored in iteration k depends on the requested '
                          'order: the order-q coefficients are not the first q of the order-p ones [%s]' % ctx, where)
        else:
            rep.proved('nesting', lev.qname, 'stores into A/ref [%s]' % ctx, '%d stores, none depends on the order' %
                       len([e for e in itp.events if e[0] == 'store' and e[5] == lev.qname]), where)
        # the recursion runs through every requested order: no data-dependent break / return inside the order loop (a reflection
        # coefficient that happens to be zero does not end the recursion)
        gb = [e for e in itp.events if e[0] == 'guard-break' and e[4] == lev.qname and 'r' in e[3]]
        if gb:
            key = ('full-order', normalise(gb[0][1].test))
            if key not in seen:
                seen.add(key)
                rep.violation('nesting', lev.qname, 'if %s: %s' % (normalise(gb[0][1].test)[:50], gb[0][2]), 'the order recursion is left on a '
                              'condition computed from the data: the remaining orders are never processed, so the returned model is not the '
                              'solution of the order-p equations (and its coefficients beyond that point are the initial zeros) [%s]' % ctx,
                              loc(lev.mod, gb[0][1]))
        else:
            rep.proved('nesting', lev.qname, 'order loop exits [%s]' % ctx, 'no data-dependent break / return inside the recursion', where)
        if isinstance(v, Tup) and len(v.items) == 3:
            report_conflicts(rep, 'scaling', itp, ('s',), 'LEVINSON,' + ctx, seen)
            check_sink(rep, 'scaling', lev.qname, ctx, 'a', v.items[0], {'s': F(0)}, where, itp, ('s',), seen)
            check_sink(rep, 'scaling', lev.qname, ctx, 'P', v.items[1], {'s': F(1)}, where, itp, ('s',), seen)
            check_sink(rep, 'scaling', lev.qname, ctx, 'reflection', v.items[2], {'s': F(0)}, where, itp, ('s',), seen)
    # ---------------- CHOLESKY back ends
    ch = prog.func('cholesky', 'CHOLESKY')
    nch = 0
    Aff.SYM_MIN['n'] = 2
    for method in ('scipy', 'numpy', 'numpy_solver'):
        A = Num({**zero_deg(), 's': F(1)}, (Aff.sym('n'), Aff.sym('n')), True)
        B = Num({**zero_deg(), 'sy': F(1)}, (Aff.sym('n'),), True)
        v, itp = C.run_function(prog, 'cholesky', 'CHOLESKY', [A, B], {'method': Const(method)})
        nch += 1
        where = loc(ch.mod, ch.node)
        ctx = 'method=%s' % method
        if blocked(rep, 'cholesky', ch.qname, ctx, itp):
            continue
        # the result must be B/A
        check_sink(rep, 'cholesky', ch.qname, ctx, 'x', v, {'s': F(-1), 'sy': F(1)}, where)
        chol = [e for e in itp.events if e[0] == 'cholesky']
        if method == 'scipy':
            cs = [e for e in itp.events if e[0] == 'cho_solve']
            ok = len(chol) == 1 and len(cs) == 1
            if ok:
                lower = chol[0][3]
                lflag = bool(lower.v) if isinstance(lower, Const) else (False if lower is None else None)
                tupv = cs[0][2]
                cflag = None
                if isinstance(tupv, Tup) and len(tupv.items) == 2 and isinstance(tupv.items[1], Const):
                    cflag = bool(tupv.items[1].v)
                    same_L = isinstance(tupv.items[0], Num) and tupv.items[0].uid == chol[0][4].uid
                else:
                    same_L = False
                ok = lflag is not None and cflag is not None and lflag == cflag and same_L
            if ok:
                rep.proved('cholesky', ch.qname, ctx + ' flags', 'cho_solve((L, %s)) with the factor cholesky(lower=%s) returned' % (cflag, lflag), where)
            else:
                rep.violation('cholesky', ch.qname, ctx + ' flags', 'the triangular flag given to cho_solve does not match the '
                              'factor scipy.linalg.cholesky returned (or another matrix is passed)', where)
        elif method == 'numpy':
            sol = [e for e in itp.events if e[0] == 'solve']
            ok = len(chol) == 1 and len(sol) == 2
            if ok:
                Luid = chol[0][4].uid
                s1, s2 = sol
                ok = (s1[3] == Luid and not s1[4] and not s1[5]) and (s2[3] == Luid and s2[4] and s2[5]) and s2[6] == s1[7].uid
            if ok:
                rep.proved('cholesky', ch.qname, ctx + ' order', 'solve(L, B) then solve(conj(L).T, y)', where)
            else:
                rep.violation('cholesky', ch.qname, ctx + ' order', 'the two triangular solves are not L y = B followed by L^H x = y', where)
    # every order up to len(r)-1 is admitted
    from ..d1rules import admission_of
    grid = [{'Nr': n_, 'Pa': p_} for n_ in range(2, 10) for p_ in range(1, n_)]
    admission_of(rep, prog, 'admission', 'levinson', 'LEVINSON',
                 lambda: ([C.data(True, n=Aff.sym('Nr'), phase=False)], {'order': IntV(Aff.sym('Pa'), frozenset(['order']))}), grid,
                 lambda w: 'len(r) = %d, order = %d' % (w['Nr'], w['Pa']), seen)
    rep.floor('charge-typed solvers', nq, 4)
    rep.floor('guarded updates', ng, 3)
    rep.floor('recurrence updates', nr, 3)
    rep.floor('cholesky back ends', nch, 3)
    from ..prims import USED
    rep.trusted += sorted(USED)
