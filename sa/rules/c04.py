"""C04 — frequency-shift covariance and conjugate symmetry of two-sided spectra; one-sided = 2 x first half.

shift  (D4): x[n] -> exp(2*pi*i*m*n/NFFT) x[n].  Every value gets a modulation charge; sums/stores need equal charges
             (mod NFFT), and every sequence handed to the NFFT-point transform on the spectrum path must hold the
             sample of charge k at index k (mod NFFT).  By the shift theorem the two-sided spectrum then rotates by
             exactly m bins.
conj        : all arithmetic on the data is conjugation-equivariant (field operations, conj, abs, real constants):
             no literal with a non-zero imaginary part multiplies data and no `.imag` of a data value is used outside
             an assert; together with the charge typing this gives bin k <-> bin -k under conjugation.
half   (D3): for the AR/MA/ARMA, minimum-variance and multitaper classes the real-data PSD is exactly 2 x the prefix
             [0:h] of the two-sided array (weight 2 on every slot, DC and Nyquist included)."""
import ast
from fractions import Fraction as F

from ..frontend import AnalysisError, loc, normalise
from ..values import *      # noqa
from .. import contexts as C
from .. import charge as Q
from .. import segmap as S
from ..segmap import Seg
from ..d1rules import psd_classes, ctor_args, PSD_FIELD
from ..d4rules import arr, scal, run_d4, report_q, check_q, blocked

PROP = 'C04'
LEVEL = 'other'
HALF_CLASSES = ('pburg', 'pyule', 'pcovar', 'pmodcovar', 'parma', 'pma', 'pminvar', 'MultiTapering')
m = Aff.sym('m')


def arburg_axiom(itp, args, kwargs, node, st):
    """D4 summary of the Burg recursion (its in-place error update has stage-dependent charges, see DESIGN 2.3):
    like every forward linear predictor, a[k] and k_k carry charge k+1, the variance charge 0"""
    order = args[1] if len(args) > 1 else kwargs.get('order')
    from ..prims import _int_aff
    n = _int_aff(order)
    x = tonum(args[0])
    t = x.taint if x is not None else frozenset()
    a = arr(n, 1, 1, True)
    a.taint = t
    rho = scal(0, False, s=2)
    rho.taint = t
    rho.nonneg = True
    ref = arr(n, 1, 1, True)
    ref.taint = t
    return Tup([a, rho, ref])


D4_SUMMARIES = {'burg.arburg': arburg_axiom}


def fft_inputs(rep, rule, func, ctx, itp, where, seen, floor_counter):
    """every transform on the spectrum path receives the sample of charge k at index k"""
    want = Q.lin(1, Aff(0))
    n = 0
    for e in itp.events:
        if e[0] != 'fft-q':
            continue
        _k, node, q, fq = e
        n += 1
        key = (rule, fq, normalise(node), ctx.split(',')[0])
        construct = 'transform input %s' % normalise(node)
        if q is None or q == 'any' or (isinstance(q, tuple) and q[0] == 'partial'):
            if key not in seen:
                seen.add(key)
                rep.undecided(rule, fq, construct, 'charge of the transformed sequence not derivable [%s]' % ctx, where)
            continue
        ok = Q.is_lin(q) and q[1] == 1 and Q.q_eq(q[2], Aff(0))
        if key in seen:
            continue
        seen.add(key)
        if ok:
            rep.proved(rule, fq, construct, 'index = charge (mod NFFT) [%s]' % ctx, where)
        else:
            rep.violation(rule, fq, construct, 'the sequence handed to the transform holds charge %s at index i: the spectrum does '
                          'not rotate by m bins (it is mirrored or offset) [%s]' % (Q.show(q), ctx), where)
    floor_counter[0] += n
    return n


def complex_literal_rule(rep, prog, funcs):
    """no literal with a non-zero imaginary part, no `.imag` outside an assert / |z|^2 idiom"""
    from ..idioms import canonicalise
    n = 0
    for mod, name in funcs:
        f = prog.func(mod, name)
        node = canonicalise(f.node)
        where = loc(f.mod, f.node)
        bad = []
        asserts = set()
        for a in ast.walk(node):
            if isinstance(a, ast.Assert):
                for x in ast.walk(a):
                    asserts.add(id(x))
        for x in ast.walk(node):
            if isinstance(x, ast.Constant) and isinstance(x.value, complex) and x.value.imag != 0:
                bad.append('complex literal %r' % x.value)
            if isinstance(x, ast.Attribute) and x.attr == 'imag' and id(x) not in asserts:
                bad.append('.imag of %s' % normalise(x.value))
        n += 1
        if bad:
            rep.violation('conj', f.qname, bad[0], 'the estimator is not conjugation-equivariant: %s enters the computation' % bad[0], where)
        else:
            rep.proved('conj', f.qname, 'field operations only', 'no imaginary literal, no .imag outside asserts', where)
    return n


def run(prog, rep, tier='quick'):
    rep.explanation = __doc__.split('\n\n', 1)[1] + (
        '\nDecided for complex data, all shifts m and all NFFT of both parities (symbolic). NOT decided: shift covariance of '
        'Burg\'s in-place error recursion and of the two Marple fast recursions (stage-dependent charges; the Burg result is '
        'used through the axiom a[k]: charge k+1), of the forward-backward matrix of eigen() (2-D charges), of xcorr-based '
        'correlograms (scipy.correlate is opaque to the charge domain), and time-reversal invariance.')
    rep.rule('shift', 'modulation-charge typing of the scoped recursions; transform inputs hold charge k at index k (mod NFFT)')
    rep.rule('conj', 'no imaginary literal / .imag in the estimator functions')
    rep.rule('half', 'real-data stored PSD == 2 x prefix [0:h] of the two-sided array (index map with weight 2 on every slot)')
    rep.trusted += ['shift theorem of the DFT', 'Burg AR coefficients a[k] carry modulation charge k+1 (axiom, like any forward predictor)']
    seen = set()
    nfft_n = [0]
    L = C.symint('L', 2, 'lag')
    P = lambda: C.symint('P', 2, 'order')
    n_fun = 0
    # ---------------- functions
    FUN = [
        ('correlation', 'CORRELATION', lambda: ([C.data(True)], {'maxlags': L, 'norm': Const('biased')}), lambda r: [('r', r, Q.lin(1, Aff(0)))]),
        ('correlation', 'CORRELATION', lambda: ([C.data(True)], {'maxlags': L, 'norm': Const('unbiased')}), lambda r: [('r', r, Q.lin(1, Aff(0)))]),
        ('levinson', 'LEVINSON', lambda: ([arr(L.a + 1, 1, 0, True, s=2)], {}),
         lambda r: [('a', r.items[0], Q.lin(1, Aff(1))), ('P', r.items[1], Aff(0)), ('k', r.items[2], Q.lin(1, Aff(1)))]),
        ('yulewalker', 'aryule', lambda: ([C.data(True), P()], {}),
         lambda r: [('a', r.items[0], Q.lin(1, Aff(1))), ('rho', r.items[1], Aff(0)), ('k', r.items[2], Q.lin(1, Aff(1)))]),
        ('arma', 'ma', lambda: ([C.data(True), C.symint('Q', 1, 'order'), C.symint('M', 2, 'order')], {}),
         lambda r: [('ma', r.items[0], Q.lin(1, Aff(1))), ('rho', r.items[1], Aff(0))]),
    ]
    for mod, fname, mk, sinks in FUN:
        f = prog.func(mod, fname)
        args, kw = mk()
        v, itp = run_d4(prog, mod, fname, args, kw, D4_SUMMARIES)
        n_fun += 1
        ctx = ','.join('%s=%s' % (k, x.v) for k, x in kw.items() if isinstance(x, Const)) or 'complex'
        if blocked(rep, 'shift', f.qname, ctx, itp):
            continue
        scope = {f.qname, 'correlation.CORRELATION', 'levinson.LEVINSON', 'yulewalker.aryule', 'arma.ma'}
        nconf = report_q(rep, 'shift', itp, scope, ctx, seen)
        if v is None:
            rep.undecided('shift', f.qname, ctx, 'no returning path')
            continue
        for name, val, want in sinks(v):
            check_q(rep, 'shift', f.qname, ctx, name, val, want, loc(f.mod, f.node), nconf)
    # transforms: functions that build the transformed sequence themselves
    TR = [
        ('arma', 'arma2psd', lambda par: ([], {'A': arr(P().a, 1, 1, True), 'B': arr(C.symint('Qq', 1).a, 1, 1, True), 'rho': scal(0, s=2), 'NFFT': C.nfft(par)})),
        ('arma', 'arma2psd', lambda par: ([], {'A': arr(P().a, 1, 1, True), 'rho': scal(0, s=2), 'NFFT': C.nfft(par)})),
        ('arma', 'arma2psd', lambda par: ([], {'B': arr(P().a, 1, 1, True), 'rho': scal(0, s=2), 'NFFT': C.nfft(par)})),
        ('minvar', 'minvar', lambda par: ([C.data(True), P()], {'NFFT': C.nfft(par)})),
        ('periodogram', 'speriodogram', lambda par: ([C.data(True)], {'NFFT': C.nfft(par), 'detrend': Const(False), 'window': StrV('w'), 'scale_by_freq': Const(False)})),
        ('correlog', 'CORRELOGRAMPSD', lambda par: ([C.data(True)], {'NFFT': C.nfft(par), 'lag': C.symint('lag', 2, 'lag'), 'window': StrV('w'), 'correlation_method': Const('CORRELATION')})),
        ('mtm', 'pmtm', lambda par: ([C.data(True)], {'NFFT': C.nfft(par), 'NW': C.deg0(label='NW'), 'k': C.symint('K', 1, 'k'), 'method': Const('eigen')})),
    ]
    for mod, fname, mk in TR:
        f = prog.func(mod, fname)
        for par in ('even', 'odd'):
            args, kw = mk(par)
            v, itp = run_d4(prog, mod, fname, args, kw, D4_SUMMARIES)
            n_fun += 1
            ctx = '%s NFFT %s' % ('+'.join(k for k in kw if k in ('A', 'B')) or fname, par)
            if blocked(rep, 'shift', f.qname, ctx, itp):
                continue
            scope = {f.qname, 'correlation.CORRELATION'}
            report_q(rep, 'shift', itp, scope, ctx, seen)
            fft_inputs(rep, 'shift', f.qname, ctx, itp, loc(f.mod, f.node), seen, nfft_n)
    # ---------------- classes: forwarding of the coefficients into the transform + one-sided = 2 x half
    n_half = 0
    classes = psd_classes(prog)
    for cls in classes:
        init = cls.find_method('__init__')
        has_method = 'method' in [a.arg for a in init.node.args.args]
        variants = [None] if not has_method else ['adapt', 'unity', 'eigen']
        where = loc(cls.mod, cls.node)
        for meth in variants:
            ov = {'method': Const(meth)} if meth else None
            # shift: complex data through the class
            if cls.name not in ('pmusic', 'pev', 'pcovar', 'pmodcovar', 'parma') and not (meth == 'adapt'):
                for par in ('even', 'odd'):
                    kw = ctor_args(cls, True, par, scale=False, overrides=ov)
                    kw['data'] = C.data(True)
                    itp = C.new_interp(prog, d4=True, summaries=D4_SUMMARIES)
                    ref, obj, itp, ok = C.run_class(prog, cls.mod, cls.name, [], kw, itp=itp)
                    ctx = '%s%s NFFT %s' % (cls.name, (' ' + meth) if meth else '', par)
                    if blocked(rep, 'shift', cls.qname, ctx, itp):
                        continue
                    report_q(rep, 'shift', itp, {'arma.arma2psd', 'minvar.minvar', 'correlation.CORRELATION', 'levinson.LEVINSON',
                                                 'yulewalker.aryule', 'arma.ma', 'periodogram.speriodogram', 'mtm.pmtm',
                                                 cls.qname + '.__call__'}, ctx, seen)
                    if cls.name != 'pcorrelogram':
                        fft_inputs(rep, 'shift', cls.qname, ctx, itp, where, seen, nfft_n)
            # half
            if cls.name in HALF_CLASSES:
                for par in ('even', 'odd'):
                    for cplx in (False, True):
                        kw = ctor_args(cls, cplx, par, scale=False, overrides=ov)
                        ref, obj, itp, ok = C.run_class(prog, cls.mod, cls.name, [], kw)
                        ctx = '%s%s, NFFT %s' % ('complex' if cplx else 'real', (', ' + meth) if meth else '', par)
                        psd = obj.f.get(PSD_FIELD) if obj is not None else None
                        n_half += 1
                        if not ok or not isinstance(psd, Num) or psd.seg is None:
                            rep.undecided('half', cls.qname, ctx, 'index map of the stored PSD not derivable', where)
                            continue
                        N = m.scale(2) if par == 'even' else m.scale(2) + 1
                        want = [Seg(N, '*', 0, 1, 1)] if cplx else [Seg(m + 1, '*', 0, 1, 2)]
                        got = [Seg(x.n, '*', x.start, x.stride, x.w) for x in psd.seg]
                        if S.same(got, want):
                            rep.proved('half', cls.qname, ctx, S.show(psd.seg), where)
                        else:
                            rep.violation('half', cls.qname, ctx, 'the stored PSD is %s; required %s (real data: twice the first half '
                                          'of the two-sided estimate on every bin)' % (S.show(psd.seg), S.show(want)), where)
    # ---------------- conjugation equivariance
    n_conj = complex_literal_rule(rep, prog, [
        ('correlation', 'CORRELATION'), ('correlation', 'xcorr'), ('levinson', 'LEVINSON'), ('burg', 'arburg'), ('yulewalker', 'aryule'),
        ('covar', 'arcovar'), ('modcovar', 'modcovar'), ('covar', 'arcovar_marple'), ('modcovar', 'modcovar_marple'),
        ('arma', 'arma2psd'), ('arma', 'arma_estimate'), ('arma', 'ma'), ('minvar', 'minvar'), ('periodogram', 'speriodogram'),
        ('correlog', 'CORRELOGRAMPSD'), ('mtm', 'pmtm'), ('eigenfre', 'eigen'), ('linalg', 'corrmtx')])
    rep.floor('functions typed in the charge domain', n_fun, 18)
    rep.floor('transform inputs checked', nfft_n[0], 20)
    rep.floor('half obligations', n_half, 8 * 4)
    rep.floor('conjugation-equivariance functions', n_conj, 18)
    from ..prims import USED
    rep.trusted += sorted(USED)
