"""C13 — Burg models: decidable clauses (nesting, criteria exit, variance recurrence, positivity guard, scaling)."""
import ast
from fractions import Fraction as F

import sympy as sp

from ..frontend import AnalysisError, loc, normalise
from ..values import *      # noqa
from .. import contexts as C
from ..d1rules import check_sink, report_conflicts, blocked
from .c03 import criteria_names
from .c10 import loops_of, _divides_by

PROP = 'C13'
LEVEL = 'other'


def view_roots(fnode):
    """local names that are views of another local array (x = y[...], x = y, x = y.T): name -> the array they look into"""
    cand = {}
    for n in ast.walk(fnode):
        if isinstance(n, ast.Assign) and len(n.targets) == 1 and isinstance(n.targets[0], ast.Name):
            v = n.value
            while isinstance(v, ast.Subscript) or (isinstance(v, ast.Attribute) and v.attr in ('T', 'real')):
                v = v.value
            base = v.id if isinstance(v, ast.Name) and v is not n.value else (v.id if isinstance(v, ast.Name) else None)
            cand.setdefault(n.targets[0].id, set()).add(base if (isinstance(n.value, (ast.Subscript, ast.Attribute)) and base) else None)
    roots = {k: list(v)[0] for k, v in cand.items() if len(v) == 1 and list(v)[0] is not None and list(v)[0] != k}

    def root(nm):
        seen = set()
        while nm in roots and nm not in seen:
            seen.add(nm)
            nm = roots[nm]
        return nm
    return root


def returned_names(fnode):
    """per element of the returned tuple: (primary array name, all names the element is computed from)"""
    out = []
    root = view_roots(fnode)
    for n in ast.walk(fnode):
        if isinstance(n, ast.Return) and isinstance(n.value, ast.Tuple):
            out = []
            for e in n.value.elts:
                names = [x.id for x in ast.walk(e) if isinstance(x, ast.Name) and isinstance(x.ctx, ast.Load)]
                # the array itself is the name the expression is built on (left-most base), e.g. a_all in a_all[0:n].copy()
                b = e
                while isinstance(b, (ast.Subscript, ast.Attribute, ast.Call)):
                    b = b.value if not isinstance(b, ast.Call) else b.func
                prim_ = root(b.id) if isinstance(b, ast.Name) else (root(names[0]) if names else None)
                out.append((prim_, sorted(set(root(x) for x in names))))
    return out


def writes_to(st, names, root=lambda x: x):
    """names (of the output set) a statement may modify: assignment, element store (also through a view), in-place resize/append"""
    hit = set()
    for n in ast.walk(st):
        tg = []
        if isinstance(n, ast.Assign):
            tg = n.targets
        elif isinstance(n, ast.AugAssign):
            tg = [n.target]
        for t in tg:
            for x in ast.walk(t):
                if isinstance(x, ast.Name) and x.id in names and isinstance(x.ctx, (ast.Store,)):
                    hit.add(x.id)
                if isinstance(x, ast.Subscript) and isinstance(x.value, ast.Name) and root(x.value.id) in names:
                    hit.add(root(x.value.id))
        if isinstance(n, ast.Call) and isinstance(n.func, ast.Attribute) and isinstance(n.func.value, ast.Name) \
                and root(n.func.value.id) in names and n.func.attr in ('resize', 'append', 'fill', 'sort'):
            hit.add(root(n.func.value.id))
    return hit


def run(prog, rep, tier='quick'):
    rep.explanation = (
        'Decidable clauses of C13 for all data, orders and criteria: (exit) in the main recursion the criterion `break` is '
        'reached before any write to the returned a, rho, ref of that iteration, so a criterion stop returns the completed '
        'model of the previous order; (nesting) no value stored in iteration k depends on the requested order; (recurrence) '
        'rho starts as sum|x|^2/N and is updated as rho*(1-|kp|^2) with the very kp stored as a[k] and ref[k]; (guard) '
        'rho <= 0 raises before rho is used again; (scaling) a, ref degree 0, rho degree 2 for every criterion (with C03). '
        'NOT decided: |k|<=1, that kp minimises the forward+backward error, monotonicity of rho (numerical).')
    rep.rule('exit', 'no store to a returned name precedes the criterion break inside an iteration')
    rep.rule('nesting', 'stores inside the recursion carry no dependence on `order`')
    rep.rule('recurrence', 'rho0 = sum|x|^2/N (signature 1/N, degree 2); rho <- (1-|kp|^2)*rho; kp stored in a[k] and ref[k]')
    rep.rule('guard', 'after the update of rho: rho <= 0 -> raise before the next iteration')
    rep.rule('stage-update', 'no store to a recursion array (a, ef, eb, ref) inside the order loop is control-dependent on a test that reads a data-derived value')
    rep.rule('order-update', 'no store a[i2] = f(.., a[i1], ..) follows a store to a[i1] in the same iteration (two-ended step-up)')
    rep.rule('integer-data', 'no product / integer power of the raw samples is formed while they may still have an integer dtype')
    rep.rule('scaling', 'a, ref: s=0; rho: s=2 under every criterion')
    rep.rule('admission', 'every raise guarded by a test on (N, order) is false on the grid N=4..10, order=1..N-2')
    f = prog.func('burg', 'arburg')
    from ..idioms import canonicalise
    node = canonicalise(f.node)
    where = loc(f.mod, f.node)
    rets3 = returned_names(node)
    if len(rets3) != 3 or any(r_[0] is None for r_ in rets3):
        raise AnalysisError('arburg no longer returns a triple built on three local arrays / scalars')
    root = view_roots(node)
    outs = sorted(set(x for r_ in rets3 for x in r_[1]))
    main = None
    for lp in [n for n in node.body if isinstance(n, ast.For)]:
        main = lp
    if main is None:
        raise AnalysisError('arburg main recursion not found')
    # ---------------- exit
    n_exit = 0
    seen_write = set()
    for st in main.body:
        has_break = any(isinstance(x, ast.Break) for x in ast.walk(st))
        if has_break:
            n_exit += 1
            # writes inside the breaking statement before the break itself
            inner = set()
            for sub in ast.walk(st):
                if isinstance(sub, ast.If) and any(isinstance(x, ast.Break) for b in sub.body for x in ast.walk(b)):
                    for b in sub.body:
                        if any(isinstance(x, ast.Break) for x in ast.walk(b)):
                            break
                        inner |= writes_to(b, outs, root)
            bad = sorted(seen_write | inner)
            if bad:
                rep.violation('exit', f.qname, 'break under %s' % normalise(st.test if isinstance(st, ast.If) else st)[:80],
                              'the returned %s already modified in this iteration when the order-selection criterion stops: '
                              'the result is not the completed model of the previous order' % (bad,), where)
            else:
                rep.proved('exit', f.qname, 'break under %s' % normalise(st.test if isinstance(st, ast.If) else st)[:80],
                           'no returned name is written before the stop', where)
        seen_write |= writes_to(st, outs, root)
    # ---------------- recurrence (AST dataflow inside the main loop)
    assigns = {}
    for st in ast.walk(main):
        if isinstance(st, ast.Assign) and len(st.targets) == 1 and isinstance(st.targets[0], ast.Name):
            assigns.setdefault(st.targets[0].id, []).append(st.value)
    alias = {}
    for nm, vals in assigns.items():
        if len(vals) == 1 and isinstance(vals[0], ast.Name):
            alias[nm] = vals[0].id           # plain copy  nm = other

    def rep_name(nm):
        seen_ = set()
        while nm in alias and nm not in seen_:
            seen_.add(nm)
            nm = alias[nm]
        return nm
    stored = {}
    for st in ast.walk(main):
        if isinstance(st, ast.Assign) and isinstance(st.targets[0], ast.Subscript) and isinstance(st.targets[0].value, ast.Name) \
                and isinstance(st.value, ast.Name):
            stored.setdefault(rep_name(st.value.id), set()).add(root(st.targets[0].value.id))
    aname, rname, refname = [r_[0] for r_ in rets3]
    kcands = [k for k, arrs in stored.items() if {aname, refname} <= arrs]
    ok = False
    detail = 'no coefficient is stored in both %s and %s' % (aname, refname)
    if kcands:
        k = kcands[0]
        detail = 'rho is not updated as (1-|%s|^2)*rho' % k

        def is_abs_sq(e, depth=0):
            # |k|**2, possibly through a named temporary
            if isinstance(e, ast.Name) and depth < 3:
                return any(is_abs_sq(v, depth + 1) for v in assigns.get(e.id, []))
            return (isinstance(e, ast.BinOp) and isinstance(e.op, ast.Pow) and isinstance(e.right, ast.Constant)
                    and e.right.value in (2, 2.0) and isinstance(e.left, ast.Call)
                    and getattr(e.left.func, 'id', getattr(e.left.func, 'attr', None)) in ('abs', 'absolute')
                    and isinstance(e.left.args[0], ast.Name) and rep_name(e.left.args[0].id) == k)

        def is_one_minus_sq(e):
            return (isinstance(e, ast.BinOp) and isinstance(e.op, ast.Sub) and isinstance(e.left, ast.Constant) and e.left.value in (1, 1.0)
                    and is_abs_sq(e.right))

        def resolves_factor(e, depth=0):
            if is_one_minus_sq(e):
                return True
            if isinstance(e, ast.Name) and depth < 3:
                return any(resolves_factor(v, depth + 1) for v in assigns.get(e.id, []))
            return False

        def is_update(e, depth=0):
            if isinstance(e, ast.BinOp) and isinstance(e.op, ast.Mult):
                l, r = e.left, e.right
                for a, b in ((l, r), (r, l)):
                    if isinstance(a, ast.Name) and a.id == rname and resolves_factor(b):
                        return True
            if isinstance(e, ast.Name) and depth < 3:
                return any(is_update(v, depth + 1) for v in assigns.get(e.id, []))
            return False
        ok = any(is_update(v) for v in assigns.get(rname, []))
    if ok:
        rep.proved('recurrence', f.qname, '%s update' % rname, 'rho <- (1-|%s|^2)*rho with %s stored in %s[k] and %s[k]' % (kcands[0], kcands[0], aname, refname), where)
    else:
        rep.violation('recurrence', f.qname, '%s update' % rname, detail, where)
    # ---------------- guard
    n_guard = 0
    body = main.body
    for i, st in enumerate(body):
        if isinstance(st, ast.Assign) and len(st.targets) == 1 and isinstance(st.targets[0], ast.Name) and st.targets[0].id == rname:
            n_guard += 1
            found = False
            why = 'the iteration continues without testing it'
            for nxt in body[i + 1:]:
                if isinstance(nxt, ast.If) and any(isinstance(c, ast.Compare) and isinstance(c.left, ast.Name) and c.left.id == rname
                                                   and isinstance(c.ops[0], (ast.LtE, ast.Lt)) for c in ast.walk(nxt.test)) \
                        and any(isinstance(x, ast.Raise) for x in nxt.body) and not isinstance(nxt.test, ast.BoolOp):
                    found = True
                    break
                if _divides_by(nxt, rname):
                    why = 'it is used as a divisor first'
                    break
            if found:
                rep.proved('guard', f.qname, normalise(st), 'followed by rho <= 0 -> raise', where)
            else:
                rep.violation('guard', f.qname, normalise(st), 'the variance is updated but %s: a degenerate prediction error is '
                              'accepted silently' % why, where)
    # ---------------- nesting + scaling + initial variance (abstract interpretation)
    seen = set()
    n_ctx = 0
    for crit in [None] + criteria_names(prog):
        for cplx in (False, True):
            itp = C.new_interp(prog, loop_taint=False)
            itp.capture_locals[f.qname] = []
            x = C.data(cplx, phase=False)
            Aff.SYM_MIN['Po'] = 1
            v, itp = C.run_function(prog, 'burg', 'arburg', [x, IntV(Aff.sym('Po'), frozenset(['order'])), Const(crit)], {}, itp=itp)
            ctx = 'criteria=%s,%s' % (crit, 'complex' if cplx else 'real')
            n_ctx += 1
            if blocked(rep, 'scaling', f.qname, ctx, itp):
                continue
            report_conflicts(rep, 'scaling', itp, ('s',), 'arburg,' + ctx, seen)
            if isinstance(v, Tup) and len(v.items) == 3:
                check_sink(rep, 'scaling', f.qname, ctx, 'a', v.items[0], {'s': F(0)}, where, itp, ('s',), seen)
                check_sink(rep, 'scaling', f.qname, ctx, 'rho', v.items[1], {'s': F(2)}, where, itp, ('s',), seen)
                check_sink(rep, 'scaling', f.qname, ctx, 'ref', v.items[2], {'s': F(0)}, where, itp, ('s',), seen)
                rho = v.items[1]
                if crit is None and not cplx:
                    NS = sp.Symbol('N', positive=True)
                    if isinstance(rho, Num) and rho.sz is not None and sp.simplify(rho.sz - 1 / NS) == 0:
                        rep.proved('recurrence', f.qname, 'rho0 normalisation', 'size signature 1/N', where)
                    else:
                        rep.violation('recurrence', f.qname, 'rho0 normalisation', 'the variance does not carry the signature 1/N '
                                      '(mean of |x|^2): %s' % getattr(rho, 'sz', None), where)
            bad = [e for e in itp.events if e[0] == 'store' and e[5] == f.qname and 'order' in e[3]]
            if bad:
                key = ('nest', normalise(bad[0][1]))
                if key not in seen:
                    seen.add(key)
                    rep.violation('nesting', f.qname, normalise(bad[0][1]), 'a value stored in iteration k depends on the requested '
                                  'order: the order-q reflection coefficients are not the first q of the order-p ones [%s]' % ctx, where)
            else:
                rep.proved('nesting', f.qname, 'stores [%s]' % ctx, 'none depends on the order', where)
    # the in-place Levinson step-up of the AR coefficients reads the previous order's values
    from ..orderupdate import check as order_check
    cnt_ou, bad_ou = order_check(f.node)
    if bad_ou:
        for s_, arr_, idx_ in bad_ou:
            rep.violation('order-update', f.qname, normalise(s_)[:90], 'the right-hand side reads %s[%s] after it was overwritten earlier in '
                          'the same iteration: the step-up needs the previous order\'s coefficient there' % (arr_, idx_), loc(f.mod, s_))
    else:
        rep.proved('order-update', f.qname, 'in-place stores', '%d array stores inside loops examined' % cnt_ou, where)
    # integer-typed records: squares / products of the samples must be formed in floating point
    v, itp = C.run_function(prog, 'burg', 'arburg', [C.data(False, phase=False), IntV(Aff.sym('Po'), frozenset(['order'])), Const(None)], {})
    ia = [e for e in itp.events if e[0] == 'int-arith' and (e[3] == f.qname or (e[3].startswith('burg.') and e[3] in itp.trace))]
    if ia:
        for e in ia[:3]:
            key = ('int', normalise(e[1]))
            if key in seen:
                continue
            seen.add(key)
            rep.violation('integer-data', f.qname, normalise(e[1])[:80], 'a %s of the samples is formed in the samples\' own integer dtype: for '
                          'narrow integer input (int16 PCM data, counts) it wraps around, so the initial variance / error energies are '
                          'wrong or negative' % e[2], loc(f.mod, e[1]))
    else:
        rep.proved('integer-data', f.qname, 'arithmetic on the raw samples', 'no product or integer power of integer-typed samples '
                   '(conversions to float/complex come first)', where)
    # the stage update (coefficients, forward / backward errors) is unconditional in the data: a store to a recursion array inside
    # the order loop is never control-dependent on a data-valued test (only raise / break may be)
    n_su = 0
    params = [a_.arg for a_ in f.node.args.args]
    datanames = set(params[:1])

    def reads(e_):
        out = set()
        stack = [e_]
        while stack:
            n_ = stack.pop()
            if isinstance(n_, ast.Call) and isinstance(n_.func, ast.Name) and n_.func.id == 'len':
                continue
            if isinstance(n_, ast.Attribute) and n_.attr in ('size', 'shape', 'ndim', 'dtype'):
                continue
            if isinstance(n_, ast.Name) and isinstance(n_.ctx, ast.Load):
                out.add(n_.id)
            stack += list(ast.iter_child_nodes(n_))
        return out
    changed = True
    while changed:
        changed = False
        for n_ in ast.walk(f.node):
            tg, val = None, None
            if isinstance(n_, ast.Assign):
                tg, val = n_.targets, n_.value
            elif isinstance(n_, ast.AugAssign):
                tg, val = [n_.target], n_.value
            if tg is None or not (reads(val) & datanames):
                continue
            for t_ in tg:
                for x_ in ast.walk(t_):
                    if isinstance(x_, ast.Name) and isinstance(x_.ctx, ast.Store) and x_.id not in datanames:
                        datanames.add(x_.id)
                        changed = True
                    if isinstance(x_, ast.Subscript) and isinstance(x_.value, ast.Name) and x_.value.id not in datanames:
                        datanames.add(x_.value.id)
                        changed = True
    main = [n_ for n_ in f.node.body if isinstance(n_, (ast.For, ast.While))]
    bad_su = []
    for lp in main:
        for n_ in ast.walk(lp):
            if not isinstance(n_, ast.If) or not (reads(n_.test) & datanames):
                continue
            for blk in (n_.body, n_.orelse):
                stores = [x_ for b_ in blk for x_ in ast.walk(b_) if isinstance(x_, ast.Subscript) and isinstance(x_.ctx, ast.Store)
                          and isinstance(x_.value, ast.Name) and x_.value.id in datanames]
                if stores:
                    bad_su.append((n_, stores[0]))
            n_su += 1
    n_su += len(main)
    if bad_su:
        for g_, st_ in bad_su:
            rep.violation('stage-update', f.qname, 'if %s' % normalise(g_.test)[:60], 'the store %s inside the order recursion is executed only '
                          'when a data-valued test (%s) holds: for the data on the other branch the stage update (step-up of the '
                          'coefficients / forward and backward errors of Eq. 8.7) is skipped, so later stages work on errors of the '
                          'wrong stage' % (normalise(st_)[:40], normalise(g_.test)[:40]), loc(f.mod, g_))
    elif main:
        rep.proved('stage-update', f.qname, 'stores inside the order recursion', 'no store to a recursion array is control-dependent on a '
                   'data-valued test (data-derived names: %s)' % ', '.join(sorted(datanames)), where)
    rep.floor('order loops scanned for conditional stage updates', len(main), 1)
    # the stated domain (orders 1..N-2) is admitted: no guard on the sizes rejects a point of it
    from ..d1rules import admission
    grid = [{'N': n_, 'Po': p_} for n_ in range(4, 11) for p_ in range(1, n_ - 1)]
    here = {f.qname} | {q_ for q_ in itp.trace if q_.startswith('burg.')}
    n_adm, _ = admission(rep, 'admission', itp, here, grid, lambda w: 'N = %d samples, order = %d' % (w['N'], w['Po']), seen)
    rep.floor('size guards evaluated on the admissible grid', n_adm, 1)
    rep.floor('criterion exits', n_exit, 1)
    rep.floor('variance guards', n_guard, 1)
    rep.floor('contexts', n_ctx, 14)
