"""C11 — linear-prediction representations: decidable clauses (closed-form inverses, domain guards, covariance
typing of the step-up / step-down recursions, wiring, sibling agreement of the LSF pair)."""
import ast
from fractions import Fraction as F

import sympy as sp

from ..frontend import AnalysisError, loc, normalise
from ..values import *      # noqa
from .. import contexts as C
from .. import charge as Q
from ..d1rules import check_sink, report_conflicts, blocked as blocked1
from ..d4rules import arr, scal, run_d4, report_q, check_q, blocked

PROP = 'C11'
LEVEL = 'other'
FUN = {'sin': sp.sin, 'arcsin': sp.asin, 'tanh': sp.tanh, 'arctanh': sp.atanh, 'cos': sp.cos, 'arccos': sp.acos, 'tan': sp.tan,
       'arctan': sp.atan, 'sinh': sp.sinh, 'arcsinh': sp.asinh, 'sqrt': sp.sqrt, 'abs': sp.Abs, 'array': lambda x: x, 'asarray': lambda x: x,
       'log': sp.log, 'exp': sp.exp}


def to_sympy(e, var, x):
    """closed-form expression of a converter's return value in terms of its argument"""
    if isinstance(e, ast.Constant) and isinstance(e.value, (int, float)):
        return sp.nsimplify(e.value, rational=True)
    if isinstance(e, ast.Name):
        if isinstance(var, dict):
            if e.id in var:
                return var[e.id]
        elif e.id == var:
            return x
        if e.id == 'pi':
            return sp.pi
        raise AnalysisError('closed form: free name %s' % e.id)
    if isinstance(e, ast.Attribute):
        if e.attr == 'pi':
            return sp.pi
        raise AnalysisError('closed form: attribute %s' % normalise(e))
    if isinstance(e, ast.UnaryOp) and isinstance(e.op, ast.USub):
        return -to_sympy(e.operand, var, x)
    if isinstance(e, ast.BinOp):
        a, b = to_sympy(e.left, var, x), to_sympy(e.right, var, x)
        return {ast.Add: lambda: a + b, ast.Sub: lambda: a - b, ast.Mult: lambda: a * b, ast.Div: lambda: a / b,
                ast.Pow: lambda: a ** b}[type(e.op)]()
    if isinstance(e, ast.Call):
        name = e.func.attr if isinstance(e.func, ast.Attribute) else getattr(e.func, 'id', None)
        if name in FUN and len(e.args) >= 1:
            return FUN[name](to_sympy(e.args[0], var, x))
        if name in ('array', 'asarray', 'asanyarray', 'float', 'atleast_1d', 'copy', 'positive') and len(e.args) >= 1:
            return to_sympy(e.args[0], var, x)       # value-preserving conversions
        # function forms of the arithmetic operators
        if name == 'negative' and len(e.args) == 1:
            return -to_sympy(e.args[0], var, x)
        if name == 'square' and len(e.args) == 1:
            return to_sympy(e.args[0], var, x) ** 2
        if name == 'reciprocal' and len(e.args) == 1:
            return 1 / to_sympy(e.args[0], var, x)
        if name in ('add', 'subtract', 'multiply', 'divide', 'true_divide', 'power') and len(e.args) == 2:
            a_, b_ = to_sympy(e.args[0], var, x), to_sympy(e.args[1], var, x)
            return {'add': a_ + b_, 'subtract': a_ - b_, 'multiply': a_ * b_, 'divide': a_ / b_, 'true_divide': a_ / b_,
                    'power': a_ ** b_}[name]
    raise AnalysisError('closed form: unsupported %s' % normalise(e))


def closed_form(prog, name):
    f = prog.func('linear_prediction', name)
    rets = [n for n in ast.walk(f.node) if isinstance(n, ast.Return)]
    if len(rets) != 1:
        raise AnalysisError('%s: expected a single return' % name)
    x = sp.Symbol('x', real=True)
    env = {f.node.args.args[0].arg: x}
    # straight-line symbolic evaluation: assignments and augmented assignments before the return are part of the closed form
    for s in f.node.body:
        if isinstance(s, ast.Return):
            return f, to_sympy(s.value, env, x), x
        if isinstance(s, ast.Expr) and isinstance(s.value, ast.Constant):
            continue
        if isinstance(s, ast.Assign) and len(s.targets) == 1 and isinstance(s.targets[0], ast.Name):
            env[s.targets[0].id] = to_sympy(s.value, env, x)
            continue
        if isinstance(s, ast.AugAssign) and isinstance(s.target, ast.Name) and s.target.id in env:
            b = ast.BinOp(left=ast.Name(id=s.target.id, ctx=ast.Load()), op=s.op, right=s.value)
            env[s.target.id] = to_sympy(b, env, x)
            continue
        if isinstance(s, ast.If) and all(isinstance(b, ast.Raise) for b in s.body) and not s.orelse:
            continue        # domain guard (decided by the guard rule)
        if isinstance(s, ast.Assert):
            continue
        raise AnalysisError('%s: closed form: unsupported statement %s' % (name, normalise(s)[:60]))
    raise AnalysisError('%s: closed form: no return at top level' % name)


def undo_inverse_pairs(e):
    """tanh(atanh(u)) = u etc. are automatic in sympy; on the documented domain also atanh(tanh(u)) = u, asin(sin(u)) = u"""
    w = sp.Wild('w')
    e = e.replace(sp.atanh(sp.tanh(w)), w)
    e = e.replace(sp.asin(sp.sin(w)), w)
    return sp.simplify(e)


def guard_present(f, bound=1):
    """`if max(abs(k)) >= 1: raise`"""
    for n in ast.walk(f.node):
        if isinstance(n, ast.If) and any(isinstance(x, ast.Raise) for x in n.body):
            t = n.test
            if isinstance(t, ast.Compare) and isinstance(t.ops[0], (ast.GtE, ast.Gt)) and isinstance(t.comparators[0], ast.Constant) \
                    and t.comparators[0].value == bound and 'abs' in normalise(t.left) and 'max' in normalise(t.left):
                return isinstance(t.ops[0], ast.GtE)
    return None


def run(prog, rep, tier='quick'):
    rep.explanation = (
        'Decidable clauses of C11: (closed forms) lar2rc o rc2lar, rc2lar o lar2rc, is2rc o rc2is and rc2is o is2rc rewrite to the '
        'identity (the return expressions are read as closed forms and composed symbolically), and rc2lar / rc2is raise for '
        '|k| >= 1; (covariance) levup, levdown, rc2poly, ac2poly, ac2rc type-check in the modulation-charge domain (r[k]: charge k, '
        'a[k]: charge k with the leading 1 at charge 0, reflection coefficient i: charge i+1), so every conjugate of the step-up / '
        'step-down formulas is pinned, and carry the scaling exponents of their representation (polynomial and reflection '
        'coefficients 0, errors and autocorrelation 1): the inverse of an equivariant bijection must be equivariant; (wiring) '
        'ac2poly and ac2rc take their results from one LEVINSON call on the data, rc2ac = rlevinson(rc2poly(k, R0)), poly2ac / '
        'poly2rc read results 0 / 2 of rlevinson; (LSF siblings) lsf2poly and poly2lsf attach the roots z=+1 / z=-1 to the same '
        'polynomial (P: difference filter, Q: sum filter) in both parities. NOT decided: that the compositions are numerically the '
        'identity, the recursion of rlevinson (2-D charges), LSF ordering inside (0, pi).')
    rep.rule('closed-form', 'symbolic composition of the two return expressions simplifies to x')
    rep.rule('domain-guard', 'max(abs(k)) >= 1 -> raise present in rc2lar / rc2is')
    rep.rule('covariance', 'modulation-charge typing + scaling exponents of levup, levdown, rc2poly, ac2poly, ac2rc')
    rep.rule('wiring', 'call chain / result indices')
    rep.rule('lsf-order', 'lsf2poly / poly2lsf never sort complex values (the alternation of zeros between P and Q follows the frequencies)')
    rep.rule('lsf-siblings', 'factor attached to P and Q agrees between lsf2poly (convolve) and poly2lsf (deconvolve), per parity')
    # ---------------- closed forms
    n_cf = 0
    for a, b in (('rc2lar', 'lar2rc'), ('rc2is', 'is2rc')):
        fa, ea, x = closed_form(prog, a)
        fb, eb, _ = closed_form(prog, b)
        for first, second, e1, e2, f2 in ((a, b, ea, eb, fb), (b, a, eb, ea, fa)):
            n_cf += 1
            comp = undo_inverse_pairs(e2.subs(x, e1))
            c = '%s(%s(x))' % (second, first)
            if sp.simplify(comp - x) == 0:
                rep.proved('closed-form', f2.qname, c, '= x', loc(f2.mod, f2.node))
            else:
                rep.violation('closed-form', f2.qname, c, 'composition simplifies to %s, not x: the two conversions are not inverse' % comp, loc(f2.mod, f2.node))
        g = guard_present(fa)
        if g:
            rep.proved('domain-guard', fa.qname, '|k| >= 1 raises', '', loc(fa.mod, fa.node))
        else:
            rep.violation('domain-guard', fa.qname, '|k| >= 1 raises', 'reflection coefficients of modulus >= 1 are not rejected'
                          + (' (strict > lets |k| = 1 through)' if g is False else ''), loc(fa.mod, fa.node))
    # ---------------- covariance typing
    seen = set()
    L = C.symint('L', 2, 'lag')
    n_cov = 0
    lev = prog.func('levinson', 'levup')
    v, itp = run_d4(prog, 'levinson', 'levup', [arr(L.a + 1, 1, 0, True), scal(L.a + 1, True), scal(0, False, s=1)], {})
    # acur: [1, a1..ap] charge i ; knxt: reflection coefficient p+1 -> charge p+1 = len(acur)
    if not blocked(rep, 'covariance', lev.qname, 'complex', itp):
        nconf = report_q(rep, 'covariance', itp, {lev.qname}, 'complex', seen)
        n_cov += 1
        if isinstance(v, Tup):
            check_q(rep, 'covariance', lev.qname, 'complex', 'anxt', v.items[0], Q.lin(1, Aff(0)), loc(lev.mod, lev.node), nconf)
            check_q(rep, 'covariance', lev.qname, 'complex', 'enxt', v.items[1], Aff(0), loc(lev.mod, lev.node), nconf)
    ld = prog.func('levinson', 'levdown')
    v, itp = run_d4(prog, 'levinson', 'levdown', [arr(L.a + 1, 1, 0, True), scal(0, False, s=1)], {})
    if not blocked(rep, 'covariance', ld.qname, 'complex', itp):
        nconf = report_q(rep, 'covariance', itp, {ld.qname}, 'complex', seen)
        n_cov += 1
        if isinstance(v, Tup):
            check_q(rep, 'covariance', ld.qname, 'complex', 'acur', v.items[0], Q.lin(1, Aff(0)), loc(ld.mod, ld.node), nconf)
            check_q(rep, 'covariance', ld.qname, 'complex', 'ecur', v.items[1], Aff(0), loc(ld.mod, ld.node), nconf)
    for fname, sinks in (('ac2poly', [('a', 0, Q.lin(1, Aff(0)), 0), ('e', 1, Aff(0), 1)]),
                         ('ac2rc', [('k', 0, Q.lin(1, Aff(1)), 0), ('r0', 1, Aff(0), 1)])):
        f = prog.func('linear_prediction', fname)
        r = arr(L.a + 1, 1, 0, True, s=1)
        v, itp = run_d4(prog, 'linear_prediction', fname, [r], {})
        if blocked(rep, 'covariance', f.qname, 'complex', itp):
            continue
        nconf = report_q(rep, 'covariance', itp, {f.qname, 'levinson.LEVINSON'}, fname, seen)
        n_cov += 1
        if isinstance(v, Tup):
            for name, i, want, sdeg in sinks:
                check_q(rep, 'covariance', f.qname, 'complex', name, v.items[i], want, loc(f.mod, f.node), nconf)
        # scaling exponents
        rr = Num({**zero_deg(), 's': F(1)}, (L.a + 1,), True)
        v2, itp2 = C.run_function(prog, 'linear_prediction', fname, [rr], {})
        if isinstance(v2, Tup):
            report_conflicts(rep, 'covariance', itp2, ('s',), fname, seen)
            for name, i, want, sdeg in sinks:
                check_sink(rep, 'covariance', f.qname, 'scaling', name, v2.items[i], {'s': F(sdeg)}, loc(f.mod, f.node), itp2, ('s',), seen)
    # rc2poly: k_i charge i+1 ; r0 charge 0
    f = prog.func('linear_prediction', 'rc2poly')
    v, itp = run_d4(prog, 'linear_prediction', 'rc2poly', [arr(L.a, 1, 1, True), scal(0, False, s=1)], {})
    if not blocked(rep, 'covariance', f.qname, 'complex', itp):
        nconf = report_q(rep, 'covariance', itp, {f.qname, 'levinson.levup'}, 'rc2poly', seen)
        n_cov += 1
        # the polynomial grows inside the loop (a length invariant is out of reach): the peeled first iteration and the
        # separately typed levup carry the obligation; only the absence of conflicts is required here
        if not nconf:
            rep.proved('covariance', f.qname, 'rc2poly first step-up [complex]', 'levup(a, kr[1], e[0]) is charge-consistent', loc(f.mod, f.node))
    # rlevinson (step-down + autocorrelation recursion): the polynomials shrink and the lag vector grows inside the loops, so the
    # function is typed on bounded instances -- concrete orders, loops executed iteration by iteration -- with 2-D charges
    # for the matrix U.  A conjugate in the wrong place is the same statement at every order: it shows at order 3.
    rl = prog.func('levinson', 'rlevinson')
    n_rl = 0
    for order in (3, 4):
        itp = C.new_interp(prog, d4=True)
        itp.unroll = True
        v, itp = C.run_function(prog, 'levinson', 'rlevinson', [arr(Aff(order + 1), 1, 0, True), scal(0, False, s=1)], {}, itp=itp)
        ctx = 'order %d' % order
        if blocked(rep, 'covariance', rl.qname, ctx, itp):
            continue
        n_rl += 1
        nconf = report_q(rep, 'covariance', itp, {rl.qname, ld.qname}, 'rlevinson,' + ctx, seen)
        if isinstance(v, Tup) and len(v.items) == 4:
            where_rl = loc(rl.mod, rl.node)
            check_q(rep, 'covariance', rl.qname, ctx, 'R', v.items[0], Q.lin(1, Aff(0)), where_rl, nconf)
            check_q(rep, 'covariance', rl.qname, ctx, 'kr', v.items[2], Q.lin(1, Aff(1)), where_rl, nconf)
            check_q(rep, 'covariance', rl.qname, ctx, 'e', v.items[3], Aff(0), where_rl, nconf)
            U = v.items[1]
            uq = U.q if isinstance(U, Num) else None
            if Q.is_cols(uq):
                cand = Q.lin2(1, -1, Aff(0))
                if len(uq[1]) == order and Q.cols_consistent(uq, cand):
                    rep.proved('covariance', rl.qname, 'U [%s]' % ctx, 'entry (i,j) has charge i-j in all %d stored columns' % len(uq[1]), where_rl)
                else:
                    rep.violation('covariance', rl.qname, 'U [%s]' % ctx, 'the prediction-polynomial matrix has column charges %s; required '
                                  'i-j (conjugated, reversed polynomial of order j in column j)' % Q.show(uq), where_rl)
            elif not nconf:
                rep.undecided('covariance', rl.qname, 'U [%s]' % ctx, 'charges of U not derivable (%s)' % Q.show(uq), where_rl)
        elif not nconf:
            rep.undecided('covariance', rl.qname, ctx, 'no (R, U, kr, e) returned', loc(rl.mod, rl.node))
    rep.floor('rlevinson instances typed', n_rl, 2)
    # ---------------- wiring
    n_w = 0
    levq = 'levinson.LEVINSON'
    for fname, idx in (('ac2poly', (0, 1)), ('ac2rc', (2,))):
        f = prog.func('linear_prediction', fname)
        itp = C.new_interp(prog)
        itp.watch[levq] = []
        r = Num({**zero_deg(), 's': F(1)}, (L.a + 1,), True, taint=frozenset(['r']))
        v, itp = C.run_function(prog, 'linear_prediction', fname, [r], {}, itp=itp)
        calls = itp.watch[levq]
        n_w += 1
        if blocked1(rep, 'wiring', f.qname, fname, itp):
            continue            # an operation the analysis does not know sits on the way: undecided, not a finding
        ok = len(calls) == 1 and isinstance(calls[0]['params'].get('r'), Num) and calls[0]['params']['r'].uid == r.uid
        if ok and isinstance(v, Tup):
            ret = calls[0]['ret']
            if fname == 'ac2rc':
                ok = getattr(v.items[0], 'uid', 1) == getattr(ret.items[2], 'uid', 2)
            else:
                ok = getattr(v.items[1], 'uid', 1) == getattr(ret.items[1], 'uid', 2)
        if ok:
            rep.proved('wiring', f.qname, 'one LEVINSON call on the autocorrelation', '', loc(f.mod, f.node))
        else:
            rep.violation('wiring', f.qname, 'one LEVINSON call on the autocorrelation', 'results are not taken from LEVINSON(data)', loc(f.mod, f.node))
    f = prog.func('linear_prediction', 'rc2ac')
    itp = C.new_interp(prog)
    itp.watch['levinson.rlevinson'] = []
    itp.watch['linear_prediction.rc2poly'] = []
    k = Num(zero_deg(), (L.a,), True, taint=frozenset(['k']))
    v, itp = C.run_function(prog, 'linear_prediction', 'rc2ac', [k, C.deg0(label='R0')], {}, itp=itp)
    n_w += 1
    c1, c2 = itp.watch['linear_prediction.rc2poly'], itp.watch['levinson.rlevinson']
    ok = len(c1) == 1 and len(c2) == 1 and isinstance(c1[0]['ret'], Tup) and \
        getattr(c2[0]['params'].get('a'), 'uid', 1) == getattr(c1[0]['ret'].items[0], 'uid', 2) and \
        getattr(c2[0]['params'].get('efinal'), 'uid', 1) == getattr(c1[0]['ret'].items[1], 'uid', 2)
    if ok and isinstance(c2[0]['ret'], Tup):
        ok = getattr(v, 'uid', 1) == getattr(c2[0]['ret'].items[0], 'uid', 2)
    if ok:
        rep.proved('wiring', f.qname, 'rlevinson(rc2poly(k, R0))[0]', '', loc(f.mod, f.node))
    else:
        rep.violation('wiring', f.qname, 'rlevinson(rc2poly(k, R0))[0]', 'rc2ac is not the step-down of the step-up polynomial', loc(f.mod, f.node))
    for fname, want_idx in (('poly2ac', 0), ('poly2rc', 2)):
        f = prog.func('linear_prediction', fname)
        n_w += 1
        # value flow (not syntax): the arguments reach rlevinson unchanged, the result is its component want_idx
        params = [a.arg for a in f.node.args.args]
        itp = C.new_interp(prog)
        itp.watch['levinson.rlevinson'] = []
        pa = Num(zero_deg(), (L.a + 1,), True, taint=frozenset(['a']))
        pe = C.deg0(label='efinal')
        v, itp = C.run_function(prog, 'linear_prediction', fname, [pa, pe], {}, itp=itp)
        cw_ = itp.watch['levinson.rlevinson']
        ok = len(cw_) == 1 and getattr(cw_[0]['params'].get('a'), 'uid', 1) == pa.uid \
            and getattr(cw_[0]['params'].get('efinal'), 'uid', 1) == pe.uid and isinstance(cw_[0]['ret'], Tup) \
            and getattr(v, 'uid', 1) == getattr(cw_[0]['ret'].items[want_idx], 'uid', 2)
        if ok:
            rep.proved('wiring', f.qname, 'rlevinson(%s)[%d]' % (', '.join(params), want_idx), '', loc(f.mod, f.node))
        else:
            rep.violation('wiring', f.qname, 'rlevinson(...)[%d]' % want_idx, 'wrong result of the step-down recursion is returned', loc(f.mod, f.node))
    # ---------------- LSF siblings
    def factors(fname, op):
        f = prog.func('linear_prediction', fname)
        out = {}
        for n in ast.walk(f.node):
            if isinstance(n, ast.If) and isinstance(n.test, ast.BinOp) and isinstance(n.test.op, ast.Mod):
                for parity, body in (('odd', n.body), ('even', n.orelse)):
                    for st in body:
                        for c in ast.walk(st):
                            if isinstance(c, ast.Call) and (getattr(c.func, 'attr', None) or getattr(c.func, 'id', None)) == op:
                                poly = normalise(c.args[0])
                                fac = [getattr(e, 'value', None) if not isinstance(e, ast.UnaryOp) else -e.operand.value for e in c.args[1].elts]
                                out[(parity, poly[0])] = fac
        return f, out
    f1, a1 = factors('lsf2poly', 'convolve')
    f2, a2 = factors('poly2lsf', 'deconvolve')

    def used_factors(fname, kind, odd):
        """multiset of the constant polynomial factors the function applies for one parity of the order (value flow: the
        function is run abstractly with a vector whose length has that parity)"""
        Aff.SYM_MIN['j'] = 2
        ln = Aff(1 if odd else 0, {'j': F(2)}) + (1 if fname == 'poly2lsf' else 0)
        v_, itp_ = C.run_function(prog, 'linear_prediction', fname, [Num(zero_deg(), (ln,), False, taint=frozenset(['arg']))], {})
        return sorted(e[3] for e in itp_.events if e[0] == kind and e[4] == 'linear_prediction.' + fname and e[3] is not None)
    # the zeros on the unit circle are dealt alternately to P and Q in the order of the frequencies: a sort of the *complex* zeros
    # orders them by real part, i.e. by decreasing angle on the upper half circle
    n_sort = 0
    for fname_ in ('lsf2poly', 'poly2lsf'):
        for odd in (True, False):
            Aff.SYM_MIN['j'] = 2
            ln_ = Aff(1 if odd else 0, {'j': F(2)}) + (1 if fname_ == 'poly2lsf' else 0)
            fx = prog.func('linear_prediction', fname_)
            v_, itp_ = C.run_function(prog, 'linear_prediction', fname_, [Num(zero_deg(), (ln_,), False, taint=frozenset(['arg']))], {})
            n_sort += 1
            cs = [e for e in itp_.events if e[0] == 'complex-sort' and e[2].startswith('linear_prediction.')]
            key = ('complex-sort', fname_)
            if cs and key not in seen:
                seen.add(key)
                rep.violation('lsf-order', fx.qname, normalise(cs[0][1])[:60], 'complex values are sorted: numpy orders them by real part '
                              '(decreasing angle on the upper half of the unit circle), so the zeros reach P and Q in the reverse order '
                              'of the line spectral frequencies -- for even orders the two root sets are exchanged',
                              loc(fx.mod, cs[0][1]))
            elif not cs and (key + ('ok',)) not in seen:
                seen.add(key + ('ok',))
                rep.proved('lsf-order', fx.qname, 'ordering of the unit-circle zeros', 'no sort of complex values', loc(fx.mod, fx.node))
    n_l = 0
    if not a1 or not a2 or set(a1) != set(a2):
        # the factors are not written as literal arguments inside an `if p % 2` (or only on one side): compare the factors
        # each direction really applies, per parity
        a1, a2 = {}, {}
        for odd in (True, False):
            m1, m2 = used_factors('lsf2poly', 'convolve', odd), used_factors('poly2lsf', 'deconvolve', odd)
            par = 'odd' if odd else 'even'
            n_l += 1
            if m1 and m1 == m2:
                rep.proved('lsf-siblings', f1.qname, '%s order, factors' % par, 'the same known-root factors %s in both directions' % (m1,), loc(f1.mod, f1.node))
            elif not m1 or not m2:
                rep.undecided('lsf-siblings', f1.qname, '%s order, factors' % par, 'known-root factors not derivable (lsf2poly %s, poly2lsf %s)' % (m1, m2), loc(f1.mod, f1.node))
            else:
                rep.violation('lsf-siblings', f1.qname, '%s order, factors' % par, 'lsf2poly multiplies by %s but poly2lsf divides by %s: the '
                              'two conversions are not inverse for this parity' % (m1, m2), loc(f1.mod, f1.node))
        n_l += 2
    for key in sorted(set(a1) | set(a2)):
        n_l += 1
        if a1.get(key) == a2.get(key):
            rep.proved('lsf-siblings', f1.qname, '%s order, %s' % key, 'factor %s in both directions' % (a1.get(key),), loc(f1.mod, f1.node))
        else:
            rep.violation('lsf-siblings', f1.qname, '%s order, %s' % key, 'lsf2poly multiplies %s by %s but poly2lsf divides it by %s: the '
                          'two conversions are not inverse for this parity' % (key[1], a1.get(key), a2.get(key)), loc(f1.mod, f1.node))
    rep.floor('closed-form compositions', n_cf, 4)
    # abstract runs of the element-wise converters on a real ndarray: their writes are examined by the D8 rule (d8rules.py)
    for name in ('rc2lar', 'lar2rc', 'rc2is', 'is2rc'):
        C.run_function(prog, 'linear_prediction', name, [C.data(False, phase=False, label='k')])
    rep.floor('covariance-typed converters', n_cov, 5)
    rep.floor('wiring obligations', n_w, 5)
    rep.floor('lsf sibling rows', n_l, 3)
