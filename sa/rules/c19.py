"""C19 — multitaper estimates are weighted means of tapered periodograms (decidable clauses)."""
import ast
import os
import re
from fractions import Fraction as F

from ..frontend import AnalysisError, loc, normalise, REPO_SRC
from ..values import *      # noqa
from .. import contexts as C
from .. import segmap as S
from ..segmap import Seg
from ..d1rules import unknown_blocking, check_sink, report_conflicts, blocked, psd_classes, ctor_args, PSD_FIELD

PROP = 'C19'
LEVEL = 'other'
CTYPE = {'int': 'c_int', 'float': 'c_float', 'double': 'c_double'}


def c_prototype(src_dir):
    """parameter list of multitap in src/cpp/mydpss.c"""
    path = os.path.join(os.path.dirname(os.path.dirname(src_dir.rstrip('/'))), 'src', 'cpp', 'mydpss.c')
    if not os.path.exists(path):
        path = os.path.join(os.path.dirname(src_dir.rstrip('/')), 'cpp', 'mydpss.c')
    if not os.path.exists(path):
        return None, path
    txt = open(path, errors='replace').read()
    m = re.search(r'^\s*multitap\s*\(([^)]*)\)\s*\n\s*\{', txt, re.M)
    if not m:
        m = re.search(r'multitap\s*\(([^)]*)\)', txt)
    if not m:
        return None, path
    params = []
    for p in m.group(1).split(','):
        p = p.strip()
        ptr = '*' in p
        toks = p.replace('*', ' ').split()
        params.append((toks[0], ptr, toks[-1]))
    layout = re.search(r'tapers\[\s*i\s*\+\s*kk\s*\]', txt) is not None and re.search(r'kk\s*=\s*\(?\s*k\s*\)?\s*\*\s*num_points', txt) is not None
    return (params, layout), path


def run(prog, rep, tier='quick'):
    rep.explanation = (
        'Decidable clauses of C19 for all data, NW, k, NFFT: (eigenspectra) pmtm returns fft(tapers^T * x, NFFT) along the time axis '
        '(shape k x NFFT, amplitude exponent 1, built from the tapers and the data only); (weights) unity: ones(k,1); eigen: '
        'eigenvalue_i/(i+1), built from the eigenvalues only; adapt: real, amplitude exponent 0; (roles) tapers and eigenvalues keep '
        'their roles from dpss\'s return order and from the e / v arguments; (mean) the class averages weight*|eigenspectrum|^2 '
        'over the *taper* axis in both layouts, folds real data as 2 x prefix (with C04) and stores a real, non-negative PSD for '
        'real and complex data and all three methods; (forwarding) NW, k, e, v, method, NFFT reach pmtm unchanged; (FFI) the '
        'ctypes call of dpss matches the C prototype multitap(int,int,double*,float,double*,double*), buffer sizes k, k*N, k and '
        'the k x N row layout. NOT decided: Thomson\'s adaptive formula and its [0, 1/lambda] bound (numerical fixpoint).')
    rep.rule('eigenspectra', 'first result = fft(<tapers>.T * <data>, NFFT): shape (k, NFFT), s=1, depends on tapers and data')
    rep.rule('weights', 'per method: shape / dependence / exponent of the second result')
    rep.rule('convergence', 'adapt: the two operands of the difference in the while test never denote the same storage (D8 memory identity), on entry and after a pass of the body')
    rep.rule('roles', 'third result depends on the eigenvalue source only; eigenspectra on the taper source, not the eigenvalues')
    rep.rule('mean', 'reduce over the taper axis; stored PSD real and non-negative')
    rep.rule('forwarding', 'pmtm parameters are the constructor arguments')
    rep.rule('ffi', 'argument types/order/buffer sizes/layout of the multitap call')
    f = prog.func('mtm', 'pmtm')
    where = loc(f.mod, f.node)
    seen = set()
    n_f = 0
    n_conv = 0
    K = lambda: C.symint('K', 1, 'k')
    for cplx in (False, True):
        for method in ('unity', 'eigen', 'adapt'):
            for given in (False, True, 'both'):
                kw = {'NFFT': C.nfft('even'), 'method': Const(method)}
                x = C.data(cplx, phase=False)
                if given:
                    e = C.deg0((K().a,), False, 'E')
                    v = C.deg0((C.N_SYM, K().a), False, 'V')
                    kw.update(e=e, v=v)
                    tap_l, ev_l = 'V', 'E'
                    if given == 'both':
                        # NW passed along with precomputed tapers (the usual way to document them): the supplied tapers are used
                        kw.update(NW=C.deg0(label='NW'), k=K())
                else:
                    kw.update(NW=C.deg0(label='NW'), k=K())
                    tap_l, ev_l = 'tapers', 'eigenvalues'
                itp = C.new_interp(prog)
                if given is not True:
                    def dp(itp_, a, k_, n_, s_):
                        r = C.dpss_summary(itp_, a, k_, n_, s_)
                        r.items[0].taint = r.items[0].taint | frozenset(['tapers'])
                        r.items[1].taint = r.items[1].taint | frozenset(['eigenvalues'])
                        return r
                    itp.summaries['mtm.dpss'] = dp
                if method == 'adapt':
                    for qn_ in ['mtm.pmtm'] + ['mtm.' + n_ for n_ in prog.modules['mtm'].funcs if n_.startswith('_')]:
                        itp.capture_locals[qn_] = '*'
                out, itp = C.run_function(prog, 'mtm', 'pmtm', [x], kw, itp=itp)
                ctx = '%s,%s,%s' % (method, 'complex' if cplx else 'real', {False: 'computed', True: 'e/v given', 'both': 'e/v and NW given'}[given])
                if method == 'adapt' and x.shape is not None and x.shape[0] is not None:
                    # Thomson's broadband term uses sigma^2 = the MEAN SQUARE of the data: a scalar data energy (degree 2, no taper,
                    # eigenvalue or NFFT dependence) that carries an explicit size normalisation is normalised by exactly N
                    import sympy as sp_
                    nsym = x.shape[0].to_sympy()
                    for qn_, envs in itp.captured.items():
                        for env_ in envs:
                            for nm_, v_ in env_.items():
                                if not (isinstance(v_, Num) and v_.shape == () and not v_.zero and deq(v_.deg['s'], 2) is True
                                        and dzero(v_.deg['nfft']) is True and 'x' in v_.taint and tap_l not in v_.taint
                                        and ev_l not in v_.taint and v_.sz is not None and v_.sz is not sp_.S.One):
                                    continue
                                szs = sp_.simplify(v_.sz * nsym)
                                key_ = ('mean-square', qn_, nm_)
                                if szs == 1 or key_ in seen:
                                    continue
                                if any(str(s_) not in (str(nsym),) for s_ in v_.sz.free_symbols):
                                    continue        # another size (NFFT, number of tapers) enters: not the plain mean square
                                seen.add(key_)
                                rep.violation('weights', qn_, 'adapt noise floor: %s [%s]' % (nm_, ctx), 'the data energy is normalised by '
                                              '%s, the mean square of an N-sample record divides by N: the broadband term (1 - eigenvalue) * '
                                              'sigma^2 of Thomson\'s weights is off by the ratio' % sp_.simplify(1 / v_.sz), where)
                n_f += 1
                if blocked(rep, 'eigenspectra', f.qname, ctx, itp):
                    continue
                if not (isinstance(out, Tup) and len(out.items) == 3):
                    rep.undecided('eigenspectra', f.qname, ctx, 'no triple returned', where)
                    continue
                sk, w, ev = out.items
                report_conflicts(rep, 'eigenspectra', itp, ('s',), 'pmtm,' + ctx, seen)
                # eigenspectra
                ok = isinstance(sk, Num) and sk.shape is not None and len(sk.shape) == 2 and sk.shape[0] == K().a \
                    and sk.shape[1] == kw['NFFT'].a and deq(sk.deg['s'], 1)
                t = taint_of(sk)
                okdep = tap_l in t and 'x' in t and ev_l not in t
                ff = [e_ for e_ in itp.events if e_[0] == 'fft' and e_[1] is not None]
                if ok and okdep:
                    rep.proved('eigenspectra', f.qname, ctx, 'shape (k, NFFT), exponent 1, from tapers and data', where)
                else:
                    rep.violation('eigenspectra', f.qname, ctx, 'the first result is not the NFFT-point DFT of taper*data per taper: '
                                  'shape %s, exponent %s, depends on %s' % (getattr(sk, 'shape', None), getattr(sk, 'deg', {}).get('s'),
                                                                            sorted(str(z) for z in t if not str(z).startswith('V:'))), where)
                # roles
                if given:
                    srt = [e_ for e_ in itp.events if e_[0] == 'sort' and 'E' in e_[2] and 'V' not in e_[2] and e_[3].startswith('mtm.')]
                    if srt and ('sort', normalise(srt[0][1])) not in seen:
                        seen.add(('sort', normalise(srt[0][1])))
                        rep.violation('roles', srt[0][3], normalise(srt[0][1])[:60], 'the supplied eigenvalues are sorted on their own: eigenvalue i '
                                      'no longer belongs to taper i unless the caller\'s tapers happen to be in that order (weights and the '
                                      'returned eigenvalues are then those of other tapers) [%s]' % ctx, loc('mtm', srt[0][1]))
                te = taint_of(ev)
                if ev_l in te and tap_l not in te and 'x' not in te:
                    rep.proved('roles', f.qname, ctx, 'eigenvalues from %s' % ev_l, where)
                else:
                    rep.violation('roles', f.qname, ctx, 'the returned eigenvalues depend on %s (tapers and eigenvalues swapped, or data '
                                  'leaks in)' % sorted(str(z) for z in te), where)
                # weights
                tw = taint_of(w)
                wn = tonum(w) if not isinstance(w, (Tup, SeqV)) else None
                if method == 'unity':
                    okw = wn is not None and wn.shape is not None and len(wn.shape) == 2 and wn.shape[0] == K().a and wn.shape[1] == Aff(1) \
                        and not ({'x', ev_l, tap_l} & tw) and deq(wn.deg['s'], 0)
                    why = 'ones(k, 1)'
                elif method == 'eigen':
                    okw = wn is not None and wn.shape is not None and len(wn.shape) == 2 and wn.shape[0] == K().a and wn.shape[1] == Aff(1) \
                        and ev_l in tw and 'x' not in tw and tap_l not in tw and deq(wn.deg['s'], 0)
                    why = 'eigenvalue_i/(i+1), shape (k,1)'
                else:
                    okw = wn is not None and deq(wn.deg['s'], 0) and (wn.cplx is False or wn.rv) and wn.shape is not None \
                        and len(wn.shape) == 2 and wn.shape[0] == kw['NFFT'].a and wn.shape[1] == K().a
                    why = 'real, scale-free, shape (NFFT, k)'
                if method == 'adapt':
                    # Thomson's weights S/(lambda*S + (1-lambda)*sigma^2) are a smooth function of the spectrum, bounded by 1/lambda: no
                    # element-wise bound other than `>= 0` is applied to data-dependent values on the way to the weights
                    cl = [e_ for e_ in itp.events if e_[0] == 'clip' and 'x' in e_[4] and e_[5].startswith('mtm.')
                          and not (e_[2] == 'lower' and e_[3] is not None and e_[3] <= 0)]
                    if cl and ('clip', normalise(cl[0][1])) not in seen:
                        seen.add(('clip', normalise(cl[0][1])))
                        rep.violation('weights', cl[0][5], normalise(cl[0][1])[:60], 'the adaptive weights pass through an element-wise %s bound%s: '
                                      'Thomson\'s formula is not clipped (its values range up to 1/eigenvalue), so wherever the bound is active '
                                      'the weights and the spectrum the iteration converges to are not Thomson\'s [%s]'
                                      % (cl[0][2], '' if cl[0][3] is None else ' at %s' % cl[0][3], ctx), loc('mtm', cl[0][1]))
                    # convergence test of the adaptive iteration: previous and new estimate are distinct buffers
                    # the iteration may sit in pmtm itself or in a private helper it calls
                    fnodes = [f.node]
                    for qn in sorted(set(itp.trace)):
                        if qn.startswith('mtm.') and qn != f.qname and qn.count('.') == 1 and qn.split('.')[1] in prog.modules['mtm'].funcs:
                            fnodes.append(prog.modules['mtm'].funcs[qn.split('.')[1]])
                    wl = [n for fn_ in fnodes for n in ast.walk(fn_) if isinstance(n, ast.While)]
                    subs = [b for w_ in wl for b in ast.walk(w_.test) if (isinstance(b, ast.BinOp) and isinstance(b.op, ast.Sub)) or
                            (isinstance(b, ast.Call) and len(b.args) >= 2 and
                             getattr(b.func, 'attr', getattr(b.func, 'id', None)) in ('allclose', 'isclose', 'array_equal', 'array_equiv'))]
                    ids = set((normalise(b), b.lineno) for b in subs)
                    same = [e_ for e_ in itp.events if e_[0] == 'self-diff' and (normalise(e_[1]), e_[1].lineno) in ids]
                    n_conv += 1
                    if not subs:
                        rep.undecided('convergence', f.qname, ctx, 'no difference of two estimates in a while test of pmtm', where)
                    elif same:
                        rep.violation('convergence', f.qname, ctx, 'the convergence test `%s` subtracts a buffer from itself: after the first '
                                      'pass both names are bound to the same storage, the difference is identically zero and the iteration '
                                      'always stops after one pass (the weights are not those of the converged spectrum)'
                                      % normalise(same[0][1]), loc(f.mod, same[0][1]))
                    else:
                        rep.proved('convergence', f.qname, ctx, 'the while test compares two distinct buffers (%d differences examined, '
                                   'also on the state reached after one pass of the body)' % len(subs), where)
                cen = sorted(l for l in tw if isinstance(l, str) and l.startswith('CEN:')) if method == 'adapt' else []
                if cen:
                    cn, cq = itp.cen_nodes[cen[0]]
                    okw = None
                    rep.violation('weights', cq or f.qname, 'adapt noise floor: %s [%s]' % (normalise(cn)[:60], ctx), 'the adaptive weights are computed '
                                  'from a moment about the mean of the data: Thomson\'s broadband term (1 - eigenvalue) * sigma^2 uses the mean '
                                  'square of the data, the two differ by |mean|^2', loc((cq or f.qname).split('.')[0], cn))
                if okw is None:
                    pass
                elif okw:
                    rep.proved('weights', f.qname, ctx, why, where)
                else:
                    rep.violation('weights', f.qname, ctx, 'weights are not %s: shape %s, dtype complex=%s, depend on %s' % (
                        why, getattr(wn, 'shape', None), getattr(wn, 'cplx', None), sorted(str(z) for z in tw if not str(z).startswith('V:'))), where)
    # ---------------- class
    cls = prog.cls('mtm', 'MultiTapering')
    cw = loc(cls.mod, cls.node)
    n_c = 0
    for cplx in (False, True):
        for method in ('unity', 'eigen', 'adapt'):
            for par in ('even', 'odd'):
                itp = C.new_interp(prog)
                itp.watch[f.qname] = []
                kw = ctor_args(cls, cplx, par, scale=False, overrides={'method': Const(method)})
                ref, obj, itp, ok = C.run_class(prog, cls.mod, cls.name, [], kw, itp=itp)
                ctx = '%s,%s,NFFT %s' % (method, 'complex' if cplx else 'real', par)
                n_c += 1
                if blocked(rep, 'mean', cls.qname, ctx, itp):
                    continue
                psd = obj.f.get(PSD_FIELD) if obj is not None else None
                if not ok or not isinstance(psd, Num):
                    rep.undecided('mean', cls.qname, ctx, 'no PSD stored', cw)
                    continue
                # the averaging may sit in __call__ itself or in a private method of the class it calls
                own = {cls.qname + '.__call__'} | {q_ for q_ in itp.trace if q_.startswith(cls.qname + '.')}
                red = [e for e in itp.events if e[0] == 'reduce' and e[4] is not None and len(e[4]) == 2 and e[5] in own]
                okred = bool(red) and all(e[4][e[3]] == kw['k'].a for e in red)
                okreal = (psd.cplx is False or psd.rv) and psd.nonneg
                if okred and okreal:
                    rep.proved('mean', cls.qname, ctx, 'mean over the taper axis; PSD real and >= 0', cw)
                else:
                    rep.violation('mean', cls.qname, ctx, ('the mean is not taken over the taper axis (reduced axis length %s, k = %s)' % (
                        [str(e[4][e[3]]) for e in red], kw['k'].a) if not okred else
                        'the stored PSD is not provably real and non-negative (complex=%s, real-valued=%s, >=0: %s)' % (psd.cplx, psd.rv, psd.nonneg)), cw)
                calls = list(itp.watch[f.qname])
                if method == 'unity' and par == 'even':
                    # the fold of real data follows the DATA, not the layout currently selected: the same object re-evaluated
                    # after `sides` was switched stores an estimate of the same (folded / unfolded) length
                    from ..core import St, PathEnd
                    st2 = St({}, dict(itp.final_heap))
                    callm = cls.find_method('__call__')
                    try:
                        itp.setattr_ref(ref, 'sides', Const('twosided'), st2, cls.node)
                        itp.call_function(callm, [ref], {}, st2, callm.node)
                        obj2 = st2.heap.get(ref.oid)
                    except PathEnd:
                        obj2 = None
                    psd2 = obj2.f.get(PSD_FIELD) if obj2 is not None else None
                    ctx2 = ctx + ', evaluated again after sides was switched'
                    if isinstance(psd2, Num) and psd2.shape is not None and psd.shape is not None and len(psd2.shape) == 1 \
                            and psd2.shape[0] is not None and psd.shape[0] is not None:
                        if psd2.shape[0] == psd.shape[0]:
                            rep.proved('mean', cls.qname, ctx2, 'the estimate has the same length (%s)' % psd.shape[0], cw)
                        else:
                            rep.violation('mean', cls.qname, ctx2, 'the estimate stored by __call__ has %s values, the first evaluation of the '
                                          'same data gave %s: whether the spectrum of real data is doubled and folded depends on the layout '
                                          'selected before the call, not on the data' % (psd2.shape[0], psd.shape[0]), cw)
                    elif not unknown_blocking(itp):
                        rep.undecided('mean', cls.qname, ctx2, 'no estimate of known length stored by the second call', cw)
                if len(calls) == 1:
                    p = calls[0]['params']
                    bad = []
                    for a_, b_ in (('NW', 'NW'), ('k', 'k'), ('NFFT', 'NFFT'), ('method', 'method')):
                        pv, cv = p.get(a_), kw.get(b_)
                        same = (isinstance(pv, Num) and isinstance(cv, Num) and pv.uid == cv.uid) or \
                            (isinstance(pv, IntV) and isinstance(cv, IntV) and pv.a == cv.a) or \
                            (isinstance(pv, Const) and isinstance(cv, Const) and pv.v == cv.v)
                        if not same:
                            bad.append(a_)
                    for a_ in ('e', 'v'):
                        pv = p.get(a_)
                        if not (isinstance(pv, Const) and pv.v is None):
                            bad.append(a_)
                    if not (isinstance(p.get('x'), Num) and 'x' in p['x'].taint):
                        bad.append('data')
                    if bad:
                        rep.violation('forwarding', cls.qname, ctx, 'constructor arguments %s do not reach pmtm unchanged' % bad, cw)
                    else:
                        rep.proved('forwarding', cls.qname, ctx, 'data, NW, k, e, v, method, NFFT forwarded', cw)
                else:
                    rep.undecided('forwarding', cls.qname, ctx, 'expected one pmtm call', cw)
    # ---------------- FFI wiring of dpss
    src_dir = os.environ.get('SPECTRUM_SRC', REPO_SRC)
    proto, cpath = c_prototype(src_dir)
    d = prog.func('mtm', 'dpss')
    dw = loc(d.mod, d.node)
    if proto is None:
        rep.undecided('ffi', d.qname, 'prototype', 'C prototype of multitap not found at %s' % cpath, dw)
    else:
        params, layout = proto
        call = None
        for n in ast.walk(d.node):
            if isinstance(n, ast.Call) and isinstance(n.func, ast.Attribute) and n.func.attr == 'multitap':
                call = n
        if call is None:
            rep.undecided('ffi', d.qname, 'call', 'multitap call not found', dw)
        else:
            bad = []
            if len(call.args) != len(params):
                bad.append('%d arguments for a %d-parameter prototype' % (len(call.args), len(params)))
            allocs = {}
            for n in ast.walk(d.node):
                if isinstance(n, ast.Assign) and isinstance(n.targets[0], ast.Name) and isinstance(n.value, ast.Call) \
                        and getattr(n.value.func, 'attr', '') == 'zeros':
                    allocs[n.targets[0].id] = normalise(n.value.args[0])
            want_sizes = {'lam': 'k', 'tapers': 'k * N', 'tapsum': 'k'}
            for a, (ctype, ptr, pname) in zip(call.args, params):
                txt = normalise(a)
                if ptr:
                    m = re.match(r'(\w+)\.ctypes\.data_as\(c_void_p\)$', txt)
                    if not m:
                        bad.append('%s: pointer parameter receives %s' % (pname, txt))
                        continue
                    buf = m.group(1)
                    key = {'el': 'lam'}.get(pname, pname)
                    if buf != key:
                        bad.append('pointer %s receives buffer %s' % (pname, buf))
                    if allocs.get(buf) != want_sizes.get(key):
                        bad.append('buffer %s has size %s, the routine writes %s' % (buf, allocs.get(buf), want_sizes.get(key)))
                else:
                    want = CTYPE.get(ctype)
                    if not txt.startswith((want or '?') + '('):
                        bad.append('%s %s receives %s' % (ctype, pname, txt))
            if not any(isinstance(n, ast.Call) and getattr(n.func, 'attr', '') == 'transpose' and isinstance(n.func.value, ast.Call)
                       and getattr(n.func.value.func, 'attr', '') == 'reshape' and normalise(n.func.value.args[0]) == 'k'
                       and normalise(n.func.value.args[1]) == 'N' for n in ast.walk(d.node)) or not layout:
                bad.append('tapers are not read back as reshape(k, N).transpose() of the row-major k x N C buffer')
            if bad:
                rep.violation('ffi', d.qname, 'multitap call', '; '.join(bad), dw)
            else:
                rep.proved('ffi', d.qname, 'multitap call', 'types, order, buffer sizes and layout match the C prototype', dw)
    rep.floor('pmtm contexts', n_f, 18)
    rep.floor('convergence tests examined', n_conv, 4)
    rep.floor('class contexts', n_c, 12)
