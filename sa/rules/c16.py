"""C16 — minimum-variance spectrum (decidable clauses of the Musicus algorithm)."""
import ast
from fractions import Fraction as F

from ..frontend import AnalysisError, loc, normalise
from ..values import *      # noqa
from .. import contexts as C
from .. import charge as Q
from .. import segmap as S
from ..d1rules import check_sink, report_conflicts, psd_classes, ctor_args, PSD_FIELD
from ..d1rules import blocked as blocked1
from ..d4rules import run_d4, report_q, blocked
from .c04 import D4_SUMMARIES, fft_inputs

PROP = 'C16'
LEVEL = 'other'


def run(prog, rep, tier='quick'):
    rep.explanation = (
        'Decidable clauses of C16 for all data, dimensions and NFFT parities: (burg) minvar fits a Burg model of order m-1 '
        'on the data it was given and returns [1, a] (leading one inserted at index 0) together with the very reflection '
        'coefficients Burg returned; (hermitian) the psi sequence is typed in the modulation-charge domain: psi[K] has '
        'charge K and psi[NFFT-K] = conj(psi[K]) (index = charge mod NFFT), it is divided by the Burg variance, transformed '
        'with length NFFT; (real/units) the result is sampling / real(transform): real-valued, amplitude exponent 2, '
        'sampling exponent +1, NFFT^0; the class forwards data, order, sampling and NFFT unchanged and keeps ar/reflection. '
        'NOT decided: equality with T/(e^H R^-1 e), strict positivity (numerical).')
    rep.rule('burg', 'arburg is called with (X, order-1); A = insert(a, 0, 1); returned k is arburg\'s third result')
    rep.rule('hermitian', 'charge typing of the psi loop; transform input holds charge k at index k (mod NFFT)')
    rep.rule('bins', 'index map of the returned PSD: identity on the NFFT bins (for real data a slot may hold the mirror bin NFFT-j)')
    rep.rule('admission', 'no guard on (N, order, NFFT) raises for order 2..N/2 and NFFT >= 2*order')
    rep.rule('units', 'PSD exponents: s=2, hz=+1, nfft=0; real-valued')
    rep.rule('forwarding', 'pminvar passes data/order/sampling/NFFT to minvar and stores res[1], res[2]')
    f = prog.func('minvar', 'minvar')
    where = loc(f.mod, f.node)
    seen = set()
    n = 0
    nb = 0
    for cplx in (False, True):
        for par in ('even', 'odd'):
            ctx = '%s, NFFT %s' % ('complex' if cplx else 'real', par)
            itp = C.new_interp(prog)
            itp.watch['burg.arburg'] = []
            x = C.data(cplx)
            order = C.symint('P', 2, 'order')
            samp = C.sampling()
            kwn = C.nfft(par)
            v, itp = C.run_function(prog, 'minvar', 'minvar', [x, order], {'sampling': samp, 'NFFT': kwn}, itp=itp)
            n += 1
            if blocked1(rep, 'units', f.qname, ctx, itp):
                continue
            report_conflicts(rep, 'units', itp, ('s', 'hz', 'nfft'), 'minvar,' + ctx, seen)
            if not (isinstance(v, Tup) and len(v.items) == 3):
                rep.undecided('units', f.qname, ctx, 'no (PSD, A, k) triple returned')
                continue
            psd, A, k = v.items
            want_n = kwn.a
            from ..prims import _int_aff
            fnames = [e2[3] for e2 in itp.events if e2[0] == 'fft-out']
            ffts = [e2 for e2 in itp.events if e2[0] == 'fft']
            for e, fn_ in zip(ffts, fnames):
                if fn_ == f.qname:
                    # the transform size is its length argument (rfft returns n//2+1 of the n bins)
                    got = _int_aff(e[4]) if e[4] is not None else (e[3][0] if (e[3] is not None and len(e[3]) == 1) else None)
                    c = 'transform length %s [%s]' % (normalise(e[1]), ctx)
                    if got is None:
                        rep.undecided('hermitian', f.qname, c, 'length not derivable', where)
                    elif got == want_n:
                        rep.proved('hermitian', f.qname, c, 'NFFT points', where)
                    else:
                        rep.violation('hermitian', f.qname, c, 'the psi sequence is transformed to %s points, not NFFT = %s: the '
                                      'values do not sit on the grid k/NFFT' % (got, want_n), where)
            # which bin sits in which slot of the returned spectrum
            nb += 1
            c = 'bin layout [%s]' % ctx
            if not isinstance(psd, Num) or psd.seg is None or psd.shape is None or len(psd.shape) != 1:
                rep.undecided('bins', f.qname, c, 'index map of the returned PSD not derivable', where)
            elif psd.shape[0] != want_n:
                rep.violation('bins', f.qname, c, 'the returned PSD has %s values, not NFFT = %s' % (psd.shape[0], want_n), where)
            else:
                off = Aff(0)
                badseg = None
                for sg in S.normalise(psd.seg):
                    ident = sg.start == off and (sg.stride == 1 or sg.n == Aff(1))
                    # real data: the spectrum is even, slot j may equally hold bin NFFT-j
                    mirr = (not cplx) and (sg.start == want_n - off) and (sg.stride == -1 or sg.n == Aff(1))
                    if not (ident or mirr):
                        badseg = (off, sg)
                        break
                    off = off + sg.n
                if badseg is None:
                    rep.proved('bins', f.qname, c, 'slot j holds bin j of the NFFT-point transform%s: %s' % (
                        '' if cplx else ' (or its mirror image NFFT-j)', S.show(psd.seg)), where)
                else:
                    rep.violation('bins', f.qname, c, 'from slot %s on the returned PSD holds %s: slot j must hold bin j%s of the '
                                  'NFFT-point transform (full map: %s)' % (badseg[0], badseg[1], '' if cplx else ' or NFFT-j',
                                                                           S.show(psd.seg)), where)
            check_sink(rep, 'units', f.qname, ctx, 'PSD', psd, {'s': F(2), 'hz': F(1), 'nfft': F(0)}, where, itp, ('s',), seen)
            if isinstance(psd, Num) and (psd.cplx is False or psd.rv):
                rep.proved('units', f.qname, 'PSD real [%s]' % ctx, 'real part taken before the inversion', where)
            else:
                rep.violation('units', f.qname, 'PSD real [%s]' % ctx, 'the returned spectrum is not real-valued', where)
            # Burg call
            calls = itp.watch['burg.arburg']
            if len(calls) != 1:
                rep.violation('burg', f.qname, 'arburg call [%s]' % ctx, 'expected exactly one Burg fit, saw %d' % len(calls), where)
                continue
            p = calls[0]['params']
            o = p.get('order')
            okx = isinstance(p.get('X'), Num) and p['X'].uid == x.uid
            oko = isinstance(o, IntV) and o.a is not None and o.a == order.a - 1
            if okx and oko:
                rep.proved('burg', f.qname, 'arburg(X, order-1) [%s]' % ctx, 'order %s' % o.a, where)
            else:
                rep.violation('burg', f.qname, 'arburg(X, order-1) [%s]' % ctx, 'the Burg model is fitted with order %s on %s (required: '
                              'order-1 = %s on the data)' % (getattr(o, 'a', o), 'the data' if okx else 'another array', order.a - 1), where)
            ret = calls[0]['ret']
            ins = [e for e in itp.events if e[0] == 'insert' and e[6] == f.qname]
            ok_ins = False

            def is_one(raw):
                if isinstance(raw, Const) and isinstance(raw.v, (int, float, complex)) and not isinstance(raw.v, bool):
                    return raw.v == 1
                if isinstance(raw, Const) and isinstance(raw.v, (list, tuple)) and len(raw.v) == 1:
                    return raw.v[0] == 1
                if isinstance(raw, Tup) and len(raw.items) == 1:
                    return is_one(raw.items[0])
                if isinstance(raw, Num) and raw.role == 'ones' and raw.shape in ((Aff(1),), ()):
                    return True
                return False
            if ins and isinstance(ret, Tup):
                e = ins[0]
                pos, val, arr0 = e[2], e[4], e[5]
                raw = e[7]
                ok_ins = isinstance(pos, Const) and pos.v == 0 and is_one(raw) and arr0.uid == ret.items[0].uid
            elif isinstance(ret, Tup):
                # the same vector assembled by concatenation: [1] ++ a
                for e in itp.events:
                    if e[0] == 'concat' and e[3] == f.qname and len(e[2]) == 2 and is_one(e[2][0]) \
                            and getattr(e[2][1], 'uid', None) == ret.items[0].uid:
                        ok_ins = True
            if ok_ins:
                rep.proved('burg', f.qname, 'A = [1, a] [%s]' % ctx, 'leading one inserted at index 0 of the Burg coefficients', where)
            else:
                rep.violation('burg', f.qname, 'A = [1, a] [%s]' % ctx, 'the returned AR vector is not the Burg vector with a leading one', where)
            if isinstance(ret, Tup) and isinstance(k, Num) and k.uid == ret.items[2].uid:
                rep.proved('burg', f.qname, 'reflection coefficients [%s]' % ctx, 'those of the Burg fit', where)
            else:
                rep.violation('burg', f.qname, 'reflection coefficients [%s]' % ctx, 'the returned reflection coefficients are not the ones Burg produced', where)
    # hermitian psi (complex data)
    nf = [0]
    for par in ('even', 'odd'):
        v, itp = run_d4(prog, 'minvar', 'minvar', [C.data(True), C.symint('P', 2, 'order')], {'NFFT': C.nfft(par)}, D4_SUMMARIES)
        ctx = 'NFFT %s' % par
        if blocked(rep, 'hermitian', f.qname, ctx, itp):
            continue
        report_q(rep, 'hermitian', itp, {f.qname}, ctx, seen)
        fft_inputs(rep, 'hermitian', f.qname, ctx, itp, where, seen, nf)
    # class forwarding
    cls = prog.cls('minvar', 'pminvar')
    for cplx in (False, True):
        itp = C.new_interp(prog)
        itp.watch[f.qname] = []
        kw = ctor_args(cls, cplx, 'even', scale=False)
        ref, obj, itp, ok = C.run_class(prog, cls.mod, cls.name, [], kw, itp=itp)
        ctx = 'complex' if cplx else 'real'
        cw = loc(cls.mod, cls.node)
        calls = itp.watch[f.qname]
        if not ok or len(calls) != 1:
            rep.undecided('forwarding', cls.qname, ctx, 'expected one minvar call')
            continue
        p = calls[0]['params']
        okd = isinstance(p.get('X'), Num) and 'x' in p['X'].taint
        oko = isinstance(p.get('order'), IntV) and p['order'].a == kw['order'].a
        oks = isinstance(p.get('sampling'), Num) and p['sampling'].uid == kw['sampling'].uid
        okn = isinstance(p.get('NFFT'), IntV) and p['NFFT'].a == kw['NFFT'].a
        r = calls[0]['ret']
        okr = isinstance(r, Tup) and obj.f.get('_ParametricSpectrum__ar') is r.items[1] or (
            isinstance(r, Tup) and getattr(obj.f.get('_ParametricSpectrum__ar'), 'uid', 1) == getattr(r.items[1], 'uid', 2))
        okk = isinstance(r, Tup) and getattr(obj.f.get('_ParametricSpectrum__reflection'), 'uid', 1) == getattr(r.items[2], 'uid', 2)
        bad = [nme for nme, o in (('data', okd), ('order', oko), ('sampling', oks), ('NFFT', okn), ('ar', okr), ('reflection', okk)) if not o]
        if bad:
            rep.violation('forwarding', cls.qname, ctx, 'pminvar does not forward / keep %s unchanged' % bad, cw)
        else:
            rep.proved('forwarding', cls.qname, ctx, 'data, order, sampling, NFFT forwarded; ar and reflection kept', cw)
        psd = obj.f.get(PSD_FIELD)
        check_sink(rep, 'units', cls.qname, ctx, 'psd', psd, {'s': F(2), 'hz': F(1), 'nfft': F(0)}, cw)
    # dimension m = order in 2..N/2 with NFFT >= 2m is admitted
    from ..d1rules import admission_of
    seen_adm = set()
    grid = [{'N': n_, 'Pa': p_, 'm': h_} for n_ in (8, 9, 12) for p_ in range(2, n_ // 2 + 1) for h_ in (p_, p_ + 1, p_ + 3)]
    for par_ in ('even', 'odd'):
        admission_of(rep, prog, 'admission', 'minvar', 'minvar',
                     lambda: ([C.data(True, phase=False), IntV(Aff.sym('Pa'), frozenset(['order']))], {'NFFT': C.nfft(par_)}), grid,
                     lambda w: 'N = %d, order = %d, NFFT = %d' % (w['N'], w['Pa'], 2 * w['m'] + (par_ == 'odd')), seen_adm)
    rep.floor('minvar contexts', n, 4)
    rep.floor('bin layouts', nb, 4)
    rep.floor('psi transforms', nf[0], 2)
