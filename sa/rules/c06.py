"""C06 — side conversions are lossless, length-consistent and axis-aligned (D3 index maps).

The reference ("oracle") maps are derived from the frequency axes Range.*_gen reports:
  twosided slot a  <-> bin a,  a = 0..NFFT-1
  onesided slot n  <-> bin n,  n = 0..floor(NFFT/2)
  centerdc slot a  <-> bin a - floor(NFFT/2)   (the unique integral reading of (a - N/2)*df; for odd N the code's
                                                axis is on half bins, which is reported as a finding of its own)
with the weights C06 states (one-sided interior values split 1/2 + 1/2, DC / Nyquist weight 1, folding *2)."""
from fractions import Fraction as F

from ..frontend import AnalysisError, loc, normalise
from ..values import *      # noqa
from .. import contexts as C
from .. import segmap as S
from ..segmap import Seg
from ..core import St, PathEnd
from ..d1rules import blocked, report_conflicts

PROP = 'C06'
LEVEL = 'proof'
SIDES = ('onesided', 'twosided', 'centerdc')
m = Aff.sym('m')
H = F(1, 2)


def sizes(parity):
    n = m.scale(2) if parity == 'even' else m.scale(2) + 1
    return n, m + 1


def ref_maps(src_side, dst_side, parity, src):
    """acceptable index maps of the conversion src_side -> dst_side applied to a source array `src` laid out as
    src_side; a list of alternatives (folding may take the +f or the -f copy)"""
    N, h = sizes(parity)
    even = parity == 'even'
    X = src
    if src_side == dst_side:
        return [S.identity(X, h if src_side == 'onesided' else N)]
    if src_side == 'onesided' and dst_side == 'twosided':
        if even:
            return [[Seg(1, X, 0, 1), Seg(m - 1, X, 1, 1, H), Seg(1, X, m, 1), Seg(m - 1, X, m - 1, -1, H)]]
        return [[Seg(1, X, 0, 1), Seg(m, X, 1, 1, H), Seg(m, X, m, -1, H)]]
    if src_side == 'onesided' and dst_side == 'centerdc':
        if even:
            return [[Seg(1, X, m, 1), Seg(m - 1, X, m - 1, -1, H), Seg(1, X, 0, 1), Seg(m - 1, X, 1, 1, H)]]
        return [[Seg(m, X, m, -1, H), Seg(1, X, 0, 1), Seg(m, X, 1, 1, H)]]
    if src_side == 'twosided' and dst_side == 'centerdc':
        if even:
            return [[Seg(m, X, m, 1), Seg(m, X, 0, 1)]]
        return [[Seg(m, X, m + 1, 1), Seg(m + 1, X, 0, 1)]]
    if src_side == 'centerdc' and dst_side == 'twosided':
        if even:
            return [[Seg(m, X, m, 1), Seg(m, X, 0, 1)]]
        return [[Seg(m + 1, X, m, 1), Seg(m, X, 0, 1)]]
    if src_side == 'twosided' and dst_side == 'onesided':
        if even:
            return [[Seg(1, X, 0, 1), Seg(m - 1, X, 1, 1, 2), Seg(1, X, m, 1)],
                    [Seg(1, X, 0, 1), Seg(m - 1, X, m.scale(2) - 1, -1, 2), Seg(1, X, m, 1)]]
        return [[Seg(1, X, 0, 1), Seg(m, X, 1, 1, 2)], [Seg(1, X, 0, 1), Seg(m, X, m.scale(2), -1, 2)]]
    if src_side == 'centerdc' and dst_side == 'onesided':
        if even:
            return [[Seg(1, X, m, 1), Seg(m - 1, X, m + 1, 1, 2), Seg(1, X, 0, 1)],
                    [Seg(1, X, m, 1), Seg(m - 1, X, m - 1, -1, 2), Seg(1, X, 0, 1)]]
        return [[Seg(1, X, m, 1), Seg(m, X, m + 1, 1, 2)], [Seg(1, X, m, 1), Seg(m, X, m - 1, -1, 2)]]
    raise AnalysisError('no reference map %s->%s' % (src_side, dst_side))


def matches(segs, refs):
    return any(S.same(segs, r) for r in refs)


def classify(segs, refs, N, h, dst_side):
    """which clause of C06 a wrong map breaks first (diagnostic)"""
    want = h if dst_side == 'onesided' else N
    if segs is None:
        return 'map'
    if S.length(segs) != want:
        return 'length'
    return 'alignment/weights'


def make_object(prog, cplx, parity):
    """a Spectrum instance built by its real constructor"""
    itp = C.new_interp(prog)
    cls = prog.cls('psd', 'Spectrum')
    st = St({}, {})
    ref = itp.instantiate(cls, [C.data(cplx)], {'NFFT': C.nfft(parity)}, st, cls.node)
    return itp, cls, st, ref


def base_array(src, n, cplx=False):
    d = zero_deg()
    d['s'] = F(2)
    a = Num(d, (n,), False, nonneg=True)
    a.seg = S.identity(src, n)
    a.view_of = frozenset(['the input PSD'])
    return a


def check_no_mutation(rep, itp, rule_fn, label, where, seen):
    """a conversion must not write into (a view of) the array it was given"""
    bad = [e for e in itp.events if e[0] == 'inplace']
    for e in bad:
        key = ('inplace', e[3], normalise(e[1]))
        if key in seen:
            continue
        seen.add(key)
        rep.violation('no-input-mutation', e[3], normalise(e[1]),
                      'in-place store into an array that shares memory with the caller\'s PSD: the conversion changes '
                      'the stored spectrum it was asked to convert (first seen in %s)' % label, where)
    return not bad


def run(prog, rep, tier='quick'):
    rep.explanation = (
        'Every conversion is abstractly interpreted on an array whose contents are a symbolic index map (segment list, '
        'lengths affine in m with NFFT = 2m or 2m+1), so the result is the exact slot->(source slot, weight) map for '
        'every NFFT of that parity. Obligations: (single) each of the six get_converted_psd branches and each tools '
        'helper, started from a source laid out on the axis Range reports, equals the reference map (length, '
        'alignment, weights 1/2+1/2 resp. x2, DC/Nyquist weight 1); (sequence) every sequence of sides assignments '
        'from the default layout ends in the reference map of its last element (path independence, round trip, '
        'lossless); (axis) every Range generator yields integral multiples of df and as many values as the map is '
        'long. Exhaustive over {real, complex} x {even, odd} x sequences; symbolic in m >= %d.' % Aff.SYM_MIN.get('m', 2))
    rep.rule('single-conversion', 'map of get_converted_psd(t) on a source in layout s == reference map s->t')
    rep.rule('tools-helper', 'map of tools.<helper>(x) == reference map')
    rep.rule('sequence', 'map after p.sides=s1; ...; p.sides=sk from the default layout == reference map default->sk')
    rep.rule('axis', 'Range.<side>_gen yields integral bins times df, count == reference length')
    rep.rule('no-input-mutation', 'no conversion stores in place into a slice/asarray view of the PSD it is given')
    seen_mut = set()
    seen_idx = set()
    n_mut = 0
    rep.assumptions += ['NFFT >= 8 (m >= 4): tiny transforms are not covered by the symbolic comparison',
                        'one-sided folding may take the +f or the -f copy (the PSD of real data is symmetric)']
    rep.trusted += ['numpy slicing / concatenate / append / array copy semantics', 'collections.deque.rotate']
    gcp = prog.method('psd', 'Spectrum', 'get_converted_psd')
    n_single = n_seq = n_tools = n_axis = 0
    maxlen = 4 if tier == 'thorough' else 3
    for cplx in (False, True):
        for parity in ('even', 'odd'):
            N, h = sizes(parity)
            dt = 'complex' if cplx else 'real'
            default = 'twosided' if cplx else 'onesided'
            allowed = [s for s in SIDES if not (cplx and s == 'onesided')]
            # ---------------- single conversions from a reference-layout source
            for s in allowed:
                for t in allowed:
                    if s == t:
                        continue
                    itp, cls, st, ref = make_object(prog, cplx, parity)
                    obj = st.heap[ref.oid]
                    obj.f['_Spectrum__psd'] = base_array('X', h if s == 'onesided' else N)
                    obj.f['_Spectrum__sides'] = Const(s)
                    obj.f['modified'] = Const(False)
                    label = '%s->%s [%s, NFFT %s]' % (s, t, dt, parity)
                    try:
                        v = itp.call_function(gcp, [ref, Const(t)], {}, st, gcp.node)
                    except PathEnd:
                        v = None
                    n_single += 1
                    if blocked(rep, 'single-conversion', gcp.qname, label, itp):
                        continue
                    if report_conflicts(rep, 'single-conversion', itp, ('index',), label, seen_idx):
                        continue        # a bound obtained by rounding an exact half-integer: reported at that construct
                    n_mut += 1
                    if check_no_mutation(rep, itp, gcp.qname, label, loc(gcp.mod, gcp.node), seen_mut):
                        rep.proved('no-input-mutation', gcp.qname, label, 'no in-place store into the stored PSD', loc(gcp.mod, gcp.node))
                    refs = ref_maps(s, t, parity, 'X')
                    where = loc(gcp.mod, gcp.node)
                    if v is None:
                        rep.violation('single-conversion', gcp.qname, label, 'the conversion has no normal path '
                                      '(assert/raise on every path) for this layout', where)
                        continue
                    segs = v.seg if isinstance(v, Num) else None
                    if segs is None:
                        rep.undecided('single-conversion', gcp.qname, label, 'result is not a pure re-arrangement the '
                                      'index-map domain can follow: %r' % (v,), where)
                        continue
                    if matches(segs, refs):
                        rep.proved('single-conversion', gcp.qname, label, 'map = ' + S.show(segs), where)
                    else:
                        rep.violation('single-conversion', gcp.qname, label,
                                      '%s differs from the axis-aligned map: got %s ; required %s' % (
                                          classify(segs, refs, N, h, t), S.show(segs), S.show(refs[0])), where,
                                      ['got      ' + S.show(segs), 'required ' + S.show(refs[0])])
            # ---------------- sequences of sides assignments from the default layout
            seqs = [[]]
            frontier = [[]]
            for _ in range(maxlen):
                frontier = [q + [t] for q in frontier for t in allowed]
                seqs += frontier
            sides_setter = prog.cls('psd', 'Spectrum')
            for seq in seqs:
                if not seq:
                    continue
                itp, cls, st, ref = make_object(prog, cplx, parity)
                obj = st.heap[ref.oid]
                obj.f['_Spectrum__psd'] = base_array('X', h if default == 'onesided' else N)
                obj.f['_Spectrum__sides'] = Const(default)
                obj.f['modified'] = Const(False)
                ok = True
                try:
                    for t in seq:
                        itp.setattr_ref(ref, 'sides', Const(t), st, None)
                except PathEnd:
                    ok = False
                label = '%s [%s, NFFT %s]' % ('>'.join([default] + seq), dt, parity)
                n_seq += 1
                if blocked(rep, 'sequence', 'psd.Spectrum._setSides', label, itp):
                    continue
                where = 'src/spectrum/psd.py'
                if not ok:
                    rep.violation('sequence', 'psd.Spectrum._setSides', label, 'the sequence raises', where)
                    continue
                cur = st.heap[ref.oid].f.get('_Spectrum__psd')
                segs = cur.seg if isinstance(cur, Num) else None
                refs = ref_maps(default, seq[-1], parity, 'X')
                if segs is None:
                    rep.undecided('sequence', 'psd.Spectrum._setSides', label, 'index map lost: %r' % (cur,), where)
                elif matches(segs, refs):
                    rep.proved('sequence', 'psd.Spectrum._setSides', label, 'map = ' + S.show(segs), where)
                else:
                    rep.violation('sequence', 'psd.Spectrum._setSides', label,
                                  'final PSD is not the direct conversion to %s: got %s ; required %s' % (
                                      seq[-1], S.show(segs), S.show(refs[0])), where)
            # ---------------- frequency axes
            if not cplx:
                R = prog.cls('psd', 'Range')
                for side in SIDES:
                    itp = C.new_interp(prog)
                    st = St({}, {})
                    r = itp.instantiate(R, [C.nfft(parity), C.sampling()], {}, st, R.node)
                    g = R.find_method(side + '_gen')
                    if g is None:
                        raise AnalysisError('Range.%s_gen vanished' % side)
                    itp.events = []
                    itp.watch_mul = []
                    try:
                        out = itp.call_function(g, [r], {}, st, g.node)
                    except PathEnd:
                        out = None
                    n_axis += 1
                    label = '%s axis [NFFT %s]' % (side, parity)
                    where = loc(g.mod, g.node)
                    ixc = [c_ for c_ in itp.conflicts if c_.comp == 'index']
                    if ixc:
                        rep.violation('axis', g.qname, label + ' grid', '%s: the reported frequencies are not the bins k*sampling/NFFT in '
                                      'order' % ixc[0].msg, loc(ixc[0].mod, ixc[0].node))
                        continue
                    want = h if side == 'onesided' else N
                    cnt = out.n if isinstance(out, SeqV) else None
                    if cnt is None:
                        rep.undecided('axis', g.qname, label, 'number of yielded frequencies not derivable', where)
                    elif cnt == want:
                        rep.proved('axis', g.qname, label + ' count', 'yields %s values' % cnt, where)
                    else:
                        rep.violation('axis', g.qname, label + ' count', 'yields %s values, the reference length is %s'
                                      % (cnt, want), where)
                    # integrality of the bin index: look at the yielded expression  k * df
                    import ast
                    bad = None
                    seen_y = 0
                    for node in ast.walk(g.node):
                        if isinstance(node, ast.Yield) and isinstance(node.value, ast.BinOp) and isinstance(node.value.op, ast.Mult):
                            seen_y += 1
                    el = out.elem if isinstance(out, SeqV) else None
                    binex = getattr(el, 'binidx', None)
                    # the interpreter keeps the exact value of the index factor in events
                    idx = [e for e in itp.events if e[0] == 'axis-index']
                    okint = None
                    for e in idx:
                        if e[1] is None:
                            okint = None
                            break
                        okint = e[1].is_integral() if okint in (None, True) else okint
                        if not e[1].is_integral():
                            bad = e[1]
                    # general form: the yielded value as an exact multiple of the sampling rate; bin index = that * NFFT
                    vals = [e for e in itp.events if e[0] == 'axis-value']
                    if not idx and vals:
                        import sympy as sp
                        nsym = N.to_sympy()
                        okint = True
                        for e in vals:
                            bi = sp.expand(sp.cancel(e[1] * nsym))
                            # integral iff a polynomial of degree <= 1 in the symbols with integer coefficients
                            try:
                                poly = sp.Poly(bi, *sorted(bi.free_symbols, key=str)) if bi.free_symbols else None
                                coeffs = poly.coeffs() if poly is not None else [bi]
                                integral = all(sp.nsimplify(c_).is_integer for c_ in coeffs)
                            except Exception:
                                integral = None
                            if integral is not True and bi.free_symbols:
                                # not an integer-coefficient polynomial: decide by exhibiting a position of the grid whose bin index is
                                # not an integer (exact rational arithmetic on small sizes; the loop symbol ranges over the count)
                                msym = [s_ for s_ in bi.free_symbols if s_.name == 'm']
                                isym = [s_ for s_ in bi.free_symbols if s_.name != 'm']
                                wit = None
                                if len(isym) <= 1 and len(msym) <= 1:
                                    for mv in range(2, 7):
                                        cntv = int(want.subs({'m': Aff(mv)}).c) if want is not None else 0
                                        for iv in range(0, cntv):
                                            sub = {}
                                            if msym:
                                                sub[msym[0]] = mv
                                            if isym:
                                                sub[isym[0]] = iv
                                            try:
                                                val = sp.nsimplify(bi.subs(sub))
                                            except Exception:
                                                val = None
                                            if val is not None and val.is_rational and not val.is_integer:
                                                wit = (mv, iv, val)
                                                break
                                        if wit:
                                            break
                                if wit:
                                    integral = False
                                    bi = '%s -- e.g. position %d for m = %d is bin %s' % (bi, wit[1], wit[0], wit[2])
                            if integral is False:
                                bad = bi
                            elif integral is None:
                                okint = None
                        idx = vals
                    # origin and direction of the grid: position 0 of the axis is bin 0 (onesided, twosided) or bin -(NFFT//2)
                    # (centerdc: -m for NFFT = 2m and 2m+1), and the bins go up by one per position -- the slots the conversions
                    # write are counted from there
                    if vals and bad is None:
                        import sympy as sp
                        first = -m if side == 'centerdc' else Aff(0)
                        for e in vals:
                            bi = sp.expand(sp.cancel(e[1] * N.to_sympy()))
                            ls = [s_ for s_ in bi.free_symbols if s_.name in Aff.BOUNDS]
                            if len(ls) != 1:
                                continue
                            lo_b, hi_b = Aff.BOUNDS[ls[0].name]
                            if lo_b is None:
                                continue
                            step_b = sp.expand(bi.subs(ls[0], ls[0] + 1) - bi)
                            b0 = sp.expand(bi.subs(ls[0], lo_b.to_sympy()))
                            okb = sp.expand(b0 - first.to_sympy()) == 0 and step_b == 1
                            if okb:
                                rep.proved('axis', g.qname, label + ' origin', 'first value is bin %s, one bin up per position' % first, where)
                            else:
                                rep.violation('axis', g.qname, label + ' origin', 'the axis starts at bin %s and moves %s bin(s) per position; '
                                              'the converted PSD has bin %s in slot 0 and the next bin in each following slot: values '
                                              'and reported frequencies are shifted against each other' % (b0, step_b, first), where)
                    if not idx:
                        rep.undecided('axis', g.qname, label + ' grid', 'yield is not of the form index*df', where)
                    elif bad is not None:
                        rep.violation('axis', g.qname, label + ' grid',
                                      'the reported frequencies are (%s)*df: not on the DFT bin grid k*sampling/NFFT' % bad, where)
                    elif okint:
                        rep.proved('axis', g.qname, label + ' grid', 'integral bin index times df', where)
                    else:
                        rep.undecided('axis', g.qname, label + ' grid', 'bin index not exact', where)
    # ---------------- tools helpers
    HELP = [('twosided_2_onesided', 'twosided', 'onesided'), ('onesided_2_twosided', 'onesided', 'twosided'),
            ('twosided_2_centerdc', 'twosided', 'centerdc'), ('centerdc_2_twosided', 'centerdc', 'twosided')]
    Aff.SYM_MIN['j'] = 2
    m_generic = m
    halves = [(m_generic, ''), (Aff(0, {'j': F(2)}), ', NFFT//2 even'), (Aff(1, {'j': F(2)}), ', NFFT//2 odd')]
    for fname, s, t in HELP:
      f = prog.func('tools', fname)
      for half, hl in halves:
        globals()['m'] = half         # sizes() / ref_maps() are written in terms of m = NFFT//2
        for parity in ('even', 'odd'):
            if fname == 'onesided_2_twosided' and parity == 'odd':
                # a one-sided vector of length h fits NFFT = 2(h-1) and NFFT = 2h-1; the helper has no NFFT argument
                # and documents the even reading (get_converted_psd, which knows NFFT, is checked for both parities)
                continue
            N, h = sizes(parity)
            C.nfft(parity, half=half)
            x = base_array('X', h if s == 'onesided' else N)
            x.intdt = True          # the helpers are documented on integer lists: the input may be integer typed
            v, itp = C.run_function(prog, 'tools', fname, [x], {})
            n_tools += 1
            label = '%s [NFFT %s%s]' % (fname, parity, hl)
            where = loc(f.mod, f.node)
            if blocked(rep, 'tools-helper', f.qname, label, itp):
                continue
            for e_ in [e_ for e_ in itp.events if e_[0] == 'int-store' and (e_[2] == f.qname or e_[2].startswith('tools.'))]:
                k_ = ('int-store', e_[2], normalise(e_[1]))
                if k_ not in seen_mut:
                    seen_mut.add(k_)
                    rep.violation('tools-helper', e_[2], 'integer input: %s' % normalise(e_[1])[:60], 'a quotient is stored back into a '
                                  'buffer that still has the (integer) dtype of the input: for integer PSD values (lists, counts) the '
                                  'halved bin is truncated, so the conversion loses power and does not round-trip [%s]' % label,
                                  loc(f.mod, e_[1]))
            n_mut += 1
            if check_no_mutation(rep, itp, f.qname, label, where, seen_mut):
                rep.proved('no-input-mutation', f.qname, label, 'the input array is not written', where)
            refs = ref_maps(s, t, parity, 'X')
            if v is None:
                rep.violation('tools-helper', f.qname, label, 'no normal path (assert/raise) for this parity', where)
                continue
            segs = v.seg if isinstance(v, Num) else None
            if segs is None:
                rep.undecided('tools-helper', f.qname, label, 'index map lost: %r' % (v,), where)
            elif matches(segs, refs):
                rep.proved('tools-helper', f.qname, label, 'map = ' + S.show(segs), where)
            else:
                rep.violation('tools-helper', f.qname, label, '%s differs from the axis-aligned map: got %s ; required %s'
                              % (classify(segs, refs, N, h, t), S.show(segs), S.show(refs[0])), where)
    globals()['m'] = m_generic
    # arma2psd(sides='centerdc') must be the twosided->centerdc map of the model spectrum
    f = prog.func('arma', 'arma2psd')
    for parity in ('even', 'odd'):
        N, h = sizes(parity)
        kw = {'A': C.deg0((C.symint('P', 2).a,), True), 'rho': C.deg0(), 'NFFT': C.nfft(parity), 'sides': Const('centerdc')}
        v, itp = C.run_function(prog, 'arma', 'arma2psd', [], kw)
        n_tools += 1
        label = "arma2psd(sides='centerdc') [NFFT %s]" % parity
        where = loc(f.mod, f.node)
        if blocked(rep, 'tools-helper', f.qname, label, itp):
            continue
        segs = v.seg if isinstance(v, Num) else None
        refs = ref_maps('twosided', 'centerdc', parity, '*')
        if segs is None:
            rep.undecided('tools-helper', f.qname, label, 'index map lost: %r' % (v,), where)
        elif matches(segs, refs):
            rep.proved('tools-helper', f.qname, label, 'map = ' + S.show(segs), where)
        else:
            rep.violation('tools-helper', f.qname, label, 'differs from the axis-aligned map: got %s ; required %s'
                          % (S.show(segs), S.show(refs[0])), where)
    rep.analysed['single_conversions'] = n_single
    rep.analysed['sequences'] = n_seq
    rep.analysed['tools_contexts'] = n_tools
    rep.analysed['axes'] = n_axis
    rep.floor('single conversions', n_single, 6 * 2 + 2 * 2)
    rep.floor('mutation checks', n_mut, 20)
    rep.floor('sequences', n_seq, 2 * (3 + 9 + 27) + 2 * (2 + 4 + 8))
    rep.floor('tools helper contexts', n_tools, 9)
    rep.floor('axis generators', n_axis, 6)
