"""C01 — periodogram = windowed-DFT definition; correlogram placement (decidable clauses)."""
import ast
from fractions import Fraction as F

import sympy as sp

from ..frontend import AnalysisError, loc, normalise
from ..values import *      # noqa
from .. import contexts as C
from .. import segmap as S
from ..d1rules import check_sink, report_conflicts, blocked, ctor_args, PSD_FIELD
from ..prims import _int_aff

PROP = 'C01'
LEVEL = 'other'
NS = sp.Symbol('N', positive=True)


def window_with_map(itp, args, kwargs, node, st):
    """Window summary whose samples carry an index map (W[0:N]) so that slices of the window are followed"""
    o = C.window_summary(itp, args, kwargs, node, st)
    n = o.data.shape[0]
    if n is not None:
        o.data.seg = S.identity('W', n)
    return o


def run(prog, rep, tier='quick'):
    rep.explanation = (
        'Decidable clauses of C01 for all data, windows, NFFT of both parities, 1-D and 2-D input: (dim) in each of the four '
        'branches of speriodogram the result is |linear(x*w)|^2/N: amplitude exponent 2, window exponent 2, size signature exactly '
        '1/N with N the data length, no sampling / NFFT factor when scaling is off; (fft) the real branch uses rfft and the complex '
        'branch fft, with the NFFT argument as length (len(x) when None) along the time axis, the window has the data length, and a '
        'per-column window matrix is never produced by reshaping a (columns x time) array into (time x columns); (fwd) Periodogram '
        'hands its own data, window, sampling, NFFT and detrend to speriodogram; (wk) the correlogram asks for a 2*lag+1 window and '
        'takes its second half W[lag+1:] for lags 1..lag, places r[0] at 0, r[k]w at k and conj(r[k])w at NFFT-k (charge typing), '
        'transforms NFFT points, returns the real part, and passes lag / norm to the correlation routine. NOT decided: numerical '
        'equality with the DFT, Parseval and Wiener-Khinchin equalities (they follow from these shapes by theorems not evaluated here).')
    rep.rule('dim', 'exponents s=2, win=2, hz=0, nfft=0 and size signature 1/N of the returned periodogram')
    rep.rule('fft', 'transform kind per dtype, length argument == NFFT, axis == time axis, window length == data length; no reshape-as-transpose')
    rep.rule('fwd', 'arguments of speriodogram in Periodogram.__call__ are the object\'s attributes')
    rep.rule('wk', 'window length 2*lag+1, half W[lag+1:]; transform length NFFT; real result; lag/norm forwarded')
    f = prog.func('periodogram', 'speriodogram')
    where = loc(f.mod, f.node)
    seen = set()
    n_dim = 0
    Aff.SYM_MIN['Cc'] = 2
    for cplx in (False, True):
        for two_d in (False, True):
            for par in ('even', 'odd'):
                for det in (False, None, 'mean'):
                    if two_d:
                        x = C.data(cplx, phase=False)
                        x.shape = (C.N_SYM, Aff.sym('Cc'))
                    else:
                        x = C.data(cplx, phase=False)
                    nf = C.nfft(par)
                    itp = C.new_interp(prog)
                    v, itp = C.run_function(prog, 'periodogram', 'speriodogram', [x],
                                            {'NFFT': nf, 'detrend': Const(det), 'scale_by_freq': Const(False), 'sampling': C.sampling(),
                                             'window': StrV('window')}, itp=itp)
                    ctx = '%s,%s,NFFT %s,detrend=%s' % ('complex' if cplx else 'real', '2-D' if two_d else '1-D', par, det)
                    n_dim += 1
                    if blocked(rep, 'dim', f.qname, ctx, itp):
                        continue
                    dbv = [e for e in itp.events if e[0] == 'dtype-by-value' and (e[3] == f.qname or e[3].startswith('periodogram.'))]
                    if dbv:
                        key = ('dbv', normalise(dbv[0][1]))
                        if key not in seen:
                            seen.add(key)
                            rep.violation('fft', f.qname, normalise(dbv[0][1]), '%s makes the dtype of the data depend on its values: '
                                          'complex-typed samples with (near-)zero imaginary parts are transformed with rfft and come back '
                                          'with NFFT//2+1 bins instead of NFFT (first seen in %s)' % (dbv[0][2], ctx), loc(f.mod, dbv[0][1]))
                        continue
                    report_conflicts(rep, 'dim', itp, ('s', 'win', 'hz', 'nfft'), ctx, seen)
                    check_sink(rep, 'dim', f.qname, ctx, 'periodogram', v, {'s': F(2), 'win': F(2), 'hz': F(0), 'nfft': F(0)}, where, itp, ('s',), seen)
                    if isinstance(v, Num):
                        if v.sz is not None and sp.simplify(v.sz - 1 / NS) == 0:
                            rep.proved('dim', f.qname, 'normalisation [%s]' % ctx, 'size signature 1/N', where)
                        else:
                            rep.violation('dim', f.qname, 'normalisation [%s]' % ctx, 'the squared transform is normalised by %s, not by the '
                                          'data length N' % (('1/(%s)' % sp.simplify(1 / v.sz)) if v.sz not in (None, 0) else 'a mixed factor'), where)
                    # ---- fft
                    ff = [e for e in itp.events if e[0] == 'fft']
                    if len(ff) != 1:
                        rep.undecided('fft', f.qname, ctx, 'expected one transform, saw %d' % len(ff), where)
                    else:
                        _k, node, base, ashape, nlen, ax, a = ff[0]
                        bad = []
                        want = 'fft' if cplx else 'rfft'
                        if base != want:
                            bad.append('%s is used for %s data' % (base, 'complex' if cplx else 'real'))
                        la = _int_aff(nlen) if nlen is not None else None
                        if la is None or la != nf.a:
                            bad.append('transform length %s, NFFT = %s' % (la, nf.a))
                        if ashape is None or ax is None or ashape[ax % len(ashape)] is None or ashape[ax % len(ashape)] != C.N_SYM:
                            bad.append('the transform runs along an axis of length %s, not the time axis (N)' %
                                       (ashape[ax % len(ashape)] if (ashape and ax is not None) else '?'))
                        if 'x' not in a.taint or 'window' not in a.taint:
                            bad.append('the transformed array is not data*window')
                        if bad:
                            rep.violation('fft', f.qname, ctx, '; '.join(bad), where)
                        else:
                            rep.proved('fft', f.qname, ctx, '%s(x*w, NFFT) along the time axis' % base, where)
                    wn = [e for e in itp.events if e[0] == 'window']
                    okw = bool(wn) and all(_int_aff(e[2]) == C.N_SYM for e in wn)
                    if okw:
                        rep.proved('fft', f.qname, 'window length [%s]' % ctx, 'N samples', where)
                    else:
                        rep.violation('fft', f.qname, 'window length [%s]' % ctx, 'the window is not generated with the data length', where)
                    for e in itp.events:
                        if e[0] == 'reshape' and e[2] is not None and e[3] is not None and len(e[2]) == 2 and len(e[3]) == 2:
                            old, new = e[2], e[3]
                            if None not in old and None not in new and old[0] == new[1] and old[1] == new[0] and old[0] != old[1]:
                                key = ('reshape', normalise(e[1]))
                                if key not in seen:
                                    seen.add(key)
                                    rep.violation('fft', f.qname, normalise(e[1]), 'a (%s x %s) array is reshaped to (%s x %s): reshape does '
                                                  'not transpose, the per-column windows are scrambled for any non-constant window'
                                                  % (old[0], old[1], new[0], new[1]), where)
    # ---------------- forwarding
    cls = prog.cls('periodogram', 'Periodogram')
    cw = loc(cls.mod, cls.node)
    n_fwd = 0
    for cplx in (False, True):
        for det in (None, 'mean'):
            itp = C.new_interp(prog)
            itp.watch[f.qname] = []
            kw = ctor_args(cls, cplx, 'even', scale=False, overrides={'window': Const('bohman'), 'detrend': Const(det)})
            ref, obj, itp, ok = C.run_class(prog, cls.mod, cls.name, [], kw, itp=itp)
            ctx = '%s,detrend=%s' % ('complex' if cplx else 'real', det)
            n_fwd += 1
            calls = itp.watch[f.qname]
            if not ok or len(calls) != 1:
                rep.undecided('fwd', cls.qname, ctx, 'expected one speriodogram call', cw)
                continue
            p = calls[0]['params']
            bad = []
            if not (isinstance(p.get('x'), Num) and 'x' in p['x'].taint):
                bad.append('data')
            if not (isinstance(p.get('window'), Const) and p['window'].v == 'bohman'):
                bad.append('window')
            if not (isinstance(p.get('sampling'), Num) and p['sampling'].uid == kw['sampling'].uid):
                bad.append('sampling')
            if not (isinstance(p.get('NFFT'), IntV) and p['NFFT'].a == kw['NFFT'].a):
                bad.append('NFFT')
            attr = obj.f.get('_Spectrum__detrend')
            if not (isinstance(p.get('detrend'), Const) and isinstance(attr, Const) and p['detrend'].v == attr.v):
                bad.append('detrend')
            if bad:
                rep.violation('fwd', cls.qname, ctx, 'Periodogram does not pass its own %s to speriodogram' % bad, cw)
            else:
                rep.proved('fwd', cls.qname, ctx, 'data, window, sampling, NFFT, detrend forwarded', cw)
    # ---------------- correlogram (Wiener-Khinchin wiring)
    g = prog.func('correlog', 'CORRELOGRAMPSD')
    gw = loc(g.mod, g.node)
    n_wk = 0
    for cplx in (False, True):
        for method in ('CORRELATION', 'xcorr'):
            for par in ('even', 'odd'):
                itp = C.new_interp(prog, summaries={'window.Window': window_with_map})
                itp.watch['correlation.CORRELATION'] = []
                itp.watch['correlation.xcorr'] = []
                itp.capture_locals[g.qname] = ['w']
                lag = C.symint('lag', 2, 'lag')
                nf = C.nfft(par)
                v, itp = C.run_function(prog, 'correlog', 'CORRELOGRAMPSD', [C.data(cplx, phase=False)],
                                        {'lag': lag, 'NFFT': nf, 'window': StrV('window'), 'norm': Const('biased'),
                                         'correlation_method': Const(method)}, itp=itp)
                ctx = '%s,%s,NFFT %s' % ('complex' if cplx else 'real', method, par)
                n_wk += 1
                if blocked(rep, 'wk', g.qname, ctx, itp):
                    continue
                bad = []
                wn = [e for e in itp.events if e[0] == 'window']
                if not (len(wn) == 1 and _int_aff(wn[0][2]) == lag.a.scale(2) + 1):
                    bad.append('the lag window is generated with %s samples, not 2*lag+1' % (_int_aff(wn[0][2]) if wn else '?'))
                cap = (itp.captured.get(g.qname) or [{}])[-1]
                w = cap.get('w')
                if not (isinstance(w, Num) and w.seg is not None and S.same(w.seg, [S.Seg(lag.a, 'W', lag.a + 1, 1)])):
                    bad.append('the window half used is %s, required W[lag+1 : 2*lag+1]' % (S.show(w.seg) if isinstance(w, Num) else w))
                ff = [e for e in itp.events if e[0] == 'fft-out' and e[3] == g.qname]
                if not (len(ff) == 1 and ff[0][2] is not None and len(ff[0][2]) == 1 and ff[0][2][0] == nf.a):
                    bad.append('the lag sequence is not transformed to exactly NFFT points')
                if not (isinstance(v, Num) and (v.cplx is False or v.rv)):
                    bad.append('the result is not the real part of the transform')
                calls = itp.watch['correlation.' + method]
                if not calls:
                    bad.append('%s is not called' % method)
                else:
                    p = calls[0]['params']
                    if not (isinstance(p.get('maxlags'), IntV) and p['maxlags'].a == lag.a):
                        bad.append('maxlags passed to %s is not the lag' % method)
                    if not (isinstance(p.get('norm'), Const) and p['norm'].v == 'biased'):
                        bad.append('norm is not forwarded to %s' % method)
                if bad:
                    rep.violation('wk', g.qname, ctx, '; '.join(bad), gw)
                else:
                    rep.proved('wk', g.qname, ctx, 'window 2*lag+1 -> W[lag+1:]; NFFT-point transform; real part; lag/norm forwarded', gw)
    # default transform length: with NFFT=None the periodogram has one point per *time sample* (N), also for column-wise 2-D input
    n_def = 0
    for cplx in (False, True):
        for two_d in (False, True):
            x = C.data(cplx, phase=False)
            if two_d:
                x.shape = (C.N_SYM, Aff.sym('Cc'))
            v, itp = C.run_function(prog, 'periodogram', 'speriodogram', [x],
                                    {'NFFT': Const(None), 'detrend': Const(False), 'scale_by_freq': Const(False), 'sampling': C.sampling(),
                                     'window': StrV('window')})
            ctx = '%s,%s,NFFT=None' % ('complex' if cplx else 'real', '2-D' if two_d else '1-D')
            n_def += 1
            if blocked(rep, 'fft', f.qname, ctx, itp):
                continue
            ff = [e for e in itp.events if e[0] == 'fft']
            if len(ff) != 1:
                rep.undecided('fft', f.qname, ctx, 'expected one transform, saw %d' % len(ff), where)
                continue
            nlen = ff[0][4]
            la = _int_aff(nlen) if nlen is not None and not (isinstance(nlen, Const) and nlen.v is None) else C.N_SYM
            if la is not None and la == C.N_SYM:
                rep.proved('fft', f.qname, ctx, 'default transform length = number of time samples', where)
            else:
                rep.violation('fft', f.qname, ctx, 'with NFFT=None the transform length is %s, not the number of time samples N: the columns '
                              'are truncated or zero-padded to the number of channels' % la, where)
    rep.floor('default-length contexts', n_def, 4)
    rep.floor('dim contexts', n_dim, 24)
    rep.floor('forwarding contexts', n_fwd, 4)
    rep.floor('correlogram contexts', n_wk, 8)
