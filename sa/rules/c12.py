"""C12 — Yule-Walker models: decidable wiring clauses (biased autocorrelation -> Levinson), buffer distinctness, lpc padding."""
import ast
from fractions import Fraction as F

from ..frontend import AnalysisError, loc, normalise
from ..values import *      # noqa
from .. import contexts as C
from ..d1rules import check_sink, report_conflicts, blocked, psd_classes, ctor_args

PROP = 'C12'
LEVEL = 'other'


def alias_allocations(prog, mod, fname):
    """`A = B = zeros(...)`: two names bound to ONE buffer that are both stored into element-wise"""
    f = prog.func(mod, fname)
    out = []
    for st in ast.walk(f.node):
        if isinstance(st, ast.Assign) and len(st.targets) > 1 and isinstance(st.value, ast.Call):
            names = [t.id for t in st.targets if isinstance(t, ast.Name)]
            fn = st.value.func
            base = fn.attr if isinstance(fn, ast.Attribute) else (fn.id if isinstance(fn, ast.Name) else '')
            if base in ('zeros', 'ones', 'empty', 'array', 'zeros_like') and len(names) > 1:
                stored = set()
                for x in ast.walk(f.node):
                    if isinstance(x, ast.Subscript) and isinstance(x.ctx, ast.Store) and isinstance(x.value, ast.Name):
                        stored.add(x.value.id)
                both = [n for n in names if n in stored]
                if len(both) > 1:
                    out.append((st, both))
    return f, out


def run(prog, rep, tier='quick'):
    rep.explanation = (
        'Decidable clauses of C12: (wiring) aryule = LEVINSON(CORRELATION(X, maxlags=order, norm)), with norm defaulting to / '
        'passed as \'biased\' by pyule and by both fits of ma(): the autocorrelation handed to Levinson is the one CORRELATION '
        'returned, of the data, with exactly `order` lags, and aryule returns Levinson\'s triple unchanged (the biased estimate '
        'is what makes the Toeplitz matrix positive semi-definite, hence the model stable); (buffers) the coefficient and '
        'reflection arrays of LEVINSON are distinct allocations; (lpc) the FFT used for the autocorrelation is at least '
        '2*len(x)-1 long (no circular wrap of the lags), the sequence handed to LEVINSON is real and positively scaled, and '
        'LEVINSON is asked for the requested order; (scaling) coefficients degree 0, variance degree 2. NOT decided: '
        'stability, |k|<1, autocorrelation matching (theorems about the biased estimate, numerical).')
    rep.rule('wiring', 'CORRELATION(x, maxlags=order, norm=norm) -> LEVINSON(r) -> returned triple; norm biased by default')
    rep.rule('buffers', 'no two element-stored arrays share one allocation')
    rep.rule('admission', 'no guard on (N, order) raises on the grid N=3..9, order=1..N-1 (aryule and everything it calls)')
    seen_gb = set()
    rep.rule('lpc', 'fft length argument of nextpow2 >= 2*len(x)-1; LEVINSON(R, N) with R real')
    rep.rule('scaling', 'a, k: s=0 ; rho: s=2')
    seen = set()
    ary = prog.func('yulewalker', 'aryule')
    cor = prog.func('correlation', 'CORRELATION')
    lev = prog.func('levinson', 'LEVINSON')
    where = loc(ary.mod, ary.node)
    n_w = 0
    # default norm of aryule
    a = ary.node.args
    names = [x.arg for x in a.args]
    dflt = None
    if 'norm' in names:
        j = names.index('norm') - (len(names) - len(a.defaults))
        if j >= 0 and isinstance(a.defaults[j], ast.Constant):
            dflt = a.defaults[j].value
    if dflt == 'biased':
        rep.proved('wiring', ary.qname, 'default norm', "norm='biased'", where)
    else:
        rep.violation('wiring', ary.qname, 'default norm', 'aryule defaults to norm=%r: only the biased autocorrelation guarantees a '
                      'positive semi-definite Toeplitz matrix (stable model)' % (dflt,), where)
    for cplx in (False, True):
        for norm in (None, 'biased', 'unbiased'):
            itp = C.new_interp(prog)
            itp.watch[cor.qname] = []
            itp.watch[lev.qname] = []
            x = C.data(cplx)
            order = C.symint('P', 2, 'order')
            kw = {} if norm is None else {'norm': Const(norm)}
            v, itp = C.run_function(prog, 'yulewalker', 'aryule', [x, order], kw, itp=itp)
            ctx = 'norm=%s,%s' % (norm or 'default', 'complex' if cplx else 'real')
            n_w += 1
            if blocked(rep, 'wiring', ary.qname, ctx, itp):
                continue
            gb = [e for e in itp.events if e[0] == 'guard-break' and e[4] in (lev.qname, cor.qname, ary.qname) and 'x' in e[3]]
            for e in gb[:1]:
                key = ('full-order', e[4], normalise(e[1].test))
                if key not in seen_gb:
                    seen_gb.add(key)
                    rep.violation('wiring', e[4], 'if %s: %s' % (normalise(e[1].test)[:50], e[2]), 'the recursion is left on a condition computed '
                                  'from the data: the orders after that point are never processed, so the model does not match the first '
                                  'p+1 autocorrelation lags [%s]' % ctx, loc(e[4].split('.')[0], e[1]))
            cc, lc = itp.watch[cor.qname], itp.watch[lev.qname]
            bad = []
            if len(cc) != 1 or len(lc) != 1:
                bad.append('expected one CORRELATION and one LEVINSON call (saw %d, %d)' % (len(cc), len(lc)))
            else:
                p = cc[0]['params']
                if not (isinstance(p.get('x'), Num) and p['x'].uid == x.uid):
                    bad.append('CORRELATION is not applied to the data')
                yv = p.get('y')
                if not (yv is None or (isinstance(yv, Const) and yv.v is None)):
                    bad.append('a second sequence is passed to CORRELATION')
                ml = p.get('maxlags')
                if not (isinstance(ml, IntV) and ml.a == order.a):
                    bad.append('maxlags is %s, not the order' % getattr(ml, 'a', ml))
                nv = p.get('norm')
                want = norm or 'biased'
                if not (isinstance(nv, Const) and nv.v == want):
                    bad.append('norm passed to CORRELATION is %r, requested %r' % (getattr(nv, 'v', nv), want))
                r = cc[0]['ret']
                lp = lc[0]['params']
                if not (isinstance(lp.get('r'), Num) and isinstance(r, Num) and lp['r'].uid == r.uid):
                    bad.append('LEVINSON does not receive the autocorrelation CORRELATION returned')
                o2 = lp.get('order')
                if not (o2 is None or (isinstance(o2, Const) and o2.v is None) or (isinstance(o2, IntV) and o2.a == order.a)):
                    bad.append('LEVINSON is asked for order %s' % getattr(o2, 'a', o2))
                lr = lc[0]['ret']
                if not (isinstance(v, Tup) and isinstance(lr, Tup) and len(v.items) == 3 and
                        all(getattr(a_, 'uid', 1) == getattr(b_, 'uid', 2) for a_, b_ in zip(v.items, lr.items))):
                    bad.append('aryule does not return the (A, P, k) triple of LEVINSON unchanged')
            if bad:
                rep.violation('wiring', ary.qname, ctx, '; '.join(bad), where)
            else:
                rep.proved('wiring', ary.qname, ctx, 'CORRELATION(x, order, %s) -> LEVINSON -> result' % (norm or 'biased'), where)
            if isinstance(v, Tup) and len(v.items) == 3:
                report_conflicts(rep, 'scaling', itp, ('s',), 'aryule,' + ctx, seen)
                check_sink(rep, 'scaling', ary.qname, ctx, 'a', v.items[0], {'s': F(0)}, where)
                check_sink(rep, 'scaling', ary.qname, ctx, 'rho', v.items[1], {'s': F(2)}, where)
                check_sink(rep, 'scaling', ary.qname, ctx, 'k', v.items[2], {'s': F(0)}, where)
    # callers fix the biased estimate
    for mod, fname, mk in (('arma', 'ma', lambda x: ([x, C.symint('Q', 1, 'order'), C.symint('M', 2, 'order')], {})),):
        f = prog.func(mod, fname)
        itp = C.new_interp(prog)
        itp.watch[cor.qname] = []
        x = C.data(True)
        args, kw = mk(x)
        v, itp = C.run_function(prog, mod, fname, args, kw, itp=itp)
        cc = itp.watch[cor.qname]
        norms = [getattr(c['params'].get('norm'), 'v', None) for c in cc]
        n_w += 1
        if len(cc) == 2 and all(n_ == 'biased' for n_ in norms):
            rep.proved('wiring', f.qname, 'both Yule-Walker fits', 'biased autocorrelation twice', loc(f.mod, f.node))
        else:
            rep.violation('wiring', f.qname, 'both Yule-Walker fits', 'the two chained fits use norms %s (required: biased, biased)' % norms, loc(f.mod, f.node))
    pyu = prog.cls('yulewalker', 'pyule')
    for cplx in (False, True):
        itp = C.new_interp(prog)
        itp.watch[cor.qname] = []
        kw = ctor_args(pyu, cplx, 'even', scale=False)
        ref, obj, itp, ok = C.run_class(prog, pyu.mod, pyu.name, [], kw, itp=itp)
        cc = itp.watch[cor.qname]
        n_w += 1
        norms = [getattr(c['params'].get('norm'), 'v', None) for c in cc]
        lags = [getattr(c['params'].get('maxlags'), 'a', None) for c in cc]
        if ok and len(cc) == 1 and norms == ['biased'] and lags == [kw['order'].a]:
            rep.proved('wiring', pyu.qname, 'default construction [%s]' % ('complex' if cplx else 'real'), 'biased, maxlags = order', loc(pyu.mod, pyu.node))
        else:
            rep.violation('wiring', pyu.qname, 'default construction [%s]' % ('complex' if cplx else 'real'),
                          'pyule(data, order) estimates with norm %s and lags %s' % (norms, lags), loc(pyu.mod, pyu.node))
    # ---------------- buffers
    n_b = 0
    for mod, fname in (('levinson', 'LEVINSON'), ('correlation', 'CORRELATION'), ('toeplitz', 'HERMTOEP'), ('toeplitz', 'TOEPLITZ'), ('burg', 'arburg')):
        f, al = alias_allocations(prog, mod, fname)
        n_b += 1
        if al:
            st, both = al[0]
            rep.violation('buffers', f.qname, normalise(st), 'the arrays %s are one allocation: element stores into one overwrite the '
                          'other (e.g. reflection coefficients become the AR coefficients)' % both, loc(f.mod, f.node))
        else:
            rep.proved('buffers', f.qname, 'allocations', 'each element-stored array has its own allocation', loc(f.mod, f.node))
    # ---------------- lpc
    lpc = prog.func('lpc', 'lpc')
    itp = C.new_interp(prog)
    itp.watch['tools.nextpow2'] = []
    itp.watch[lev.qname] = []
    x = C.data(False)
    v, itp = C.run_function(prog, 'lpc', 'lpc', [x], {}, itp=itp)
    lw = loc(lpc.mod, lpc.node)
    n_l = 0
    # the transform length of the autocorrelation: a value with a derived lower bound (2 ** ceil(log2(n)) >= n, however it is spelt:
    # tools.nextpow2, math.log2 / numpy.log2 with ceil, next_fast_len) that covers the 2*len(x)-1 lags
    here = {lpc.qname} | {q_ for q_ in itp.trace if q_.startswith('lpc.')}
    ffts = [e for e in itp.events if e[0] == 'fft' and e[2] == 'fft' and isinstance(e[6], Num) and 'x' in e[6].taint]
    if not ffts:
        rep.undecided('lpc', lpc.qname, 'fft length', 'forward transform of the data not found', lw)
    else:
        nlen = ffts[0][4]
        n_l += 1
        need = C.N_SYM.scale(2) - 1
        ia_ = nlen.a if isinstance(nlen, IntV) else (tonum(nlen).ex if (nlen is not None and tonum(nlen) is not None) else None)
        lb = getattr(nlen, 'lb', None) if nlen is not None else None
        ub = getattr(nlen, 'ub', None) if nlen is not None else None
        low = ia_ if ia_ is not None else lb
        if nlen is None or (isinstance(nlen, Const) and nlen.v is None):
            rep.violation('lpc', lpc.qname, 'fft length', 'the data are transformed at their own length: the circular correlation wraps into '
                          'the lags used', lw)
        elif low is not None:
            d = low - need
            s_ = d.sign() if not d.is_const() else ((d.c > 0) - (d.c < 0))
            if (s_ is not None and s_ >= 0) or d.nonneg():
                rep.proved('lpc', lpc.qname, 'fft length', 'transform length >= %s >= 2*len(x)-1' % low, lw)
            else:
                rep.violation('lpc', lpc.qname, 'fft length', 'the autocorrelation FFT length is only known to reach %s, which can be shorter '
                              'than 2*len(x)-1 = %s: the circular correlation wraps into the lags used' % (low, need), lw)
        elif ub is not None:
            rep.violation('lpc', lpc.qname, 'fft length', 'the autocorrelation FFT length is at most %s (a power of two rounded DOWN): shorter '
                          'than the 2*len(x)-1 lags unless that is itself a power of two' % ub, lw)
        else:
            rep.undecided('lpc', lpc.qname, 'fft length', 'no lower bound derivable for the transform length', lw)
    lc = itp.watch[lev.qname]
    if len(lc) == 1:
        n_l += 1
        R = lc[0]['params'].get('r')
        o = lc[0]['params'].get('order')
        okR = isinstance(R, Num) and (R.cplx is False or R.rv) and deq(R.deg['s'], 2)
        okO = isinstance(o, IntV) and o.a is not None and o.a == C.N_SYM - 1
        if okR and okO and R.nonneg:
            # the lags are a linear readout (real part) of the inverse transform; a sequence that is non-negative by construction
            # (a modulus) has lost the sign of every negative lag
            rep.violation('lpc', lpc.qname, 'LEVINSON(R, N)', 'the sequence handed to LEVINSON is non-negative by construction (a modulus / '
                          'square), so negative autocorrelation lags are flipped: lpc no longer solves the Yule-Walker equations of the data', lw)
        elif okR and okO:
            rep.proved('lpc', lpc.qname, 'LEVINSON(R, N)', 'real autocorrelation of degree 2, default order len(x)-1', lw)
        else:
            rep.violation('lpc', lpc.qname, 'LEVINSON(R, N)', 'LEVINSON receives %r with order %s' % (R, getattr(o, 'a', o)), lw)
    else:
        rep.undecided('lpc', lpc.qname, 'LEVINSON(R, N)', 'LEVINSON call not found', lw)
    # the stated domain (orders 1..N-1) is admitted
    from ..d1rules import admission_of
    seen_adm = set()
    grid = [{'N': n_, 'Pa': p_} for n_ in range(3, 10) for p_ in range(1, n_)]
    for cplx_ in (False, True):
        admission_of(rep, prog, 'admission', 'yulewalker', 'aryule',
                     lambda: ([C.data(cplx_), IntV(Aff.sym('Pa'), frozenset(['order']))], {}), grid,
                     lambda w: 'N = %d samples, order = %d' % (w['N'], w['Pa']), seen_adm)
    rep.floor('wiring contexts', n_w, 9)
    rep.floor('buffer functions', n_b, 5)
    rep.floor('lpc obligations', n_l, 2)
