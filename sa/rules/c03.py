"""C03 — estimates are quadratic in signal amplitude (D1: scaling dimensions).

x -> c*x.  Magnitude law (c > 0): exponent `s`.  Phase law (c = exp(i*phi), complex data): exponent `g`.
Every functional estimator and every PSD class is abstractly interpreted with x:(s=1,g=1|0); the obligation
is that every output has the exponent C03 states and that no operation anywhere in its call tree combines
two known, different exponents (such a term is not covariant) and no data-dependent decision is variant."""
from fractions import Fraction as F

from ..frontend import AnalysisError, loc, normalise
from ..values import *      # noqa
from .. import contexts as C
from ..d1rules import (psd_classes, ctor_args, check_sink, report_conflicts, blocked, PSD_FIELD)

PROP = 'C03'
LEVEL = 'proof'
RULE = 'homogeneous'
RULEP = 'phase-covariant'

# row-block constructs whose global-phase exponent is row-separable (forward rows x, backward rows conj(x)); svd /
# lstsq are invariant under a unitary diagonal acting on the rows, which the scalar `g` exponent cannot express.
# The phase law is therefore NOT decided for the functions below (magnitude law is).
PHASE_NOT_DECIDED = {
    'eigenfre.eigen': 'forward/backward data matrix FB: row-separable phase',
    'modcovar.modcovar': "corrmtx(..,'modified'): row-separable phase",
}


def S(v):
    return {'s': F(v)}


def criteria_names(prog):
    cls = prog.cls('criteria', 'Criteria')
    ca = cls.find_attr('valid_criteria_names')
    if ca is None:
        raise AnalysisError('Criteria.valid_criteria_names vanished')
    import ast
    return list(ast.literal_eval(ca[1]))


def tup(v, n):
    if isinstance(v, Tup) and len(v.items) == n:
        return v.items
    return [None] * n


def function_table(prog):
    """(mod, fname, [(ctx label, args(cplx, phase) -> (args, kwargs))], sinks(ret) -> [(name, val, s-degree, g-degree)])"""
    T = []
    L = lambda: C.symint('L', 1, 'lag')
    P = lambda: C.symint('P', 2, 'order')

    def per(ctxs):
        return ctxs
    # --- correlation
    for norm, d in (('biased', 2), ('unbiased', 2), ('coeff', 0), (None, 2)):
        T.append(('correlation', 'CORRELATION', 'norm=%s' % norm,
                  lambda x, norm=norm: ([x], {'maxlags': L(), 'norm': Const(norm)}),
                  lambda r, d=d: [('r', r, d, 0)]))
        T.append(('correlation', 'xcorr', 'norm=%s' % norm,
                  lambda x, norm=norm: ([x], {'maxlags': L(), 'norm': Const(norm)}),
                  lambda r, d=d: [('r', tup(r, 2)[0], d, 0)]))
    # --- periodogram / correlogram
    for det in (False, True):
        T.append(('periodogram', 'speriodogram', 'detrend=%s' % det,
                  lambda x, det=det: ([x], {'NFFT': C.nfft('even'), 'detrend': Const(det), 'scale_by_freq': Const(False),
                                            'window': StrV('window')}),
                  lambda r: [('psd', r, 2, 0)]))
    for cm in ('xcorr', 'CORRELATION'):
        for norm, d in (('unbiased', 2), ('biased', 2)):
            T.append(('correlog', 'CORRELOGRAMPSD', 'method=%s,norm=%s' % (cm, norm),
                      lambda x, cm=cm, norm=norm: ([x], {'lag': C.symint('lag', 2, 'lag'), 'NFFT': C.nfft('even'),
                                                         'window': StrV('window'), 'norm': Const(norm),
                                                         'correlation_method': Const(cm)}),
                      lambda r, d=d: [('psd', r, d, 0)]))
    # --- AR family
    for crit in [None] + criteria_names(prog):
        T.append(('burg', 'arburg', 'criteria=%s' % crit,
                  lambda x, crit=crit: ([x, P(), Const(crit)], {}),
                  lambda r: [('a', tup(r, 3)[0], 0, 0), ('rho', tup(r, 3)[1], 2, 0), ('ref', tup(r, 3)[2], 0, 0)]))
    T.append(('burg', '_arburg2', '', lambda x: ([x, P()], {}),
              lambda r: [('a', tup(r, 3)[0], 0, 0), ('E', tup(r, 3)[1], 2, 0), ('ref', tup(r, 3)[2], 0, 0)]))
    for norm in ('biased', 'unbiased'):
        T.append(('yulewalker', 'aryule', 'norm=%s' % norm, lambda x, norm=norm: ([x, P()], {'norm': Const(norm)}),
                  lambda r: [('a', tup(r, 3)[0], 0, 0), ('rho', tup(r, 3)[1], 2, 0), ('ref', tup(r, 3)[2], 0, 0)]))
    T.append(('covar', 'arcovar', '', lambda x: ([x, P()], {}),
              lambda r: [('a', tup(r, 2)[0], 0, 0), ('e', tup(r, 2)[1], 2, 0)]))
    T.append(('covar', 'arcovar_marple', '', lambda x: ([x, P()], {}),
              lambda r: [('af', tup(r, 5)[0], 0, 0), ('pf', tup(r, 5)[1], 2, 0), ('ab', tup(r, 5)[2], 0, 0),
                         ('pb', tup(r, 5)[3], 2, 0), ('pbv', tup(r, 5)[4], 2, 0)]))
    T.append(('modcovar', 'modcovar', '', lambda x: ([x, P()], {}),
              lambda r: [('a', tup(r, 2)[0], 0, 0), ('e', tup(r, 2)[1], 2, 0)]))
    T.append(('modcovar', 'modcovar_marple', '', lambda x: ([x, P()], {}),
              lambda r: [('a', tup(r, 3)[0], 0, 0), ('P', tup(r, 3)[1], 2, 0), ('Pv', tup(r, 3)[2], 2, 0)]))
    T.append(('arma', 'ma', '', lambda x: ([x, C.symint('Q', 1, 'order'), C.symint('M', 2, 'order')], {}),
              lambda r: [('ma', tup(r, 2)[0], 0, 0), ('rho', tup(r, 2)[1], 2, 0)]))
    for p in (3, 7):
        T.append(('arma', 'arma_estimate', 'P=%d' % p,
                  lambda x, p=p: ([x, Const(p), Const(2), C.symint('lag', 2, 'lag')], {}),
                  lambda r: [('ar', tup(r, 3)[0], 0, 0), ('ma', tup(r, 3)[1], 0, 0), ('rho', tup(r, 3)[2], 2, 0)]))
    T.append(('minvar', 'minvar', '', lambda x: ([x, P()], {'NFFT': C.nfft('even')}),
              lambda r: [('psd', tup(r, 3)[0], 2, 0), ('A', tup(r, 3)[1], 0, 0), ('k', tup(r, 3)[2], 0, 0)]))
    T.append(('levinson', 'LEVINSON', 'autocorrelation input',
              lambda x: ([Num({**zero_deg(), 's': F(2)}, (C.symint('L', 1, 'lag').a + 1,), x.cplx)], {}),
              lambda r: [('a', tup(r, 3)[0], 0, 0), ('P', tup(r, 3)[1], 2, 0), ('ref', tup(r, 3)[2], 0, 0)]))
    T.append(('arma', 'arma2psd', 'A,B,rho',
              lambda x: ([], {'A': C.deg0((C.symint('P', 2).a,), x.cplx), 'B': C.deg0((C.symint('Q', 1).a,), x.cplx),
                              'rho': Num({**zero_deg(), 's': F(2)}, (), False), 'NFFT': C.nfft('even')}),
              lambda r: [('psd', r, 2, 0)]))
    # --- subspace
    for method, d in (('music', 0), ('ev', 1)):
        for sel, kw in (('NSIG', lambda: {'NSIG': C.symint('NSIG', 1, 'NSIG')}),
                        ('threshold', lambda: {'threshold': C.deg0(label='threshold')}),
                        ('aic', lambda: {'criteria': Const('aic')}), ('mdl', lambda: {'criteria': Const('mdl')})):
            T.append(('eigenfre', 'eigen', 'method=%s,%s' % (method, sel),
                      lambda x, method=method, kw=kw: ([x, P()], dict(kw(), method=Const(method), NFFT=C.nfft('even'))),
                      lambda r, d=d: [('pseudo-spectrum', tup(r, 2)[0], d, 0), ('singular values', tup(r, 2)[1], 1, 0)]))
    # --- multitaper
    for method in ('unity', 'eigen', 'adapt'):
        T.append(('mtm', 'pmtm', 'method=%s' % method,
                  lambda x, method=method: ([x], {'NW': C.deg0(label='NW'), 'k': C.symint('K', 1, 'k'),
                                                  'NFFT': C.nfft('even'), 'method': Const(method)}),
                  lambda r: [('eigenspectra', tup(r, 3)[0], 1, 1), ('weights', tup(r, 3)[1], 0, 0),
                             ('eigenvalues', tup(r, 3)[2], 0, 0)]))
    return T


def class_sinks(cname):
    """fields of the object after __call__ and their required exponents (s, g)"""
    psd = {'pmusic': 0, 'pev': 1}.get(cname, 2)
    sinks = [('psd', PSD_FIELD, psd, 0)]
    for f, d in (('_ParametricSpectrum__ar', 0), ('_ParametricSpectrum__ma', 0), ('_ParametricSpectrum__reflection', 0),
                 ('_ParametricSpectrum__rho', 2)):
        sinks.append((f.split('__')[-1], f, d, 0))
    sinks.append(('eigenvalues', 'eigenvalues', 1 if cname in ('pmusic', 'pev') else 0, 0))
    sinks.append(('weights', 'weights', 0, 0))
    return sinks


def run(prog, rep, tier='quick'):
    rep.explanation = (
        'Proves the transformation law of C03 for all data vectors and all scalars c at once: the abstract '
        'interpreter assigns every value its exponents under x->c*x (magnitude exponent s; global-phase exponent g '
        'for complex data) through the whole call tree of each estimator (functions and PSD classes, constructed '
        'through their real __init__ chain). Outputs must carry the exponents C03 states (PSD and variances 2, '
        'coefficients / reflection coefficients / weights 0, singular values 1, MUSIC 0, EV 1) and no addition, '
        'comparison, store or branch may combine different exponents (order/subspace decisions invariant). '
        'Does not decide floating-point rounding. Phase law not decided for: %s.' % PHASE_NOT_DECIDED)
    rep.rule(RULE, 'every output sink has the required magnitude exponent and no operation in the call tree combines '
             'two known different magnitude exponents; data-dependent conditions compare equal exponents')
    rep.rule(RULEP, 'same for the global-phase exponent g (complex data): .real/.imag/log/sign tests only of g=0 values')
    rep.assumptions += ['exact arithmetic (algebraic law, not rounding)', 'inputs are 1-D numpy arrays of numbers',
                        'asserts are not treated as decisions (an assert on a rounding-level quantity)']
    seen = set()
    nfun = ncls = 0
    funcs_done = set()
    table = function_table(prog)
    for mod, fname, ctx, mkargs, sinks in table:
        f = prog.func(mod, fname)
        fq = f.qname
        for cplx in (False, True):
            for phase in ((False, True) if cplx else (False,)):
                if phase and fq in PHASE_NOT_DECIDED:
                    continue
                label = '%s,%s%s' % (ctx, 'complex' if cplx else 'real', ',phase' if phase else '')
                args, kwargs = mkargs(C.data(cplx, phase=phase))
                v, itp = C.run_function(prog, mod, fname, args, kwargs)
                nfun += 1
                funcs_done.add(fq)
                rule = RULEP if phase else RULE
                comps = ('g',) if phase else ('s',)
                if blocked(rep, rule, fq, label, itp):
                    continue
                nconf = report_conflicts(rep, rule, itp, comps, label, seen)
                for e_ in [e_ for e_ in itp.events if e_[0] == 'unbounded-degree']:
                    k_ = ('unbounded', e_[3], normalise(e_[1]))
                    if k_ not in seen and not phase:
                        seen.add(k_)
                        rep.violation(rule, e_[3], normalise(e_[1])[:70], 'an intermediate of magnitude degree %s, growing with an array length: '
                                      'for data scaled by c it carries c**n and under- or overflows (log(0), inf) for scales moderately far '
                                      'from 1, so the decision taken from it changes with the amplitude although the formula is homogeneous; '
                                      'take the root / the logarithm element by element before combining' % e_[2], loc(e_[3].split('.')[0], e_[1]))
                if v is None:
                    rep.undecided(rule, fq, 'no returning path [%s]' % label, 'the abstract run never returns')
                    continue
                for name, val, ds, dg in sinks(v):
                    exp = {'g': F(dg)} if phase else {'s': F(ds)}
                    if nconf and _is_top(val, comps):
                        continue      # already reported at the conflicting construct
                    check_sink(rep, rule, fq, label, name, val, exp, loc(f.mod, f.node), itp, comps, seen)
    # ---------------- classes
    classes = psd_classes(prog)
    for cls in classes:
        for cplx in (False, True):
            for phase in ((False, True) if cplx else (False,)):
                if phase and cls.name in ('pmusic', 'pev', 'pmodcovar'):
                    continue
                label = '%s%s' % ('complex' if cplx else 'real', ',phase' if phase else '')
                kw = ctor_args(cls, cplx, 'even', scale=False, phase=phase)
                ref, obj, itp, ok = C.run_class(prog, cls.mod, cls.name, [], kw)
                ncls += 1
                rule = RULEP if phase else RULE
                comps = ('g',) if phase else ('s',)
                fq = cls.qname
                if blocked(rep, rule, fq, label, itp):
                    continue
                nconf = report_conflicts(rep, rule, itp, comps, '%s,%s' % (cls.name, label), seen)
                if not ok or obj is None:
                    rep.undecided(rule, fq, 'no returning path [%s]' % label, 'constructor or __call__ never returns')
                    continue
                for name, field, ds, dg in class_sinks(cls.name):
                    if field not in obj.f:
                        continue
                    val = obj.f[field]
                    if isinstance(val, Const) and val.v is None:
                        continue
                    if nconf and _is_top(val, comps):
                        continue
                    check_sink(rep, rule, fq, label, name, val, {'g': F(dg)} if phase else {'s': F(ds)},
                               loc(cls.mod, cls.node), itp, comps, seen)
    rep.analysed['functions'] = sorted(funcs_done)
    rep.analysed['classes'] = [c.qname for c in classes]
    rep.analysed['abstract_runs'] = nfun + ncls
    from ..prims import USED
    rep.trusted += sorted(USED)
    rep.floor('functional estimators analysed', len(funcs_done), 18)
    rep.floor('PSD classes analysed', len(classes), 12)
    rep.floor('abstract runs', nfun + ncls, 100)


def _is_top(val, comps):
    n = tonum(val) if val is not None and not isinstance(val, (Tup, SeqV, TopV, Opaque, StrV)) else None
    if isinstance(val, SeqV) and val.elem is not None:
        n = tonum(val.elem)
    if n is None:
        return False
    if n.log is not None:
        return any(n.log.get(c) is TOP for c in comps)
    return any(n.deg[c] is TOP for c in comps)
