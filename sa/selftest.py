"""Non-vacuity self-test (thorough tier): in-memory variants of today's sources.

Each variant is a textual edit of one module of the *current* /repo tree, re-parsed and analysed in memory (no
scratch copy on disk).  `fire` variants break the property and must yield a new violation; `silent` variants
are behaviour-preserving refactors and must yield none.  A variant whose anchor text no longer exists in the
tree is reported as skipped (never as a pass): the corpus is pinned to today's code, the *rules* are not."""
import importlib
import json
import os
from concurrent.futures import ProcessPoolExecutor

from .frontend import Program, read_repo_sources, AnalysisError
from .report import Report, VIOLATION, UNDECIDED, load_known

HERE = os.path.dirname(os.path.abspath(__file__))
CORPUS = os.path.join(HERE, 'selftest_corpus.json')


def load_corpus(prop):
    with open(CORPUS) as fh:
        allv = json.load(fh)
    out = [v for v in allv if v['property'] == prop]
    verif = os.path.dirname(HERE)
    # changes seeded by independent agents that this property's check is recorded to catch: they must keep firing
    detf = os.path.join(verif, 'seeded', 'DETECTION.json')
    if os.path.exists(detf):
        det = json.load(open(detf))
        for name in sorted(det):
            pf = os.path.join(verif, 'seeded', name, 'patch.diff')
            if prop in det[name] and os.path.exists(pf):
                out.append({'property': prop, 'name': 'seeded:' + name, 'patch': pf, 'expect': 'fire'})
    # behaviour-preserving refactorings of this property's code from independent agents: the check must stay silent
    rdir = os.path.join(verif, 'refactors')
    if os.path.isdir(rdir):
        for name in sorted(os.listdir(rdir)):
            mf, pf = os.path.join(rdir, name, 'meta.json'), os.path.join(rdir, name, 'patch.diff')
            if os.path.exists(mf) and os.path.exists(pf):
                try:
                    m = json.load(open(mf))
                except ValueError:
                    continue
                if m.get('agent_meta', {}).get('property') == prop and m.get('confirmed_behaviour_preserving'):
                    out.append({'property': prop, 'name': 'refactor:' + name, 'patch': pf, 'expect': 'silent'})
    return out


def apply_unified_diff(sources, text):
    """apply a `git diff` to the {module: source} map (python files under src/spectrum only); returns None or a reason"""
    import re
    cur = None
    hunks = {}
    for line in text.splitlines():
        if line.startswith('+++ '):
            m = re.match(r'\+\+\+ b/src/spectrum/([A-Za-z0-9_]+)\.py', line)
            cur = m.group(1) if m else None
            continue
        if line.startswith(('diff --git', 'index ', '--- ', 'new file', 'deleted file', 'similarity', 'rename')):
            continue
        if line.startswith('@@'):
            m = re.match(r'@@ -(\d+)(?:,(\d+))? \+(\d+)(?:,(\d+))? @@', line)
            if cur is not None and m:
                hunks.setdefault(cur, []).append([int(m.group(1)), []])
            continue
        if cur is not None and cur in hunks and hunks[cur] and line[:1] in (' ', '-', '+', ''):
            hunks[cur][-1][1].append(line if line else ' ')
    if not hunks:
        return 'no python hunk under src/spectrum'
    for mod, hs in hunks.items():
        if mod not in sources:
            return 'module %s not in the tree' % mod
        lines = sources[mod].split('\n')
        off = 0
        for start, body in hs:
            old = [b[1:] for b in body if b[:1] in (' ', '-')]
            new = [b[1:] for b in body if b[:1] in (' ', '+')]
            pos = start - 1 + off
            if lines[pos:pos + len(old)] != old:
                # look for the old block elsewhere (the file moved a little)
                found = [i for i in range(len(lines) - len(old) + 1) if lines[i:i + len(old)] == old]
                if len(found) != 1:
                    return 'hunk at line %d of %s does not match the current source' % (start, mod)
                pos = found[0]
            lines[pos:pos + len(old)] = new
            off += len(new) - len(old)
        sources[mod] = '\n'.join(lines)
    return None


def _run_variant(job):
    prop, v, src_dir = job
    import sys
    sys.setrecursionlimit(10000)
    try:
        sources = read_repo_sources(src_dir)
        if 'patch' in v:
            why = apply_unified_diff(sources, open(v['patch']).read())
            if why:
                return (v['name'], 'skipped', why, [])
        else:
            mod = v['module']
            if mod not in sources or sources[mod].count(v['old']) < 1:
                return (v['name'], 'skipped', 'anchor text not found in %s' % mod, [])
            sources[mod] = sources[mod].replace(v['old'], v['new'], v.get('count', 1))
        prog = Program(sources)
        rmod = importlib.import_module('sa.rules.%s' % prop.lower())
        rep = Report(prop)
        try:
            from .cli import run_rules
            run_rules(prop, rmod, prog, rep, 'quick')
        except AnalysisError as e:
            rep.error('analysis broken: %s' % e)
        known = [k for k in load_known() if k.get('property') == prop and k.get('status') == 'known']
        viol = []
        for o in rep.obls:
            if o.status == VIOLATION and not any(k.get('rule') == o.rule and k.get('function') == o.function
                                                 and k.get('construct') == o.construct for k in known):
                viol.append('%s | %s | %s' % (o.rule, o.function, o.construct))
        und = [o for o in rep.obls if o.status == UNDECIDED]
        errs = list(rep.errors) + ['undecided: %s %s %s' % (o.rule, o.function, o.construct) for o in und]
        for name, count, floor in rep.floors:
            if count < floor:
                errs.append('floor %s %d<%d' % (name, count, floor))
        if v['expect'] == 'fire':
            if viol:
                want = v.get('names')
                if want and not any(want in x for x in viol):
                    return (v['name'], 'FAIL', 'fired but not at the edited construct (%s): %s' % (want, viol[:3]), viol)
                return (v['name'], 'ok', 'fired: %s' % viol[0], viol)
            if errs:
                return (v['name'], 'FAIL', 'exit 2 instead of a violation: %s' % errs[:2], viol)
            return (v['name'], 'FAIL', 'variant breaks the property but the check stayed silent', viol)
        else:
            if viol:
                return (v['name'], 'FAIL', 'false alarm on a behaviour-preserving variant: %s' % viol[:3], viol)
            if errs:
                return (v['name'], 'FAIL', 'analysis error on a behaviour-preserving variant: %s' % errs[:2], viol)
            return (v['name'], 'ok', 'silent', viol)
    except Exception as e:      # pragma: no cover
        import traceback
        return (v['name'], 'FAIL', 'crash %r %s' % (e, traceback.format_exc().splitlines()[-3:]), [])


def selftest(prop, rep, src_dir=None, jobs=None):
    corpus = load_corpus(prop)
    if not corpus:
        rep.analysed['selftest'] = 'no variants registered'
        return
    jobs = jobs or min(16, os.cpu_count() or 4)
    work = [(prop, v, src_dir) for v in corpus]
    with ProcessPoolExecutor(max_workers=jobs) as ex:
        results = list(ex.map(_run_variant, work))
    out = []
    nfire = nsilent = 0
    for (name, status, detail, viol), v in zip(results, corpus):
        out.append({'variant': name, 'expect': v['expect'], 'status': status, 'detail': detail[:300]})
        if status == 'FAIL':
            rep.error('self-test variant %s (%s): %s' % (name, v['expect'], detail))
        elif status == 'ok':
            if v['expect'] == 'fire':
                nfire += 1
            else:
                nsilent += 1
    rep.extra['selftest'] = {'variants': len(corpus), 'fired_as_expected': nfire, 'silent_as_expected': nsilent,
                             'skipped': len([r for r in results if r[1] == 'skipped']), 'results': out}
    print('%s self-test: %d variants, %d fired as expected, %d silent as expected, %d skipped, %d failed' % (
        prop, len(corpus), nfire, nsilent, len([r for r in results if r[1] == 'skipped']),
        len([r for r in results if r[1] == 'FAIL'])))
