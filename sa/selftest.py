"""Non-vacuity self-test (thorough tier): in-memory variants of today's sources.

Each variant is a textual edit of one module of the *current* /repo tree, re-parsed and analysed in memory (no
scratch copy on disk).  `fire` variants break the property and must yield a new violation; `silent` variants
are behaviour-preserving refactors and must yield none.  A variant whose anchor text no longer exists in the
tree is reported as skipped (never as a pass): the corpus is pinned to today's code, the *rules* are not."""
import importlib
import json
import os
from concurrent.futures import ProcessPoolExecutor

from .frontend import Program, read_repo_sources, AnalysisError
from .report import Report, VIOLATION, UNDECIDED, load_known

HERE = os.path.dirname(os.path.abspath(__file__))
CORPUS = os.path.join(HERE, 'selftest_corpus.json')


def load_corpus(prop):
    with open(CORPUS) as fh:
        allv = json.load(fh)
    return [v for v in allv if v['property'] == prop]


def _run_variant(job):
    prop, v, src_dir = job
    import sys
    sys.setrecursionlimit(10000)
    try:
        sources = read_repo_sources(src_dir)
        mod = v['module']
        if mod not in sources or sources[mod].count(v['old']) < 1:
            return (v['name'], 'skipped', 'anchor text not found in %s' % mod, [])
        sources[mod] = sources[mod].replace(v['old'], v['new'], v.get('count', 1))
        prog = Program(sources)
        rmod = importlib.import_module('sa.rules.%s' % prop.lower())
        rep = Report(prop)
        try:
            from .cli import run_rules
            run_rules(prop, rmod, prog, rep, 'quick')
        except AnalysisError as e:
            rep.error('analysis broken: %s' % e)
        known = [k for k in load_known() if k.get('property') == prop and k.get('status') == 'known']
        viol = []
        for o in rep.obls:
            if o.status == VIOLATION and not any(k.get('rule') == o.rule and k.get('function') == o.function
                                                 and k.get('construct') == o.construct for k in known):
                viol.append('%s | %s | %s' % (o.rule, o.function, o.construct))
        und = [o for o in rep.obls if o.status == UNDECIDED]
        errs = list(rep.errors) + ['undecided: %s %s %s' % (o.rule, o.function, o.construct) for o in und]
        for name, count, floor in rep.floors:
            if count < floor:
                errs.append('floor %s %d<%d' % (name, count, floor))
        if v['expect'] == 'fire':
            if viol:
                want = v.get('names')
                if want and not any(want in x for x in viol):
                    return (v['name'], 'FAIL', 'fired but not at the edited construct (%s): %s' % (want, viol[:3]), viol)
                return (v['name'], 'ok', 'fired: %s' % viol[0], viol)
            if errs:
                return (v['name'], 'FAIL', 'exit 2 instead of a violation: %s' % errs[:2], viol)
            return (v['name'], 'FAIL', 'variant breaks the property but the check stayed silent', viol)
        else:
            if viol:
                return (v['name'], 'FAIL', 'false alarm on a behaviour-preserving variant: %s' % viol[:3], viol)
            if errs:
                return (v['name'], 'FAIL', 'analysis error on a behaviour-preserving variant: %s' % errs[:2], viol)
            return (v['name'], 'ok', 'silent', viol)
    except Exception as e:      # pragma: no cover
        import traceback
        return (v['name'], 'FAIL', 'crash %r %s' % (e, traceback.format_exc().splitlines()[-3:]), [])


def selftest(prop, rep, src_dir=None, jobs=None):
    corpus = load_corpus(prop)
    if not corpus:
        rep.analysed['selftest'] = 'no variants registered'
        return
    jobs = jobs or min(16, os.cpu_count() or 4)
    work = [(prop, v, src_dir) for v in corpus]
    with ProcessPoolExecutor(max_workers=jobs) as ex:
        results = list(ex.map(_run_variant, work))
    out = []
    nfire = nsilent = 0
    for (name, status, detail, viol), v in zip(results, corpus):
        out.append({'variant': name, 'expect': v['expect'], 'status': status, 'detail': detail[:300]})
        if status == 'FAIL':
            rep.error('self-test variant %s (%s): %s' % (name, v['expect'], detail))
        elif status == 'ok':
            if v['expect'] == 'fire':
                nfire += 1
            else:
                nsilent += 1
    rep.extra['selftest'] = {'variants': len(corpus), 'fired_as_expected': nfire, 'silent_as_expected': nsilent,
                             'skipped': len([r for r in results if r[1] == 'skipped']), 'results': out}
    print('%s self-test: %d variants, %d fired as expected, %d silent as expected, %d skipped, %d failed' % (
        prop, len(corpus), nfire, nsilent, len([r for r in results if r[1] == 'skipped']),
        len([r for r in results if r[1] == 'FAIL'])))
