"""helpers for the rules that use the modulation-charge domain (D4)"""
from fractions import Fraction as F

from .frontend import loc
from .values import *      # noqa
from . import contexts as C
from . import charge as Q
from .d1rules import unknown_blocking


def arr(shape_len, alpha, beta, cplx=True, s=0, label=None):
    """abstract array whose element i carries modulation charge alpha*i + beta"""
    d = zero_deg()
    d['s'] = F(s)
    a = Num(d, (shape_len,), cplx, taint=frozenset([label]) if label else frozenset())
    a.q = Q.lin(alpha, aff(beta))
    return a


def scal(charge=0, cplx=False, s=0):
    d = zero_deg()
    d['s'] = F(s)
    a = Num(d, (), cplx)
    a.q = aff(charge)
    return a


def q_expect(v, want):
    """True / False / None(unknown)"""
    if not isinstance(v, Num):
        return None
    q = v.q
    if Q.is_partial(q) and v.shape is not None and len(v.shape) == 1 and v.shape[0] is not None:
        q = Q.from_partial(dict(q[1]), v.shape[0])        # entry-wise charges of a short concrete vector
        if Q.is_partial(q) and v.shape[0].is_const() and len(q[1]) == int(v.shape[0].c):
            w = Q.to_partial(want, v.shape[0])
            if w is not None:
                return all(Q.q_eq(q[1][k], w[k]) for k in w)
    if q is None or q == 'any' or (isinstance(q, tuple) and q[0] in ('partial', 'lin2', 'cols')):
        return None
    if Q.is_lin(want) != Q.is_lin(q):
        return False
    if Q.is_lin(q):
        return q[1] == want[1] and Q.q_eq(q[2], want[2])
    return Q.q_eq(q, want)


def run_d4(prog, mod, fname, args, kwargs=None, summaries=None):
    itp = C.new_interp(prog, d4=True, summaries=summaries)
    v, itp = C.run_function(prog, mod, fname, args, kwargs or {}, itp=itp)
    return v, itp


def report_q(rep, rule, itp, scope, ctx, seen):
    """modulation-charge conflicts inside the functions in `scope` (qualified names) are violations"""
    n = 0
    for c in itp.conflicts:
        if 'q' not in c.comp.split(','):
            continue
        if c.func not in scope:
            continue
        n += 1
        key = (rule, c.func, c.kind, c.construct)
        if key in seen:
            continue
        seen.add(key)
        rep.violation(rule, c.func, '%s: %s' % (c.kind, c.construct), '%s (context %s)' % (c.msg, ctx),
                      'src/spectrum/%s.py:%s' % (c.mod, c.line))
    return n


def check_q(rep, rule, func, ctx, name, v, want, where, nconf=0):
    construct = '%s [%s]' % (name, ctx)
    e = q_expect(v, want)
    if e is True:
        rep.proved(rule, func, construct, 'charge ' + Q.show(want), where)
    elif e is False:
        rep.violation(rule, func, construct, 'modulation charge %s, required %s: the value does not rotate with the '
                      'spectrum under a frequency shift' % (Q.show(v.q), Q.show(want)), where)
    elif nconf:
        pass          # already reported at the conflicting construct
    else:
        rep.undecided(rule, func, construct, 'charge not derivable (%s)' % (Q.show(v.q) if isinstance(v, Num) else v), where)


def blocked(rep, rule, func, ctx, itp):
    ub = unknown_blocking(itp)
    if ub:
        rep.undecided(rule, func, 'unknown primitives [%s]' % ctx, '; '.join('%s in %s' % (u[0], u[1]) for u in ub[:6]))
        return True
    return False
