"""D4 — modulation charge.  Under x[n] -> exp(i*theta*n) x[n] a covariant quantity picks up exp(i*theta*q); q is
its charge.  Scalars carry an affine charge in the enclosing loop symbols; arrays carry q(index) = alpha*index + beta.
Charges are compared modulo NFFT (theta is a multiple of 2*pi/NFFT).

representation of Num.q:
    None                 unknown (silent)
    'any'                the polymorphic zero / an unset buffer
    Aff                  one charge for the scalar / for every element
    ('lin', alpha, beta) element i has charge alpha*i + beta   (alpha Fraction, beta Aff)"""
from fractions import Fraction as F

from .values import Aff, aff, NFFT_AFF

ZERO = Aff(0)


def is_lin(q):
    return isinstance(q, tuple) and q[0] == 'lin'


def lin(alpha, beta):
    alpha = F(alpha)
    if alpha == 0:
        return aff(beta)
    return ('lin', alpha, aff(beta))


def q_eq(a, b):
    """True / False (definitely different for generic sizes) ; a, b Aff"""
    d = a - b
    if d.is_const() and d.c == 0:
        return True
    n = NFFT_AFF[0]
    if n is not None and not d.is_const():
        # multiple of NFFT ?
        for s, v in n.t.items():
            if s in d.t:
                k = d.t[s] / v
                if k.denominator == 1 and (d - n.scale(k)) == ZERO:
                    return True
                break
    if n is not None and n.is_const() and n.c != 0 and d.is_const() and (d.c / n.c).denominator == 1:
        return True
    return False


def q_neg(q):
    if q is None or q == 'any':
        return q
    if isinstance(q, tuple) and q[0] == 'partial':
        return ('partial', {k: -v for k, v in q[1].items()})
    if is_lin(q):
        return ('lin', -q[1], -q[2])
    return -q


def q_mul(a, b, div=False):
    if a is None or b is None:
        return None
    if (isinstance(a, tuple) and a[0] == 'partial') or (isinstance(b, tuple) and b[0] == 'partial'):
        return None
    if a == 'any' or (b == 'any' and not div):
        return 'any'
    if b == 'any':
        return None
    if div:
        b = q_neg(b)
    if is_lin(a) or is_lin(b):
        aa, ab = (a[1], a[2]) if is_lin(a) else (F(0), a)
        ba, bb = (b[1], b[2]) if is_lin(b) else (F(0), b)
        return lin(aa + ba, ab + bb)
    return a + b


def q_same(itp, a, b, node, what):
    """charges of two values that are added / compared / stored together; returns the common charge"""
    if a is None or b is None:
        return None
    if (isinstance(a, tuple) and a[0] == 'partial') or (isinstance(b, tuple) and b[0] == 'partial'):
        r = q_join(a, b)
        if r is None:
            itp.conflict(what, 'q', 'modulation charges %s and %s are inconsistent (a missing/extra conjugate or a wrong index)'
                         % (show(a), show(b)), node)
        return r
    if a == 'any':
        return b
    if b == 'any':
        return a
    if is_lin(a) != is_lin(b):
        la = a if is_lin(a) else ('lin', F(0), a)
        lb = b if is_lin(b) else ('lin', F(0), b)
        a, b = la, lb
    if is_lin(a):
        if a[1] == b[1] and q_eq(a[2], b[2]):
            return lin(a[1], a[2])
        itp.conflict(what, 'q', 'modulation charge per index %s*i+%s vs %s*i+%s (a missing/extra conjugate or a wrong index)'
                     % (a[1], a[2], b[1], b[2]), node)
        return None
    if q_eq(a, b):
        return a
    itp.conflict(what, 'q', 'modulation charge %s vs %s (a missing/extra conjugate or a wrong index)' % (a, b), node)
    return None


def q_index(q, idx):
    """charge of a[idx] (idx Aff or None)"""
    if q is None:
        return None
    if q == 'any':
        return 'any'
    if is_lin(q):
        if idx is None:
            return None
        return idx.scale(q[1]) + q[2]
    if isinstance(q, tuple) and q[0] == 'partial':
        if idx is not None and idx in q[1]:
            return q[1][idx]
        # an element of a buffer that is still being defined (filled in by earlier iterations of the enclosing
        # recursion): optimistic placeholder, re-checked in the later fixpoint passes once the buffer is solved
        return 'any'
    return q


def q_slice(q, lo, step):
    """charge map of a[lo::step] (lo Aff absolute index of the first element, step +-1)"""
    if isinstance(q, tuple) and q[0] == 'partial':
        return None
    if q is None or q == 'any' or not is_lin(q):
        return q
    if lo is None:
        return None
    return lin(q[1] * step, lo.scale(q[1]) + q[2])


def q_store_scalar(itp, arrq, idx, vq, node):
    """A[idx] = v  (idx Aff); returns the new array charge"""
    if vq is None or arrq is None:
        return None
    if vq == 'any':
        return arrq
    if is_lin(vq):
        return None
    if arrq == 'any':
        if idx is None:
            return None
        # solve alpha, beta: vq = alpha*idx + beta with beta free of the symbols that idx varies with
        syms = [s for s in idx.t if s in Aff.BOUNDS]
        if not syms:
            if idx.is_const():
                return ('partial', {idx: vq})
            return None
        s = syms[0]
        alpha = vq.t.get(s, F(0)) / idx.t[s]
        beta = vq - idx.scale(alpha)
        if any(x in Aff.BOUNDS and x in idx.t for x in beta.t):
            itp.conflict('store', 'q', 'charge %s of the stored value is not an affine function of its index %s' % (vq, idx), node)
            return None
        return lin(alpha, beta)
    if isinstance(arrq, tuple) and arrq[0] == 'partial':
        if idx is not None and idx.is_const():
            d = dict(arrq[1])
            d[idx] = vq
            return ('partial', d)
        # a general element store into a buffer with a few fixed entries: solve, then check the fixed entries
        new = q_store_scalar(itp, 'any', idx, vq, node)
        if new is None or new == 'any' or (isinstance(new, tuple) and new[0] == 'partial'):
            return new
        for i0, q0 in arrq[1].items():
            q_same(itp, q_index(new, i0), q0, node, 'store')
        return new
    want = q_index(arrq, idx)
    if want is None:
        return None
    r = q_same(itp, want, vq, node, 'store')
    return arrq if r is not None else None


def q_store_slice(itp, arrq, lo, step, vq, node):
    """A[lo::step] = v  (v an array or a scalar broadcast)"""
    if vq is None or arrq is None:
        return None
    if vq == 'any':
        return arrq
    if lo is None:
        return None
    # element i of v goes to index lo + step*i
    va, vb = (vq[1], vq[2]) if is_lin(vq) else (F(0), vq)
    alpha = va / step
    beta = vb - lo.scale(alpha)
    new = lin(alpha, beta)
    if arrq == 'any':
        return new
    if isinstance(arrq, tuple) and arrq[0] == 'partial':
        for i0, q0 in arrq[1].items():
            q_same(itp, q_index(new, i0), q0, node, 'store')
        return new
    r = q_same(itp, arrq, new, node, 'store')
    return arrq if r is not None else None


def finalize(q):
    """a buffer with only a few fixed entries known: unknown as a whole"""
    if isinstance(q, tuple) and q[0] == 'partial':
        return None
    return q


def show(q):
    if q is None:
        return '?'
    if q == 'any':
        return 'any'
    if is_lin(q):
        return '%s*i+%s' % (q[1], q[2])
    if isinstance(q, tuple):
        return 'partial%s' % ({str(k): str(v) for k, v in q[1].items()},)
    return str(q)


def q_join(a, b):
    """silent join"""
    if a is None or b is None:
        return None
    if a == 'any':
        return b
    if b == 'any':
        return a
    pa = isinstance(a, tuple) and a[0] == 'partial'
    pb = isinstance(b, tuple) and b[0] == 'partial'
    if pa and pb:
        d = dict(a[1])
        for k, v in b[1].items():
            if k in d and not q_eq(d[k], v):
                return None
            d[k] = v
        return ('partial', d)
    if pa or pb:
        part, full = (a, b) if pa else (b, a)
        for k, v in part[1].items():
            w = q_index(full, k)
            if w is None or not q_eq(w, v):
                return None
        return full
    if is_lin(a) and is_lin(b):
        return a if (a[1] == b[1] and q_eq(a[2], b[2])) else None
    if is_lin(a) or is_lin(b):
        return None
    return a if q_eq(a, b) else None
