"""D4 — modulation charge.  Under x[n] -> exp(i*theta*n) x[n] a covariant quantity picks up exp(i*theta*q); q is
its charge.  Scalars carry an affine charge in the enclosing loop symbols; arrays carry q(index) = alpha*index + beta.
Charges are compared modulo NFFT (theta is a multiple of 2*pi/NFFT).

representation of Num.q:
    None                 unknown (silent)
    'any'                the polymorphic zero / an unset buffer
    Aff                  one charge for the scalar / for every element
    ('lin', alpha, beta) element i has charge alpha*i + beta   (alpha Fraction, beta Aff)"""
from fractions import Fraction as F

from .values import Aff, aff, NFFT_AFF

ZERO = Aff(0)


def is_lin(q):
    return isinstance(q, tuple) and q[0] == 'lin'


def is_lin2(q):
    return isinstance(q, tuple) and q[0] == 'lin2'


def lin2(ar, ac, b):
    """matrix entry (i, j) has charge ar*i + ac*j + b"""
    return ('lin2', F(ar), F(ac), aff(b))


def is_partial(q):
    return isinstance(q, tuple) and q[0] == 'partial'


def is_cols(q):
    return isinstance(q, tuple) and q[0] == 'cols'


def lin(alpha, beta):
    alpha = F(alpha)
    if alpha == 0:
        return aff(beta)
    return ('lin', alpha, aff(beta))


def q_eq(a, b):
    """True / False (definitely different for generic sizes) ; a, b Aff"""
    d = a - b
    if d.is_const() and d.c == 0:
        return True
    n = NFFT_AFF[0]
    if n is not None and not d.is_const():
        # multiple of NFFT ?
        for s, v in n.t.items():
            if s in d.t:
                k = d.t[s] / v
                if k.denominator == 1 and (d - n.scale(k)) == ZERO:
                    return True
                break
    if n is not None and n.is_const() and n.c != 0 and d.is_const() and (d.c / n.c).denominator == 1:
        return True
    return False


def q_neg(q):
    if q is None or q == 'any':
        return q
    if isinstance(q, tuple) and q[0] == 'partial':
        return ('partial', {k: -v for k, v in q[1].items()})
    if is_lin2(q):
        return ('lin2', -q[1], -q[2], -q[3])
    if is_cols(q):
        return ('cols', [(c, -a, -b) for c, a, b in q[1]], {k: -v for k, v in q[2].items()})
    if is_lin(q):
        return ('lin', -q[1], -q[2])
    return -q


def q_mul(a, b, div=False):
    if a is None or b is None:
        return None
    if is_cols(a) or is_cols(b):
        return None
    if is_partial(a) or is_partial(b):
        if div:
            b = q_neg(b)
            if b is None:
                return None
        pa, ot = (a, b) if is_partial(a) else (b, a)
        if ot == 'any' or is_lin2(ot):
            return None
        if is_partial(ot):
            d = {k: v + ot[1][k] for k, v in pa[1].items() if k in ot[1]}
            return ('partial', d) if d else None
        d = {}
        for k, v in pa[1].items():
            w = q_index(ot, k)
            if w is None or w == 'any':
                return None
            d[k] = v + w
        return ('partial', d)
    if is_lin2(a) or is_lin2(b):
        if div:
            b = q_neg(b)
        if b == 'any' or a == 'any':
            return 'any' if a == 'any' else None
        m2, ot = (a, b) if is_lin2(a) else (b, a)
        if is_lin2(ot):
            return ('lin2', m2[1] + ot[1], m2[2] + ot[2], m2[3] + ot[3])
        if is_lin(ot):
            return ('lin2', m2[1], m2[2] + ot[1], m2[3] + ot[2])      # a vector broadcasts along the last (column) axis
        return ('lin2', m2[1], m2[2], m2[3] + ot)
    if a == 'any' or (b == 'any' and not div):
        return 'any'
    if b == 'any':
        return None
    if div:
        b = q_neg(b)
    if is_lin(a) or is_lin(b):
        aa, ab = (a[1], a[2]) if is_lin(a) else (F(0), a)
        ba, bb = (b[1], b[2]) if is_lin(b) else (F(0), b)
        return lin(aa + ba, ab + bb)
    return a + b


def q_same(itp, a, b, node, what):
    """charges of two values that are added / compared / stored together; returns the common charge"""
    if a is None or b is None:
        return None
    if (isinstance(a, tuple) and a[0] == 'partial') or (isinstance(b, tuple) and b[0] == 'partial'):
        r = q_join(a, b)
        if r is None:
            itp.conflict(what, 'q', 'modulation charges %s and %s are inconsistent (a missing/extra conjugate or a wrong index)'
                         % (show(a), show(b)), node)
        return r
    if a == 'any':
        return b
    if b == 'any':
        return a
    if is_cols(a) or is_cols(b):
        return None
    if is_lin2(a) or is_lin2(b):
        if is_lin2(a) and is_lin2(b):
            if a[1] == b[1] and a[2] == b[2] and q_eq(a[3], b[3]):
                return a
            itp.conflict(what, 'q', 'modulation charge of matrix entries %s vs %s' % (show(a), show(b)), node)
        return None
    if is_lin(a) != is_lin(b):
        la = a if is_lin(a) else ('lin', F(0), a)
        lb = b if is_lin(b) else ('lin', F(0), b)
        a, b = la, lb
    if is_lin(a):
        if a[1] == b[1] and q_eq(a[2], b[2]):
            return lin(a[1], a[2])
        itp.conflict(what, 'q', 'modulation charge per index %s*i+%s vs %s*i+%s (a missing/extra conjugate or a wrong index)'
                     % (a[1], a[2], b[1], b[2]), node)
        return None
    if q_eq(a, b):
        return a
    itp.conflict(what, 'q', 'modulation charge %s vs %s (a missing/extra conjugate or a wrong index)' % (a, b), node)
    return None


def q_index(q, idx):
    """charge of a[idx] (idx Aff or None)"""
    if q is None:
        return None
    if q == 'any':
        return 'any'
    if is_lin(q):
        if idx is None:
            return None
        return idx.scale(q[1]) + q[2]
    if isinstance(q, tuple) and q[0] == 'partial':
        if idx is not None and idx in q[1]:
            return q[1][idx]
        # an element of a buffer that is still being defined (filled in by earlier iterations of the enclosing
        # recursion): optimistic placeholder, re-checked in the later fixpoint passes once the buffer is solved
        return 'any'
    return q


def q_slice(q, lo, step):
    """charge map of a[lo::step] (lo Aff absolute index of the first element, step +-1)"""
    if isinstance(q, tuple) and q[0] == 'partial':
        if lo is None or not lo.is_const():
            return None
        d = {}
        for k, v in q[1].items():
            if k.is_const():
                t = (k - lo).scale(F(1, step))
                if t.is_const() and t.c.denominator == 1 and t.c >= 0:
                    d[Aff(t.c)] = v
        return ('partial', d) if d else None
    if is_lin2(q) or is_cols(q):
        return None
    if q is None or q == 'any' or not is_lin(q):
        return q
    if lo is None:
        return None
    return lin(q[1] * step, lo.scale(q[1]) + q[2])


def q_store_scalar(itp, arrq, idx, vq, node):
    """A[idx] = v  (idx Aff); returns the new array charge"""
    if vq is None or arrq is None:
        return None
    if vq == 'any':
        return arrq
    if is_lin(vq):
        return None
    if arrq == 'any':
        if idx is None:
            return None
        # solve alpha, beta: vq = alpha*idx + beta with beta free of the symbols that idx varies with
        syms = [s for s in idx.t if s in Aff.BOUNDS]
        if not syms:
            return ('partial', {idx: vq})       # one fixed slot (its index may involve the size symbols, e.g. NFFT-1)
        s = syms[0]
        alpha = vq.t.get(s, F(0)) / idx.t[s]
        beta = vq - idx.scale(alpha)
        if any(x in Aff.BOUNDS and x in idx.t for x in beta.t):
            itp.conflict('store', 'q', 'charge %s of the stored value is not an affine function of its index %s' % (vq, idx), node)
            return None
        return lin(alpha, beta)
    if isinstance(arrq, tuple) and arrq[0] == 'partial':
        if idx is not None and not any(s in Aff.BOUNDS for s in idx.t):
            d = dict(arrq[1])
            d[idx] = vq
            return ('partial', d)
        # a general element store into a buffer with a few fixed entries: solve, then check the fixed entries
        new = q_store_scalar(itp, 'any', idx, vq, node)
        if new is None or new == 'any' or (isinstance(new, tuple) and new[0] == 'partial'):
            return new
        for i0, q0 in arrq[1].items():
            q_same(itp, q_index(new, i0), q0, node, 'store')
        return new
    want = q_index(arrq, idx)
    if want is None:
        return None
    r = q_same(itp, want, vq, node, 'store')
    return arrq if r is not None else None


def q_store_slice(itp, arrq, lo, step, vq, node):
    """A[lo::step] = v  (v an array or a scalar broadcast)"""
    if vq is None or arrq is None:
        return None
    if vq == 'any':
        return arrq
    if lo is None:
        return None
    if is_partial(vq):
        # entry-wise known value: each known entry i goes to slot lo + step*i
        moved = {lo + k.scale(step): v for k, v in vq[1].items()}
        if arrq == 'any':
            return ('partial', moved)
        if is_partial(arrq):
            d = dict(arrq[1])
            d.update(moved)
            return ('partial', d)
        for i0, q0 in moved.items():
            w = q_index(arrq, i0)
            if w is None or q_same(itp, w, q0, node, 'store') is None:
                return None
        return arrq
    if not (is_lin(vq) or isinstance(vq, Aff)):
        return None
    # element i of v goes to index lo + step*i
    va, vb = (vq[1], vq[2]) if is_lin(vq) else (F(0), vq)
    alpha = va / step
    beta = vb - lo.scale(alpha)
    new = lin(alpha, beta)
    if arrq == 'any':
        return new
    if isinstance(arrq, tuple) and arrq[0] == 'partial':
        for i0, q0 in arrq[1].items():
            q_same(itp, q_index(new, i0), q0, node, 'store')
        return new
    r = q_same(itp, arrq, new, node, 'store')
    return arrq if r is not None else None


def finalize(q):
    """a buffer with only a few fixed entries known: unknown as a whole"""
    if isinstance(q, tuple) and q[0] == 'partial':
        return None
    return q


def show(q):
    if q is None:
        return '?'
    if q == 'any':
        return 'any'
    if is_lin2(q):
        return '%s*i+%s*j+%s' % (q[1], q[2], q[3])
    if is_cols(q):
        return 'columns%s' % ([(str(c), str(a), str(b)) for c, a, b in q[1]],)
    if is_lin(q):
        return '%s*i+%s' % (q[1], q[2])
    if isinstance(q, tuple):
        return 'partial%s' % ({str(k): str(v) for k, v in q[1].items()},)
    return str(q)


def q_join(a, b):
    """silent join"""
    if a is None or b is None:
        return None
    if a == 'any':
        return b
    if b == 'any':
        return a
    if is_cols(a) and is_cols(b):
        return merge_cols(a, b)
    if is_cols(a) or is_cols(b):
        c_, o_ = (a, b) if is_cols(a) else (b, a)
        if is_lin2(o_):
            return o_ if cols_consistent(c_, o_) else None
        return None
    if is_lin2(a) or is_lin2(b):
        if is_lin2(a) and is_lin2(b) and a[1] == b[1] and a[2] == b[2] and q_eq(a[3], b[3]):
            return a
        return None
    pa = isinstance(a, tuple) and a[0] == 'partial'
    pb = isinstance(b, tuple) and b[0] == 'partial'
    if pa and pb:
        d = dict(a[1])
        for k, v in b[1].items():
            if k in d and not q_eq(d[k], v):
                return None
            d[k] = v
        return ('partial', d)
    if pa or pb:
        part, full = (a, b) if pa else (b, a)
        for k, v in part[1].items():
            w = q_index(full, k)
            if w is None or not q_eq(w, v):
                return None
        return full
    if is_lin(a) and is_lin(b):
        return a if (a[1] == b[1] and q_eq(a[2], b[2])) else None
    if is_lin(a) or is_lin(b):
        return None
    return a if q_eq(a, b) else None


# ----------------------------------------------------------------------------- matrices
def index2(q, row, col):
    """charge of M[row, col]; row / col are ('int', Aff) or ('slice', lo Aff, step)"""
    if q is None or q == 'any':
        return q
    if isinstance(q, Aff):
        return q
    if is_cols(q):
        g = generalise(q)
        if g is None:
            # a single stored column can still be read back exactly
            if col[0] == 'int' and col[1] is not None:
                for c, a_, b_ in q[1]:
                    if c == col[1]:
                        vec = lin(a_, b_)
                        if row[0] == 'int':
                            return q_index(vec, row[1])
                        return q_slice(vec, row[1], row[2])
            if row[0] == 'int' and col[0] == 'int' and row[1] is not None and col[1] is not None:
                return q[2].get((row[1], col[1]))
            if row[0] == 'int' and col[0] == 'slice' and row[1] is not None and col[1] is not None:
                # one row across the stored columns: the entries that are known
                d = {}
                cells = [(c, b_ + row[1].scale(a_)) for c, a_, b_ in q[1]] + [(j, v) for (i, j), v in q[2].items() if i == row[1]]
                for c, val in cells:
                    t = (c - col[1]).scale(F(1, col[2]))
                    if t.is_const() and t.c.denominator == 1 and t.c >= 0:
                        d[Aff(t.c)] = val
                return ('partial', d) if d else None
            return None
        q = g
    if not is_lin2(q):
        return None
    ar, ac, b = q[1], q[2], q[3]
    if row[0] == 'int' and col[0] == 'int':
        if row[1] is None or col[1] is None:
            return None
        return row[1].scale(ar) + col[1].scale(ac) + b
    if row[0] == 'slice' and col[0] == 'int':
        if row[1] is None or col[1] is None:
            return None
        return lin(ar * row[2], row[1].scale(ar) + col[1].scale(ac) + b)
    if row[0] == 'int' and col[0] == 'slice':
        if row[1] is None or col[1] is None:
            return None
        return lin(ac * col[2], row[1].scale(ar) + col[1].scale(ac) + b)
    if row[1] is None or col[1] is None:
        return None
    return ('lin2', ar * row[2], ac * col[2], row[1].scale(ar) + col[1].scale(ac) + b)


def generalise(q):
    """('cols', facts, elems): one lin2 map when a stored column index varies with a loop symbol"""
    facts = q[1]
    for c, a_, b_ in facts:
        syms = [s for s in c.t if s in Aff.BOUNDS]
        if len(syms) == 1:
            s_ = syms[0]
            ac = b_.t.get(s_, F(0)) / c.t[s_]
            b0 = b_ - c.scale(ac)
            if any(x in Aff.BOUNDS for x in b0.t):
                return None
            cand = ('lin2', a_, ac, b0)
            return cand if cols_consistent(q, cand) else None
    return None


def cols_consistent(q, cand):
    for c, a_, b_ in q[1]:
        if a_ != cand[1] or not q_eq(c.scale(cand[2]) + cand[3], b_):
            return False
    for (i, j), v in q[2].items():
        if not q_eq(i.scale(cand[1]) + j.scale(cand[2]) + cand[3], v):
            return False
    return True


def merge_cols(a, b):
    facts = list(a[1])
    for f in b[1]:
        if not any(f[0] == g[0] and f[1] == g[1] and f[2] == g[2] for g in facts):
            facts.append(f)
    el = dict(a[2])
    el.update(b[2])
    return ('cols', facts, el)


def store_column(itp, q, col, vq, node):
    """M[:, col] = vec"""
    if vq is None or col is None:
        return None
    if vq == 'any':
        return q
    if is_lin(vq):
        a_, b_ = vq[1], vq[2]
    elif isinstance(vq, Aff):
        a_, b_ = F(0), vq
    else:
        return None
    if is_lin2(q):
        if a_ != q[1] or not q_eq(col.scale(q[2]) + q[3], b_):
            itp.conflict('store', 'q', 'column %s stored with charge %s*i+%s into a matrix typed %s' % (col, a_, b_, show(q)), node)
            return None
        return q
    if q is None:
        return None
    facts, el = ([], {}) if q == 'any' else (list(q[1]), dict(q[2]))
    if not any(c == col and x == a_ and y == b_ for c, x, y in facts):
        facts.append((col, a_, b_))
    new = ('cols', facts, el)
    g = generalise(new)
    return g if g is not None else new


def store_elem2(itp, q, i, j, vq, node):
    if vq is None or i is None or j is None or not isinstance(vq, Aff):
        return q if vq == 'any' else None
    if is_lin2(q):
        if not q_eq(i.scale(q[1]) + j.scale(q[2]) + q[3], vq):
            itp.conflict('store', 'q', 'entry (%s,%s) stored with charge %s into a matrix typed %s' % (i, j, vq, show(q)), node)
            return None
        return q
    if q is None:
        return None
    facts, el = ([], {}) if q == 'any' else (list(q[1]), dict(q[2]))
    el[(i, j)] = vq
    new = ('cols', facts, el)
    g = generalise(new)
    return g if g is not None else new


def toeplitz_q(cq, rq):
    """toeplitz(c, r)[i,j] = c[i-j] (i >= j), r[j-i] otherwise"""
    if not (is_lin(cq) or isinstance(cq, Aff)) or not (is_lin(rq) or isinstance(rq, Aff)):
        return None
    ca, cb = (cq[1], cq[2]) if is_lin(cq) else (F(0), cq)
    ra, rb = (rq[1], rq[2]) if is_lin(rq) else (F(0), rq)
    if ra == -ca and q_eq(cb, rb):
        return ('lin2', ca, -ca, cb)
    return None


def contract(itp, a, b, node):
    """np.dot(a, b) for vectors / matrices"""
    if a is None or b is None or a == 'any' or b == 'any':
        return None
    def bad(x, y):
        itp.conflict('add', 'q', 'inner product over an index along which the modulation charge varies (%s vs %s): a missing/extra '
                     'conjugate or transpose' % (show(a), show(b)), node)
        return None
    va = ('lin', F(0), a) if isinstance(a, Aff) else a
    vb = ('lin', F(0), b) if isinstance(b, Aff) else b
    if is_lin(va) and is_lin(vb):
        if va[1] + vb[1] != 0:
            return bad(a, b)
        return va[2] + vb[2]
    if is_lin(va) and is_lin2(vb):
        if va[1] + vb[1] != 0:
            return bad(a, b)
        return lin(vb[2], va[2] + vb[3])
    if is_lin2(va) and is_lin(vb):
        if va[2] + vb[1] != 0:
            return bad(a, b)
        return lin(va[1], va[3] + vb[2])
    if is_lin2(va) and is_lin2(vb):
        if va[2] + vb[1] != 0:
            return bad(a, b)
        return ('lin2', va[1], vb[2], va[3] + vb[3])
    return None


def lstsq_q(itp, aq, bq, node):
    """solution of min |A a - b|: a[j] has charge(b_i) - charge(A_ij), which must not depend on the row i"""
    if not is_lin2(aq) or bq is None or bq == 'any':
        return None
    ba, bb = (bq[1], bq[2]) if is_lin(bq) else ((F(0), bq) if isinstance(bq, Aff) else (None, None))
    if ba is None:
        return None
    if ba != aq[1]:
        itp.conflict('add', 'q', 'least-squares rows: target charge %s and regressor charge %s differ in their row dependence' % (show(bq), show(aq)), node)
        return None
    return lin(-aq[2], bb - aq[3])


# ----------------------------------------------------------------------------- short concrete vectors
def to_partial(q, n):
    """entry-wise charges of a vector of concrete length n (None when not known entry by entry)"""
    if n is None or not aff(n).is_const() or aff(n).c > 32:
        return None
    n = int(aff(n).c)
    if isinstance(q, Aff):
        return {Aff(i): q for i in range(n)}
    if is_lin(q):
        return {Aff(i): q[2] + Aff(q[1] * i) for i in range(n)}
    if is_partial(q):
        return dict(q[1])
    if q == 'any':
        return {}
    return None


def from_partial(d, n):
    """most compact form of entry-wise charges"""
    if n is not None and aff(n).is_const() and len(d) == int(aff(n).c) and d:
        vals = [d.get(Aff(i)) for i in range(int(aff(n).c))]
        if all(v is not None for v in vals):
            if all(q_eq(v, vals[0]) for v in vals):
                return vals[0]
            if len(vals) >= 2:
                st = vals[1] - vals[0]
                if st.is_const() and all(q_eq(vals[i], vals[0] + Aff(st.c * i)) for i in range(len(vals))):
                    return lin(st.c, vals[0])
    return ('partial', d) if d else 'any'


def reduce_sum(itp, q, n, node, what='sum'):
    """charge of the sum of the entries: they must all carry the same charge"""
    if q is None or q == 'any' or isinstance(q, Aff):
        return q
    if is_lin(q):
        if q[1] != 0:
            itp.conflict('add', 'q', '%s over elements whose modulation charge depends on the index (%s): a missing/extra '
                         'conjugate or a wrong index in the summand' % (what, show(q)), node)
            return None
        return q[2]
    if is_partial(q):
        vals = list(q[1].values())
        if vals and any(not q_eq(v, vals[0]) for v in vals):
            itp.conflict('add', 'q', '%s over elements with different modulation charges (%s): a missing/extra conjugate or a wrong '
                         'index in the summand' % (what, show(q)), node)
            return None
        if n is not None and aff(n).is_const() and len(vals) == int(aff(n).c) and vals:
            return vals[0]
        if n is not None and not aff(n).is_const() and vals:
            # a buffer still being defined by the enclosing recursion (only the entries of the peeled iterations are known, and
            # they agree): optimistic placeholder like q_index; re-checked in the later passes once the buffer is solved
            return 'any'
        return None
    return None
