"""Abstract entry arguments (Appendix A.5 of DESIGN.md) and the summaries used instead of interpreting
`Window` (axiom: N real samples, win^1), `dpss` (C routine, C18: not applicable) and `cshift` (deque rotate)."""
from fractions import Fraction as F

from .values import *      # noqa
from .interp import Interp
from .core import St, PathEnd

N_SYM = Aff.sym('N')
Aff.SYM_MIN['N'] = 8
Aff.SYM_MIN['m'] = 4
Aff.SYM_MIN['Ny'] = 8


def data(cplx=True, n=None, phase=True, label='x', second=False):
    """the data vector x: amplitude degree 1 (s), global-phase exponent 1 for complex data when `phase`"""
    d = zero_deg()
    if second:
        d['sy'] = F(1)
        d['gy'] = F(1) if (cplx and phase) else F(0)
    else:
        d['s'] = F(1)
        d['g'] = F(1) if (cplx and phase) else F(0)
    r = Num(d, (n if n is not None else N_SYM,), cplx, taint=frozenset([label]))
    from .charge import lin
    r.q = lin(1, Aff(0)) if cplx else Aff(0)
    r.intdt = not cplx          # the real-data context includes integer-typed records (PCM samples, counts)
    return r


def sampling():
    d = zero_deg()
    d['hz'] = F(1)
    r = Num(d, (), False, taint=frozenset(['sampling']), nonneg=True)
    r.q = Aff(0)
    import sympy as _sp
    r.fsf = _sp.Integer(1)         # the unit of the frequency-axis domain
    return r


def nfft(parity=None, sym='m', half=None):
    """NFFT as a symbolic integer 2m / 2m+1 (or an unconstrained symbol), carrying nfft^1 when used as a number;
    `half` replaces m by another affine form (2j / 2j+1: contexts in which the parity of m itself is known)"""
    hm = half if half is not None else Aff.sym(sym)
    if parity == 'even':
        a = hm.scale(2)
    elif parity == 'odd':
        a = hm.scale(2) + 1
    else:
        a = Aff.sym('NFFT')
        Aff.SYM_MIN['NFFT'] = 8
    NFFT_AFF[0] = a
    return IntV(a, frozenset(['NFFT']), nfft=F(1), name='NFFT')


def order(name='P', value=None):
    if value is not None:
        return Const(value, frozenset(['order']))
    Aff.SYM_MIN[name] = 1
    return IntV(Aff.sym(name), frozenset(['order']), name=name)


def symint(name, minimum=1, label=None):
    Aff.SYM_MIN[name] = minimum
    return IntV(Aff.sym(name), frozenset([label or name]), name=name)


def deg0(shape=(), cplx=False, label=None):
    r = Num(zero_deg(), shape, cplx, taint=frozenset([label]) if label else frozenset())
    r.q = Aff(0)
    return r


# ----------------------------------------------------------------------------- summaries
def window_summary(itp, args, kwargs, node, st):
    """Window(N, name, **params): .data is N real samples, homogeneous of degree 1 in the window scaling"""
    n = args[0] if args else kwargs.get('N')
    name = args[1] if len(args) > 1 else kwargs.get('name')
    from .prims import _int_aff
    d = zero_deg()
    d['win'] = F(1)
    arr = Num(d, (_int_aff(n),), False, taint=taint_of(n) | taint_of(name) | frozenset(['window']))
    arr.role = 'window'
    arr.q = Aff(0)
    o = Opaque('window:', arr.taint)
    o.data = arr
    o.args = (n, name, kwargs)
    itp.events.append(('window', node, n, name, kwargs))
    return o


def dpss_summary(itp, args, kwargs, node, st):
    """dpss(N, NW, k) -> [tapers N x k real degree 0, eigenvalues k real degree 0]; depends on (N, NW, k) only"""
    from .prims import _int_aff
    n = args[0] if args else kwargs.get('N')
    nw = args[1] if len(args) > 1 else kwargs.get('NW')
    k = args[2] if len(args) > 2 else kwargs.get('k')
    t = taint_of(n) | taint_of(nw) | taint_of(k)
    kk = _int_aff(k) if k is not None and not (isinstance(k, Const) and k.v is None) else Aff.sym('K')
    Aff.SYM_MIN['K'] = 1
    tap = Num(zero_deg(), (_int_aff(n), kk), False, taint=t)
    tap.role = 'tapers'
    tap.q = Aff(0)
    ev = Num(zero_deg(), (kk,), False, taint=t)
    ev.role = 'eigenvalues'
    ev.q = Aff(0)
    ev.nonneg = True
    itp.events.append(('dpss', node, n, nw, k))
    return Tup([tap, ev], mutable=True)


def cshift_summary(itp, args, kwargs, node, st):
    """tools.cshift(data, offset) = deque(data).rotate(offset): offset>0 moves the last items to the front"""
    n = tonum(args[0])
    if n is None:
        return TopV('cshift')
    r = n.copy()
    off = args[1] if len(args) > 1 else kwargs.get('offset')
    if isinstance(args[0], Num) and args[0].seg is not None and isinstance(off, Const) and isinstance(off.v, (int, float)):
        from . import segmap
        r.seg = segmap.rotate(args[0].seg, int(off.v))
    return r


SUMMARIES = {
    'window.Window': window_summary,
    'mtm.dpss': dpss_summary,
    'tools.cshift': cshift_summary,
}


def new_interp(prog, loop_taint=True, summaries=None, d4=False):
    s = dict(SUMMARIES)
    if summaries:
        s.update(summaries)
    return Interp(prog, loop_taint=loop_taint, summaries=s, d4=d4)


def run_function(prog, mod, fname, args, kwargs=None, itp=None, **ikw):
    """abstractly run mod.fname(*args, **kwargs); returns (value | None when no path returns, interp)"""
    itp = itp or new_interp(prog, **ikw)
    f = prog.func(mod, fname)
    st = St({}, {})
    try:
        v = itp.call_function(f, list(args), dict(kwargs or {}), st, f.node)
    except PathEnd:
        v = None
    itp.final_heap = st.heap
    return v, itp


def run_class(prog, mod, cname, args, kwargs=None, itp=None, call=True, **ikw):
    """construct mod.cname(*args, **kwargs) through its real __init__ chain, then (optionally) run __call__;
    returns (ref, heap object, interp)"""
    itp = itp or new_interp(prog, **ikw)
    cls = prog.cls(mod, cname)
    st = St({}, {})
    ref = None
    try:
        ref = itp.instantiate(cls, list(args), dict(kwargs or {}), st, cls.node)
        if call:
            m = cls.find_method('__call__')
            itp.call_function(m, [ref], {}, st, m.node)
    except PathEnd:
        itp.final_heap = st.heap
        return ref, (st.heap.get(ref.oid) if ref is not None else None), itp, False
    itp.final_heap = st.heap
    return ref, st.heap.get(ref.oid), itp, True
