"""Obligations, findings, known-findings matching, evidence and replay files."""
import json
import os
import time

VERIF = os.path.dirname(os.path.dirname(os.path.abspath(__file__)))
KNOWN_FILE = os.path.join(VERIF, 'known_findings.json')
EVIDENCE_DIR = os.path.join(VERIF, 'evidence')
REPLAY_DIR = os.path.join(EVIDENCE_DIR, 'replay')

PROVED, VIOLATION, UNDECIDED = 'PROVED', 'VIOLATION', 'UNDECIDED'


class Obligation:
    def __init__(self, prop, rule, function, construct, status, detail='', where='', derivation=None):
        self.prop = prop
        self.rule = rule
        self.function = function      # qualified function / class / context
        self.construct = construct    # normalised construct text or clause instance
        self.status = status
        self.detail = detail
        self.where = where            # file:line (diagnostic only, never a key)
        self.derivation = derivation or []

    def key(self):
        return (self.prop, self.rule, self.function, self.construct)

    def as_dict(self):
        return {'rule': self.rule, 'function': self.function, 'construct': self.construct,
                'status': self.status, 'detail': self.detail, 'where': self.where,
                'derivation': self.derivation[:12]}


def load_known():
    if not os.path.exists(KNOWN_FILE):
        return []
    with open(KNOWN_FILE) as fh:
        return json.load(fh)


class Report:
    def __init__(self, prop, tier='quick', seed=0, level='other'):
        self.prop = prop
        self.tier = tier
        self.seed = seed
        self.level = level
        self.obls = []
        self.t0 = time.time()
        self.analysed = {}
        self.floors = []       # (name, count, floor)
        self.assumptions = []
        self.trusted = []
        self.explanation = ''
        self.rule_texts = {}
        self.errors = []
        self.extra = {}

    # ---- recording
    def add(self, rule, function, construct, status, detail='', where='', derivation=None):
        o = Obligation(self.prop, rule, function, construct, status, detail, where, derivation)
        self.obls.append(o)
        return o

    def proved(self, rule, function, construct, detail='', where='', derivation=None):
        return self.add(rule, function, construct, PROVED, detail, where, derivation)

    def violation(self, rule, function, construct, detail='', where='', derivation=None):
        return self.add(rule, function, construct, VIOLATION, detail, where, derivation)

    def undecided(self, rule, function, construct, detail='', where=''):
        return self.add(rule, function, construct, UNDECIDED, detail, where)

    def floor(self, name, count, floor):
        self.floors.append((name, count, floor))

    def error(self, msg):
        self.errors.append(msg)

    def rule(self, name, text):
        self.rule_texts[name] = text

    # ---- finishing
    def finish(self, write=True):
        """prints the verdict lines, writes evidence, returns the exit code"""
        known = [k for k in load_known() if k.get('property') == self.prop]
        known_active = [k for k in known if k.get('status') == 'known']
        viol = [o for o in self.obls if o.status == VIOLATION]
        und = [o for o in self.obls if o.status == UNDECIDED]
        # de-duplicate violations by key
        seen = {}
        for o in viol:
            seen.setdefault(o.key(), o)
        viol = list(seen.values())
        new, matched = [], []
        for o in viol:
            hit = None
            for k in known_active:
                if (k.get('rule') == o.rule and k.get('function') == o.function
                        and k.get('construct') == o.construct):
                    hit = k
                    break
            if hit is not None:
                matched.append((o, hit))
            else:
                new.append(o)
        for name, count, floor in self.floors:
            if count < floor:
                self.errors.append('instance floor not met: %s = %d < %d (a rule that matches too little must '
                                   'not pass)' % (name, count, floor))
        for o in und:
            self.errors.append('undecided obligation %s %s %s: %s' % (o.rule, o.function, o.construct, o.detail))
        code = 0
        for o, k in matched:
            print('KNOWN-FINDING: property=%s %s [%s] %s: %s' % (self.prop, o.function, o.rule, o.construct,
                                                                   k.get('what', o.detail)))
        replay_paths = []
        if new:
            code = 1
            os.makedirs(REPLAY_DIR, exist_ok=True)
            for i, o in enumerate(new):
                path = os.path.join(REPLAY_DIR, '%s_%d.json' % (self.prop, i))
                if write:
                    with open(path, 'w') as fh:
                        json.dump({'property': self.prop, **o.as_dict(), 'derivation_full': o.derivation}, fh, indent=1)
                replay_paths.append(path)
                print('FINDING %s [%s] %s: %s -- %s (%s)' % (self.prop, o.rule, o.function, o.construct, o.detail, o.where))
                print('VIOLATION property=%s replay=%s' % (self.prop, path))
        if self.errors:
            for e in self.errors:
                print('ANALYSIS-ERROR property=%s %s' % (self.prop, e))
            if code == 0:
                code = 2
        nob = len(self.obls)
        ndis = len([o for o in self.obls if o.status == PROVED])
        wall = time.time() - self.t0
        if write:
            os.makedirs(EVIDENCE_DIR, exist_ok=True)
            by_rule = {}
            for o in self.obls:
                d = by_rule.setdefault(o.rule, {'obligations': 0, 'proved': 0, 'violations': 0, 'undecided': 0})
                d['obligations'] += 1
                d[{'PROVED': 'proved', 'VIOLATION': 'violations', 'UNDECIDED': 'undecided'}[o.status]] += 1
            samples = []
            rules_seen = set()
            for o in self.obls:
                if o.rule not in rules_seen or o.status != PROVED:
                    rules_seen.add(o.rule)
                    samples.append(o.as_dict())
                if len(samples) >= 40:
                    break
            distinct = len(set(o.key() for o in self.obls))
            ev = {
                'property_id': self.prop,
                'tier': self.tier,
                'seed': int(self.seed),
                'level': self.level,
                'coverage': {
                    'obligations': nob,
                    'discharged': ndis,
                    'evaluations': max(nob, 1),
                    'distinct_nontrivial': distinct,
                    'rule': 'one obligation per (rule, function/context, construct) instance derived from the '
                            'current /repo sources; distinct = distinct keys; all are non-trivial by construction '
                            '(each is a typing/path/index judgement about a named construct)',
                    'checker_cmd': './check %s --tier %s' % (self.prop, self.tier),
                    'trusted_base': self.trusted,
                    'explanation': self.explanation,
                    'rules': self.rule_texts,
                    'per_rule': by_rule,
                    'instance_floors': [{'name': n, 'count': c, 'floor': f} for n, c, f in self.floors],
                    'analysed': self.analysed,
                    'samples': samples,
                    'known_findings_matched': [o.as_dict() for o, _ in matched],
                    'new_violations': [o.as_dict() for o in new],
                    'analysis_errors': self.errors,
                    'exhaustive': True,
                },
                'assumptions': self.assumptions,
                'wall_s': round(wall, 3),
                'violations': len(new),
            }
            ev['coverage'].update(self.extra)
            with open(os.path.join(EVIDENCE_DIR, '%s.json' % self.prop), 'w') as fh:
                json.dump(ev, fh, indent=1, default=str)
        print('%s: %d obligations, %d proved, %d known findings, %d new violations, %d analysis errors (%.2fs)' % (
            self.prop, nob, ndis, len(matched), len(new), len(self.errors), wall))
        return code
