"""D7 — reflection symmetry, centre value and length of window expressions (a small type system over the index grid).

Every value computed inside a window generator is typed by how it behaves under the reflection i -> N-1-i:
  SYM        v[N-1-i] =  v[i]          (scalars, even functions of an antisymmetric grid, ...)
  ASYM       v[N-1-i] = -v[i]
  REFL(c)    an affine index grid with  g[N-1-i] = c - g[i]   (arange(0,N): c=N-1, linspace(a,b,N): c=a+b)
  TOP        unknown
together with its exact value at the centre sample (odd N) as a sympy expression, its length, and hazards
(division by a grid that vanishes at the centre).  Constants are exact (sympy rationals / multiples of pi)."""
import ast

import sympy as sp

from .frontend import AnalysisError, normalise

N = sp.Symbol('N', positive=True)
SYM, ASYM, REFL, TOP, SUB, HALF = 'SYM', 'ASYM', 'REFL', 'TOP', 'SUB', 'HALF'
_SUM = sp.Function('SUM')
_UNK = [0]


def fresh(prefix='u'):
    _UNK[0] += 1
    return sp.Symbol('%s%d' % (prefix, _UNK[0]), positive=True)


class D:
    """typed value"""

    def __init__(self, kind, centre=None, length=None, c=None, scalar=False):
        self.kind = kind
        self.centre = centre       # sympy value at the centre sample (scalars: the value itself)
        self.length = length       # sympy length (None: scalar / unknown)
        self.c = c                 # REFL constant
        self.scalar = scalar       # does not depend on the grid index at all
        self.hazard = []
        self.extra = {}

    def __repr__(self):
        return 'D(%s%s centre=%s len=%s)' % (self.kind, '(%s)' % self.c if self.kind == REFL else '', self.centre, self.length)


def scalar(val):
    return D(SYM, val, None, scalar=True)


def rat(x):
    if isinstance(x, bool):
        return sp.Integer(int(x))
    if isinstance(x, int):
        return sp.Integer(x)
    if isinstance(x, float):
        return sp.nsimplify(repr(x), rational=True)
    return None


def is_multiple(c, base):
    """c/base is an integer -> that integer, else None"""
    try:
        q = sp.nsimplify(sp.simplify(c / base))
    except Exception:
        return None
    if q.is_Integer:
        return int(q)
    return None


def iszero(e):
    try:
        return sp.simplify(e) == 0
    except Exception:
        return False


EVEN = {'cos', 'cosh', 'abs', 'absolute', 'sinc'}
ODD = {'sin', 'sinh', 'tan', 'tanh', 'arctan', 'arcsin', 'arctanh'}
GENERAL = {'exp', 'log', 'sqrt', 'log10', 'iv', 'besselI', 'real', 'float', 'array', 'asarray'}
SP = {'cos': sp.cos, 'sin': sp.sin, 'exp': sp.exp, 'log': sp.log, 'sqrt': sp.sqrt, 'abs': sp.Abs, 'absolute': sp.Abs,
      'cosh': sp.cosh, 'sinh': sp.sinh, 'tan': sp.tan, 'tanh': sp.tanh,
      'sinc': lambda x: sp.Piecewise((1, sp.Eq(x, 0)), (sp.sin(sp.pi * x) / (sp.pi * x), True))}


class Walker:
    def __init__(self, prog, mod='window'):
        self.prog = prog
        self.mod = mod
        self.notes = []
        self.depth = 0
        self.midmasks = []

    # ------------------------------------------------------------------ entry
    def function_returns(self, fnode, args):
        """list of (D, path description) for every return reached (parameter branches explored)"""
        env = {}
        a = fnode.args
        names = [x.arg for x in a.args]
        nd = len(a.defaults)
        for i, nm in enumerate(names):
            if i < len(args) and args[i] is not None:
                env[nm] = args[i]
            else:
                j = i - (len(names) - nd)
                if j >= 0:
                    d = a.defaults[j]
                    if isinstance(d, ast.Constant) and isinstance(d.value, (int, float)) and not isinstance(d.value, bool):
                        # numeric shape parameter: symbolic (all documented values), remembering the default
                        s = scalar(sp.Symbol(nm, positive=True))
                        s.extra['default'] = rat(d.value)
                        env[nm] = s
                    elif isinstance(d, ast.Constant):
                        env[nm] = ('const', d.value)
                    elif isinstance(d, ast.UnaryOp) and isinstance(d.operand, ast.Constant):
                        s = scalar(sp.Symbol(nm, real=True))
                        env[nm] = s
                    else:
                        env[nm] = scalar(fresh(nm))
                else:
                    env[nm] = scalar(fresh(nm))
        self.depth += 1
        if self.depth > 12:
            raise AnalysisError('window call depth')
        try:
            return self.block(fnode.body, env, [])
        finally:
            self.depth -= 1

    # ------------------------------------------------------------------ statements
    def block(self, stmts, env, conds):
        """returns list of (D | None, conds) of return statements; falls through by returning [] plus env mutated"""
        rets = []
        for i, st in enumerate(stmts):
            if isinstance(st, ast.Expr):
                continue
            if isinstance(st, ast.Assert):
                continue
            if isinstance(st, (ast.Import, ast.ImportFrom, ast.Pass)):
                continue
            if isinstance(st, ast.FunctionDef):
                env[st.name] = ('func', st, env)
                continue
            if isinstance(st, ast.Assign):
                v = self.ev(st.value, env)
                for t in st.targets:
                    if isinstance(t, ast.Name):
                        env[t.id] = v
                    elif isinstance(t, ast.Subscript) and isinstance(t.value, ast.Name) and isinstance(env.get(t.value.id), tuple) \
                            and env[t.value.id][0] == 'buf':
                        buf = env[t.value.id][1]
                        if isinstance(t.slice, ast.Slice) and t.slice.step is None and 'slices' in buf:
                            # w[a:b] = values : pieces laid side by side; once they tile [0, length) the buffer is their concatenation
                            def bnd(x_, default):
                                if x_ is None:
                                    return default
                                b_ = self.ev(x_, env)
                                if isinstance(b_, D) and b_.scalar and b_.centre is not None:
                                    return b_.centre
                                raise AnalysisError('window analysis: slice bound %s' % normalise(x_))
                            lo_, hi_ = bnd(t.slice.lower, sp.Integer(0)), bnd(t.slice.upper, buf['length'])
                            if isinstance(v, D) and v.scalar:
                                piece = D(SYM, v.centre, sp.simplify(hi_ - lo_))       # a constant run
                            elif isinstance(v, D):
                                piece = v
                            else:
                                raise AnalysisError('window analysis: unsupported slice store %s' % normalise(t))
                            sl_ = sorted(buf['slices'] + [(lo_, hi_, piece)], key=lambda z: len(buf['slices']) if z[0] is lo_ else 0)
                            sl_ = buf['slices'] + [(lo_, hi_, piece)]
                            # tiling test: some order of the pieces starts at 0, ends at length, each starting where the last ended
                            order, cur_, left = [], sp.Integer(0), list(sl_)
                            while left:
                                nxt = [z for z in left if iszero(sp.simplify(z[0] - cur_))]
                                if not nxt:
                                    break
                                order.append(nxt[0])
                                cur_ = nxt[0][1]
                                left.remove(nxt[0])
                            if not left and iszero(sp.simplify(cur_ - buf['length'])):
                                env[t.value.id] = self.concat([z[2] for z in order], t)
                            else:
                                env[t.value.id] = ('buf', {'length': buf['length'], 'parts': {}, 'slices': sl_})
                            continue
                        # w[mask] = values : a buffer assembled from complementary, reflection-symmetric selections
                        m_ = self.ev(t.slice, env)
                        if not (isinstance(m_, tuple) and m_[0] == 'mask' and m_[1].get('side') in ('mid', 'notmid') and isinstance(v, D)):
                            raise AnalysisError('window analysis: unsupported masked store %s' % normalise(t))
                        parts = dict(buf['parts'])
                        parts[m_[1]['side']] = (v, m_[1].get('bound'))
                        nb = {'length': buf['length'], 'parts': parts}
                        if set(parts) == {'mid', 'notmid'} and iszero(parts['mid'][1] - parts['notmid'][1]) \
                                and all(p_[0].kind == SYM for p_ in parts.values()):
                            r_ = D(SYM, parts['mid'][0].centre, buf['length'])        # the centre sample lies in the |grid| <= bound part
                            r_.hazard = parts['mid'][0].hazard + parts['notmid'][0].hazard
                            env[t.value.id] = r_
                        else:
                            env[t.value.id] = ('buf', nb)
                    else:
                        raise AnalysisError('window analysis: unsupported assignment target %s' % normalise(t))
                continue
            if isinstance(st, ast.AugAssign) and isinstance(st.target, ast.Name):
                cur = self.ev(ast.Name(st.target.id, ast.Load()), env)
                env[st.target.id] = self.binop(st.op, cur, self.ev(st.value, env), st)
                continue
            if isinstance(st, ast.Return):
                rets.append((self.ev(st.value, env), list(conds)))
                return rets, True
            if isinstance(st, ast.If):
                t = self.cond(st.test, env)
                rest = stmts[i + 1:]
                if t is True:
                    r, done = self.block(st.body + rest, env, conds)
                    return rets + r, done
                if t is False:
                    r, done = self.block(st.orelse + rest, env, conds)
                    return rets + r, done
                r1, d1 = self.block(st.body + rest, dict(env), conds + [normalise(st.test)])
                r2, d2 = self.block(st.orelse + rest, dict(env), conds + ['not ' + normalise(st.test)])
                return rets + r1 + r2, d1 and d2
            if isinstance(st, ast.For) and not st.orelse and len(st.body) == 1 and isinstance(st.body[0], ast.Expr) \
                    and isinstance(st.body[0].value, ast.Call) and isinstance(st.body[0].value.func, ast.Attribute) \
                    and st.body[0].value.func.attr == 'append' and isinstance(st.body[0].value.func.value, ast.Name) \
                    and len(st.body[0].value.args) == 1:
                # acc = []; for t in it: acc.append(e)   ==   acc = [e for t in it]   (when acc is still the empty list)
                acc = st.body[0].value.func.value.id
                prev = [s_ for s_ in stmts[:i] if isinstance(s_, ast.Assign) and any(isinstance(t_, ast.Name) and t_.id == acc for t_ in s_.targets)]
                used = any(isinstance(x, ast.Name) and x.id == acc for x in ast.walk(st.body[0].value.args[0]))
                if prev and isinstance(prev[-1].value, ast.List) and not prev[-1].value.elts and not used:
                    comp = ast.ListComp(elt=st.body[0].value.args[0],
                                        generators=[ast.comprehension(target=st.target, iter=st.iter, ifs=[], is_async=0)])
                    ast.copy_location(comp, st)
                    ast.fix_missing_locations(comp)
                    env[acc] = self.ev(comp, env)
                    continue
            raise AnalysisError('window analysis: unsupported statement %s' % type(st).__name__)
        return rets, False

    def cond(self, test, env):
        """True / False / None for branch conditions on the length and on parameters"""
        if isinstance(test, ast.Compare) and len(test.ops) == 1:
            l, r = test.left, test.comparators[0]
            # N == 1 : lengths below 3 are outside the symbolic analysis
            lv = self.try_scalar(l, env)
            rv = self.try_scalar(r, env)
            if isinstance(lv, tuple) or isinstance(rv, tuple):
                a = lv[1] if isinstance(lv, tuple) else None
                b = rv[1] if isinstance(rv, tuple) else None
                if isinstance(lv, tuple) and isinstance(rv, tuple):
                    if isinstance(test.ops[0], ast.Eq):
                        return a == b
                    if isinstance(test.ops[0], ast.NotEq):
                        return a != b
                    if isinstance(test.ops[0], ast.In):
                        return a in b
                return None
            if lv is not None and rv is not None:
                d = sp.simplify(lv - rv)
                if d.has(N) and d.subs(N, 3).is_number:
                    # generic length: N is large; N == const is False, N < const False, N > const True
                    op = test.ops[0]
                    if isinstance(op, ast.Eq):
                        return False
                    if isinstance(op, ast.NotEq):
                        return True
                    return None
                if d.is_number:
                    op = test.ops[0]
                    return {ast.Eq: d == 0, ast.NotEq: d != 0, ast.Lt: d < 0, ast.LtE: d <= 0, ast.Gt: d > 0,
                            ast.GtE: d >= 0}.get(type(op))
            return None
        if isinstance(test, ast.BoolOp):
            vals = [self.cond(v, env) for v in test.values]
            if isinstance(test.op, ast.And):
                if any(v is False for v in vals):
                    return False
                return True if all(v is True for v in vals) else None
            if any(v is True for v in vals):
                return True
            return False if all(v is False for v in vals) else None
        return None

    def try_scalar(self, e, env):
        if isinstance(e, ast.Constant) and isinstance(e.value, str):
            return ('const', e.value)
        if isinstance(e, ast.Constant) and e.value is None:
            return ('const', None)
        if isinstance(e, (ast.List, ast.Tuple)) and all(isinstance(x, ast.Constant) for x in e.elts):
            return ('const', [x.value for x in e.elts])
        if isinstance(e, ast.Name) and isinstance(env.get(e.id), tuple) and env[e.id][0] == 'const':
            return env[e.id]
        try:
            v = self.ev(e, env)
        except AnalysisError:
            return None
        if isinstance(v, D) and v.scalar and v.centre is not None:
            return v.centre
        return None

    # ------------------------------------------------------------------ expressions
    def ev(self, e, env):
        if isinstance(e, ast.Constant):
            if isinstance(e.value, (int, float)) and not isinstance(e.value, bool):
                return scalar(rat(e.value))
            return ('const', e.value)
        if isinstance(e, ast.Name):
            if e.id in env:
                return env[e.id]
            if e.id == 'pi':
                return scalar(sp.pi)
            if e.id in ('True', 'False', 'None'):
                return ('const', {'True': True, 'False': False, 'None': None}[e.id])
            # module-level function?
            m = self.prog.modules[self.mod]
            if e.id in m.funcs:
                return ('func', m.funcs[e.id], {})
            return ('name', e.id)
        if isinstance(e, ast.Attribute):
            base = self.ev(e.value, env)
            if isinstance(base, tuple) and base[0] == 'name':
                if e.attr == 'pi':
                    return scalar(sp.pi)
                return ('name', base[1] + '.' + e.attr)
            if e.attr == 'size' and isinstance(base, tuple) and base[0] == 'mask':
                return scalar(base[1].setdefault('count', fresh('L')))
            if e.attr == 'size' and isinstance(base, D) and base.length is not None:
                return scalar(base.length)
            if e.attr == 'dtype' and isinstance(base, D):
                return ('const', 'dtype')
            raise AnalysisError('window analysis: attribute %s' % normalise(e))
        if isinstance(e, ast.UnaryOp):
            v = self.ev(e.operand, env)
            if isinstance(e.op, (ast.Invert, ast.Not)) and isinstance(v, tuple) and v[0] == 'mask' and v[1].get('side') in ('mid', 'notmid'):
                info = dict(v[1])
                info['side'] = 'notmid' if info['side'] == 'mid' else 'mid'
                info.pop('count', None)
                return ('mask', info)
            if isinstance(e.op, ast.USub):
                return self.binop(ast.Mult(), scalar(sp.Integer(-1)), v, e)
            return v
        if isinstance(e, ast.BinOp):
            return self.binop(e.op, self.ev(e.left, env), self.ev(e.right, env), e)
        if isinstance(e, ast.Call):
            return self.call(e, env)
        if isinstance(e, ast.Subscript):
            return self.subscript(e, env)
        if isinstance(e, ast.Compare):
            return self.mask(e, env)
        if isinstance(e, (ast.ListComp, ast.GeneratorExp)):
            return self.comprehension(e, env)
        if isinstance(e, (ast.Tuple, ast.List)):
            return ('tuple', [self.ev(x, env) for x in e.elts])
        raise AnalysisError('window analysis: unsupported expression %s' % type(e).__name__)

    def comprehension(self, e, env):
        if len(e.generators) != 1:
            raise AnalysisError('window analysis: nested comprehension')
        g = e.generators[0]
        it = g.iter
        inner = dict(env)
        if isinstance(it, ast.Call) and isinstance(it.func, ast.Name) and it.func.id == 'range' and len(it.args) == 1:
            n = self.ev(it.args[0], env)
            if isinstance(n, D) and n.scalar and n.centre is not None and iszero(n.centre - N):
                if not isinstance(g.target, ast.Name):
                    raise AnalysisError('window analysis: comprehension target')
                inner[g.target.id] = D(REFL, (N - 1) / 2, N, c=N - 1)
                v = self.ev(e.elt, inner)
                if isinstance(v, D):
                    r = D(v.kind, v.centre, N, c=v.c)
                    r.hazard = list(v.hazard)
                    return r
                return v
        # iteration over something that is not the index grid (e.g. `for m in ma`): a grid-independent collection
        itv = self.ev(it, env)
        if isinstance(g.target, ast.Name):
            inner[g.target.id] = scalar(fresh(g.target.id))
        for c in g.ifs:
            pass
        v = self.ev(e.elt, inner)
        if isinstance(v, D) and v.scalar:
            return scalar(fresh('coll'))
        if isinstance(itv, D) and itv.scalar and isinstance(v, D):
            return scalar(fresh('coll'))
        raise AnalysisError('window analysis: comprehension over %s' % normalise(it))

    def binop(self, op, a, b, node):
        if not isinstance(a, D) or not isinstance(b, D):
            raise AnalysisError('window analysis: arithmetic on %s' % normalise(node))
        cen = None
        if a.centre is not None and b.centre is not None:
            try:
                if isinstance(op, ast.Add):
                    cen = a.centre + b.centre
                elif isinstance(op, ast.Sub):
                    cen = a.centre - b.centre
                elif isinstance(op, ast.Mult):
                    cen = a.centre * b.centre
                elif isinstance(op, ast.Div):
                    cen = a.centre / b.centre if not iszero(b.centre) else sp.nan
                elif isinstance(op, ast.Pow):
                    cen = a.centre ** b.centre
                elif isinstance(op, ast.FloorDiv):
                    cen = sp.floor(a.centre / b.centre)
            except Exception:
                cen = None
        length = a.length if a.length is not None else b.length
        hz = a.hazard + b.hazard
        r = None
        if a.scalar and b.scalar:
            r = scalar(cen)
        elif (a.kind == SUB and (b.scalar or b.kind == SUB)) or (b.kind == SUB and a.scalar):
            _UNK[0] += 1
            r = D(SUB, None, a.length if a.kind == SUB else b.length)
            r.extra = {'id': _UNK[0], 'flipped': False}
        elif isinstance(op, (ast.Add, ast.Sub)):
            sg = 1 if isinstance(op, ast.Add) else -1
            if a.kind == REFL and b.scalar and b.centre is not None:
                r = D(REFL, cen, length, c=a.c + 2 * sg * b.centre)
            elif b.kind == REFL and a.scalar and a.centre is not None:
                r = D(REFL, cen, length, c=2 * a.centre + sg * b.c)
            elif a.kind == REFL and b.kind == REFL:
                r = D(REFL, cen, length, c=a.c + sg * b.c)
            elif a.kind == SYM and b.kind == SYM:
                r = D(SYM, cen, length)
            elif a.kind in (ASYM,) and b.kind in (ASYM,):
                r = D(ASYM, cen, length)
            elif a.kind == ASYM and b.kind == REFL and iszero(b.c) or b.kind == ASYM and a.kind == REFL and iszero(a.c):
                r = D(ASYM, cen, length)
            elif a.kind == HALF and b.scalar or b.kind == HALF and a.scalar:
                r = self.half_op(op, a, b, cen)
            else:
                r = D(TOP, cen, length)
        elif isinstance(op, (ast.Mult, ast.Div)):
            div = isinstance(op, ast.Div)
            if a.kind == REFL and b.scalar and b.centre is not None:
                r = D(REFL, cen, length, c=(a.c / b.centre) if div else a.c * b.centre)
            elif b.kind == REFL and a.scalar and a.centre is not None and not div:
                r = D(REFL, cen, length, c=a.centre * b.c)
            elif a.kind == HALF and b.scalar or b.kind == HALF and a.scalar:
                r = self.half_op(op, a, b, cen)
            else:
                ka = ASYM if (a.kind == REFL and iszero(a.c)) else a.kind
                kb = ASYM if (b.kind == REFL and iszero(b.c)) else b.kind
                if div and kb in (ASYM,) and b.centre is not None and iszero(b.centre):
                    hz = hz + ['division by a grid that vanishes at the centre sample (0/0 or x/0 for odd N): %s' % normalise(node)]
                if ka in (SYM, ASYM) and kb in (SYM, ASYM):
                    r = D(SYM if ka == kb else ASYM, cen, length)
                else:
                    r = D(TOP, cen, length)
        elif isinstance(op, ast.Pow):
            if b.scalar and b.centre is not None and sp.nsimplify(b.centre).is_Integer:
                k = int(sp.nsimplify(b.centre))
                ka = ASYM if (a.kind == REFL and iszero(a.c)) else a.kind
                if ka == SYM:
                    r = D(SYM, cen, length)
                elif ka == ASYM:
                    r = D(SYM if k % 2 == 0 else ASYM, cen, length)
                elif a.kind == HALF:
                    r = self.half_op(op, a, b, cen)
                else:
                    r = D(TOP, cen, length)
            elif a.kind == SYM and (b.kind == SYM):
                r = D(SYM, cen, length)
            elif a.kind == HALF and b.scalar:
                r = self.half_op(op, a, b, cen)
            else:
                r = D(TOP, cen, length)
        else:
            r = D(TOP, cen, length)
        r.hazard = hz
        return r

    def half_op(self, op, a, b, cen):
        """arithmetic of a half-part value (function of |n| on one side) with a scalar"""
        h, s, left = (a, b, True) if a.kind == HALF else (b, a, False)
        f = h.extra.get('f')
        r = D(HALF, None, h.length)
        r.extra = dict(h.extra)
        if f is None or s.centre is None:
            r.extra['f'] = None
            return r
        x, y = (f, s.centre) if left else (s.centre, f)
        try:
            r.extra['f'] = {ast.Add: lambda: x + y, ast.Sub: lambda: x - y, ast.Mult: lambda: x * y, ast.Div: lambda: x / y,
                            ast.Pow: lambda: x ** y}[type(op)]()
        except Exception:
            r.extra['f'] = None
        return r

    # ------------------------------------------------------------------ calls
    def fname(self, f, env):
        if isinstance(f, ast.Name):
            v = env.get(f.id)
            if isinstance(v, tuple) and v[0] == 'func':
                return None, v
            m = self.prog.modules[self.mod]
            if f.id in m.funcs and f.id not in env:
                return None, ('func', m.funcs[f.id], {})
            return f.id, None
        if isinstance(f, ast.Attribute):
            return f.attr, None
        return None, None

    def call(self, e, env):
        name, fn = self.fname(e.func, env)
        if fn is None and isinstance(e.func, ast.Attribute) and name in ('take', 'copy', 'astype'):
            try:
                recv = self.ev(e.func.value, env)
            except AnalysisError:
                recv = None
            if isinstance(recv, D):
                if name == 'take' and len(e.args) == 1 and not e.keywords:
                    return self.select(recv, self.ev(e.args[0], env), e)
                if name in ('copy', 'astype'):
                    return recv
        args = [self.ev(a, env) for a in e.args]
        kw = {k.arg: self.ev(k.value, env) for k in e.keywords if k.arg}
        if fn is not None:
            _tag, fnode, cenv = fn
            # inline a module-level or nested function
            params = [x.arg for x in fnode.args.args]
            full = list(args) + [None] * (len(params) - len(args))
            for k, v in kw.items():
                if k in params:
                    full[params.index(k)] = v
            saved_mod = None
            sub = Walker(self.prog, self.mod)
            sub.depth = self.depth
            sub.midmasks = self.midmasks
            base_env = dict(cenv) if cenv else {}
            # nested functions see the enclosing variables
            rets, _done = sub._returns_with_env(fnode, full, base_env)
            self.notes += sub.notes
            if not rets:
                raise AnalysisError('window analysis: %s does not return' % fnode.name)
            # all returns must agree in kind; take the generic (last) one but merge hazards
            out = [r for r, _c in rets if isinstance(r, D)]
            if len(out) != len(rets):
                raise AnalysisError('window analysis: non-numeric return in %s' % fnode.name)
            if len(out) == 1:
                return out[0]
            kinds = set(o.kind for o in out)
            r = D(out[-1].kind if len(kinds) == 1 else TOP, out[-1].centre, out[-1].length, c=out[-1].c)
            for o in out:
                r.hazard += o.hazard
                if o.centre is None or r.centre is None or not iszero(o.centre - r.centre):
                    r.centre = r.centre if (o.centre is not None and r.centre is not None and iszero(o.centre - r.centre)) else None
            return r
        if name in ('arange',):
            if len(args) == 1:
                lo, hi = sp.Integer(0), args[0].centre
            else:
                lo, hi = args[0].centre, args[1].centre
            if lo is None or hi is None:
                raise AnalysisError('window analysis: arange bounds')
            ln = sp.simplify(hi - lo)
            if iszero(ln - N):
                return D(REFL, lo + (N - 1) / 2, N, c=2 * lo + N - 1)
            # a grid over another axis (e.g. arange(1, nbar)): independent of the window index
            return scalar(fresh('axis'))
        if name == 'linspace':
            a, b, n = args[0], args[1], args[2] if len(args) > 2 else kw.get('num')
            if not (isinstance(n, D) and n.centre is not None and iszero(n.centre - N)):
                raise AnalysisError('window analysis: linspace count is not N')
            if a.centre is None or b.centre is None:
                raise AnalysisError('window analysis: linspace bounds')
            return D(REFL, (a.centre + b.centre) / 2, N, c=sp.simplify(a.centre + b.centre))
        if name in ('empty_like', 'zeros_like') and args and isinstance(args[0], D) and args[0].length is not None:
            return ('buf', {'length': args[0].length, 'parts': {}})
        if name == 'empty' and args and isinstance(args[0], D) and args[0].scalar and args[0].centre is not None:
            return ('buf', {'length': args[0].centre, 'parts': {}, 'slices': []})
        if name == 'ones':
            ln = args[0].centre if isinstance(args[0], D) else None
            return D(SYM, sp.Integer(1), ln)
        if name in ('array', 'asarray', 'float', 'real'):
            v = args[0]
            if isinstance(v, tuple) and v[0] == 'range' and len(v[1]) == 1 and isinstance(v[1][0], D) and v[1][0].scalar \
                    and v[1][0].centre is not None and iszero(v[1][0].centre - N):
                return D(REFL, (N - 1) / 2, N, c=N - 1)          # array(range(N)) is the index grid arange(N)
            if isinstance(v, tuple) and v[0] == 'tuple':
                if all(isinstance(x, D) and x.scalar for x in v[1]):
                    if len(v[1]) == 1:
                        return D(SYM, v[1][0].centre, sp.Integer(1))
                    return scalar(fresh('arr'))
                raise AnalysisError('window analysis: array literal')
            return v
        if name in ('hamming', 'hanning', 'bartlett', 'kaiser', 'blackman', 'chebwin'):
            n = args[0]
            ln = n.centre if isinstance(n, D) else None
            r = D(SYM, sp.Integer(1), ln)
            r.extra['lib'] = name
            self.notes.append('axiom: %s(N) is symmetric with maximum 1 at the centre of an odd-length window' % name)
            return r
        if name in EVEN | ODD | GENERAL:
            x = args[-1] if name in ('iv', 'besselI') else args[0]
            if not isinstance(x, D):
                raise AnalysisError('window analysis: %s of non-numeric' % name)
            cen = None
            if x.centre is not None and name in SP:
                try:
                    cen = sp.simplify(SP[name](x.centre))
                except Exception:
                    cen = None
            if x.scalar:
                return scalar(cen)
            kind = TOP
            if x.kind == SUB:
                _UNK[0] += 1
                r = D(SUB, None, x.length)
                r.extra = {'id': _UNK[0], 'flipped': False}
                return r
            if x.kind == HALF:
                r = D(HALF, None, x.length)
                r.extra = dict(x.extra)
                f = x.extra.get('f')
                if name in ('abs', 'absolute') and x.extra.get('raw'):
                    r.extra['raw'] = False
                    r.extra['f'] = sp.Symbol('u', positive=True)
                elif f is not None and not x.extra.get('raw') and name in SP:
                    r.extra['f'] = SP[name](f)
                else:
                    r.extra['f'] = None
                return r
            if x.kind == SYM:
                kind = SYM
            elif x.kind == ASYM or (x.kind == REFL and iszero(x.c)):
                kind = SYM if name in EVEN else (ASYM if name in ODD else TOP)
            elif x.kind == REFL:
                if name == 'cos':
                    k = is_multiple(x.c, sp.pi)
                    kind = TOP if k is None else (SYM if k % 2 == 0 else ASYM)
                elif name == 'sin':
                    k = is_multiple(x.c, sp.pi)
                    kind = TOP if k is None else (ASYM if k % 2 == 0 else SYM)
            r = D(kind, cen, x.length)
            r.hazard = list(x.hazard)
            if name in ('abs', 'absolute') and x.kind == REFL and iszero(x.c):
                r.extra['absgrid'] = True
            return r
        if name in ('sum', 'prod', 'mean', 'reduce'):
            x = args[0]
            if isinstance(x, D) and x.scalar:
                return scalar(_SUM(x.centre) if x.centre is not None else None)
            if isinstance(x, D) and x.kind == SYM:
                # reduction over another axis (kept elementwise) or over the grid (a scalar): symmetric either way
                r = D(SYM, _SUM(x.centre) if x.centre is not None else None, x.length)
                r.hazard = list(x.hazard)
                return r
            return D(TOP, None, None)
        if name == 'len':
            x = args[0]
            if isinstance(x, D) and x.length is not None:
                return scalar(x.length)
            raise AnalysisError('window analysis: len of unknown length')
        if name == 'outer' and len(args) == 2 and all(isinstance(a_, D) for a_ in args):
            # outer(a, b)[i, j] = a[i] * b[j]: with one factor independent of the window index this is a product along another axis
            if args[0].scalar or args[1].scalar:
                return self.binop(ast.Mult(), args[0], args[1], e)
            return D(TOP, None, None)
        if name == 'einsum' and len(args) == 3 and isinstance(args[0], tuple) and args[0][0] == 'const' and isinstance(args[0][1], str):
            spec = args[0][1].replace(' ', '')
            a_, b_ = args[1], args[2]
            if isinstance(a_, D) and isinstance(b_, D) and spec in ('ij,j->i', 'j,ij->i', 'ij,j', 'i,i->', 'i,i'):
                # contraction of a product over an axis that is not the window index (one operand is independent of it)
                if a_.scalar or b_.scalar:
                    prod_ = self.binop(ast.Mult(), a_, b_, e)
                    if prod_.scalar:
                        return scalar(_SUM(prod_.centre) if prod_.centre is not None else None)
                    if prod_.kind == SYM:
                        r = D(SYM, _SUM(prod_.centre) if prod_.centre is not None else None, prod_.length)
                        r.hazard = list(prod_.hazard)
                        return r
                return D(TOP, None, None)
        if name == 'where' and len(args) == 3:
            m_, a_, b_ = args
            if isinstance(m_, tuple) and m_[0] == 'mask' and isinstance(a_, D) and isinstance(b_, D):
                if m_[1].get('side') == 'mid' and a_.kind == SYM and b_.kind == SYM:
                    # |grid| <= bound is a reflection-symmetric selection and contains the centre sample (bound >= 0)
                    r = D(SYM, a_.centre, a_.length if a_.length is not None else b_.length)
                    r.hazard = a_.hazard + b_.hazard
                    return r
                return D(TOP, None, a_.length if a_.length is not None else b_.length)
            raise AnalysisError('window analysis: where(mask, a, b) arguments')
        if name == 'where':
            return ('where', args[0])
        if name == 'flatnonzero' and len(args) == 1 and isinstance(args[0], tuple) and args[0][0] == 'mask':
            return args[0]           # the positions a mask selects: used as an index like the mask itself
        if name == 'take' and len(args) == 2 and isinstance(args[0], D):
            return self.select(args[0], args[1], e)
        if name in ('flipud', 'flip'):
            x = args[0]
            if isinstance(x, D) and x.kind == SUB:
                r = D(SUB, None, x.length)
                r.extra = {'id': x.extra['id'], 'flipped': not x.extra.get('flipped', False)}
                return r
            if isinstance(x, D) and x.kind in (SYM,):
                return x
            if isinstance(x, D) and x.kind == HALF:
                r = D(HALF, None, x.length)
                r.extra = dict(x.extra)
                r.extra['side'] = {'pos': 'neg', 'neg': 'pos'}.get(x.extra.get('side'), x.extra.get('side'))
                return r
            return D(TOP, None, getattr(x, 'length', None))
        if name in ('concatenate', 'hstack'):
            parts = args[0][1] if isinstance(args[0], tuple) and args[0][0] == 'tuple' else None
            if parts is None:
                raise AnalysisError('window analysis: concatenate argument')
            return self.concat(parts, e)
        if name == 'dir':
            return ('const', [])
        if name in ('range',):
            return ('range', args)
        raise AnalysisError('window analysis: unknown function %s' % name)

    def _returns_with_env(self, fnode, args, base_env):
        a = fnode.args
        names = [x.arg for x in a.args]
        env = dict(base_env)
        nd = len(a.defaults)
        for i, nm in enumerate(names):
            if i < len(args) and args[i] is not None:
                env[nm] = args[i]
            else:
                j = i - (len(names) - nd)
                if j >= 0:
                    d = a.defaults[j]
                    if isinstance(d, ast.Constant) and isinstance(d.value, (int, float)) and not isinstance(d.value, bool):
                        env[nm] = scalar(sp.Symbol(nm, positive=True))
                    elif isinstance(d, ast.Constant):
                        env[nm] = ('const', d.value)
                    else:
                        env[nm] = scalar(fresh(nm))
                else:
                    env[nm] = scalar(fresh(nm))
        self.depth += 1
        if self.depth > 12:
            raise AnalysisError('window call depth')
        try:
            return self.block(fnode.body, env, [])
        finally:
            self.depth -= 1

    # ------------------------------------------------------------------ masks / parts
    def mask(self, e, env):
        if len(e.ops) != 1:
            raise AnalysisError('window analysis: chained comparison')
        l = self.ev(e.left, env)
        r = self.ev(e.comparators[0], env)
        op = e.ops[0]
        if isinstance(l, D) and isinstance(r, D) and r.scalar and r.centre is not None:
            grid, bound = l, r.centre
            info = {'bound': bound}
            if grid.kind == REFL and iszero(grid.c):
                if isinstance(op, (ast.Gt, ast.GtE)):
                    info.update(side='pos', strict=isinstance(op, ast.Gt))
                    return ('mask', info)
                if isinstance(op, (ast.Lt, ast.LtE)):
                    info.update(side='neg', strict=isinstance(op, ast.Lt), bound=-bound)
                    return ('mask', info)
            if grid.kind == SYM and grid.extra.get('absgrid'):
                if isinstance(op, (ast.LtE, ast.Lt)):
                    info.update(side='mid', strict=isinstance(op, ast.Lt))
                    return ('mask', info)
            if grid.kind == REFL:
                info.update(side='low' if isinstance(op, (ast.Lt, ast.LtE)) else 'high', grid=grid)
                return ('mask', info)
        if isinstance(op, (ast.Eq, ast.NotEq)) and isinstance(l, D):
            return ('mask', {'side': 'other', 'bound': None, 'strict': True})      # picks / drops single entries: an unknown sub-vector
        raise AnalysisError('window analysis: unsupported mask %s' % normalise(e))

    def subscript(self, e, env):
        base = self.ev(e.value, env)
        sl = e.slice
        if isinstance(base, D) and isinstance(sl, ast.Tuple) and len(sl.elts) == 2:
            # x[:, newaxis] / x[newaxis, :] / x[:, None]: the same values with one more axis
            def full(x_):
                return isinstance(x_, ast.Slice) and x_.lower is None and x_.upper is None and x_.step is None
            def newax(x_):
                return (isinstance(x_, ast.Constant) and x_.value is None) or \
                    (isinstance(x_, ast.Attribute) and x_.attr == 'newaxis') or (isinstance(x_, ast.Name) and x_.id == 'newaxis')
            if (full(sl.elts[0]) and newax(sl.elts[1])) or (newax(sl.elts[0]) and full(sl.elts[1])):
                return base
        if isinstance(base, D) and isinstance(sl, ast.Slice) and sl.lower is None and sl.upper is None:
            st_ = sl.step
            if st_ is None:
                return base
            if isinstance(st_, ast.UnaryOp) and isinstance(st_.op, ast.USub) and isinstance(st_.operand, ast.Constant) and st_.operand.value == 1:
                return self.call(ast.copy_location(ast.Call(func=ast.Name(id='flipud', ctx=ast.Load()), args=[e.value], keywords=[]), e), env)
        idx = self.ev(e.slice, env) if not isinstance(e.slice, ast.Slice) else None
        if isinstance(base, tuple) and base[0] == 'where':
            return base[1]          # where(mask)[0] -> the mask
        if isinstance(base, D) and not base.scalar and base.length is not None and iszero(base.length - 1) and isinstance(idx, D) \
                and idx.scalar and idx.centre is not None and iszero(idx.centre):
            return scalar(base.centre)         # the only element of a one-element array
        return self.select(base, idx, e)

    def select(self, base, idx, e):
        if isinstance(base, D) and base.scalar and isinstance(idx, tuple) and idx[0] == 'mask':
            return scalar(fresh('coll'))         # a selection from a collection that does not depend on the window index
        if isinstance(base, D) and isinstance(idx, tuple) and idx[0] == 'mask':
            info = idx[1]
            if info['side'] in ('pos', 'neg'):
                r = D(HALF, None, info.setdefault('count', fresh('L')))
                r.extra = {'side': info['side'], 'bound': info['bound'], 'strict': info['strict'], 'raw': True, 'f': None}
                return r
            if info['side'] == 'mid':
                r = D(REFL, base.centre, fresh('L'), c=base.c)       # symmetric restriction of an antisymmetric grid
                self.midmasks.append((info['bound'], info['strict']))
                return r
            if info['side'] == 'notmid':
                # the complement of a reflection-symmetric selection is reflection-symmetric too (it does not hold the centre)
                return D(base.kind, None, fresh('L'), c=base.c) if base.kind in (REFL, SYM) else D(TOP, None, fresh('L'))
            _UNK[0] += 1
            r = D(SUB, None, info.setdefault('count', fresh('L')))
            r.extra = {'id': _UNK[0], 'flipped': False}
            return r
        if isinstance(base, D) and base.kind == SUB:
            return base
        raise AnalysisError('window analysis: unsupported subscript %s' % normalise(e))

    def concat(self, parts, node):
        if not all(isinstance(p, D) for p in parts):
            raise AnalysisError('window analysis: concatenate of non-arrays')
        total = None
        if all(p.length is not None for p in parts):
            total = sp.simplify(sum(p.length for p in parts))
        hz = []
        for p in parts:
            hz += p.hazard
        # pattern 1: (A, M, flip(A)) with M symmetric
        if len(parts) == 3 and parts[0].kind == SUB and parts[2].kind == SUB and parts[1].kind == SYM \
                and parts[0].extra['id'] == parts[2].extra['id'] and parts[0].extra.get('flipped', False) != parts[2].extra.get('flipped', False):
            r = D(SYM, parts[1].centre, total)
            r.hazard = hz
            return r
        # pattern 2: (f(|n|) on n<-c, g on |n|<=c, f(|n|) on n>c): mirrored masks partition the antisymmetric grid
        if len(parts) == 3 and parts[0].kind == HALF and parts[2].kind == HALF and parts[1].kind == SYM:
            a, b, mid = parts[0], parts[2], parts[1]
            ok = {a.extra.get('side'), b.extra.get('side')} == {'pos', 'neg'} and a.extra.get('side') == 'neg'
            fa, fb = a.extra.get('f'), b.extra.get('f')
            same_f = fa is not None and fb is not None and iszero(fa - fb) and not a.extra.get('raw') and not b.extra.get('raw')
            same_c = iszero(a.extra['bound'] - b.extra['bound'])
            mid_ok = any(iszero(bd - a.extra['bound']) and (st != a.extra.get('strict')) for bd, st in self.midmasks)
            if ok and same_f and same_c and mid_ok:
                r = D(SYM, mid.centre, N)      # the three masks partition the N-point grid
                r.hazard = hz
                return r
        r = D(TOP, None, total)
        r.hazard = hz
        return r
