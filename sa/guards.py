"""validity guards as intervals: `if <test>: raise` / `if <test>: pass else: raise` on a local scalar against numeric
literals is read as the accepted interval of that scalar (open / closed at each end), independent of how the test is
spelt (operand order, chained comparison, not / De Morgan, pass-else-raise or raise-if-not)."""
import ast


def _num(e):
    if isinstance(e, ast.Constant) and isinstance(e.value, (int, float)) and not isinstance(e.value, bool):
        return float(e.value)
    if isinstance(e, ast.UnaryOp) and isinstance(e.op, ast.USub):
        v = _num(e.operand)
        return -v if v is not None else None
    return None


FLIP = {ast.Lt: ast.Gt, ast.Gt: ast.Lt, ast.LtE: ast.GtE, ast.GtE: ast.LtE}
NEG = {ast.Lt: ast.GtE, ast.GtE: ast.Lt, ast.Gt: ast.LtE, ast.LtE: ast.Gt}


def _atoms(test, positive=True):
    """list of (name, op class, constant) whose conjunction is `test` (or its negation); None when it is not a conjunction
    of comparisons of a plain name with a literal"""
    if isinstance(test, ast.UnaryOp) and isinstance(test.op, ast.Not):
        return _atoms(test.operand, not positive)
    if isinstance(test, ast.BoolOp):
        conj = isinstance(test.op, ast.And) == positive
        if not conj:
            return None
        out = []
        for v in test.values:
            a = _atoms(v, positive)
            if a is None:
                return None
            out += a
        return out
    if isinstance(test, ast.Compare):
        if not positive and len(test.ops) > 1:
            return None
        out = []
        left = test.left
        for op, right in zip(test.ops, test.comparators):
            if type(op) not in FLIP:
                return None
            if isinstance(left, ast.Name) and _num(right) is not None:
                name, o, c = left.id, type(op), _num(right)
            elif isinstance(right, ast.Name) and _num(left) is not None:
                name, o, c = right.id, FLIP[type(op)], _num(left)
            else:
                return None
            if not positive:
                o = NEG[o]
            out.append((name, o, c))
            left = right
        return out
    return None


def accepted_intervals(fnode):
    """[(If node, {name: (lo, lo_closed, hi, hi_closed)})] for every raise-guard of the function that reads as intervals"""
    out = []
    for n in ast.walk(fnode):
        if not isinstance(n, ast.If):
            continue
        body_raises = bool(n.body) and isinstance(n.body[-1], ast.Raise)
        else_raises = bool(n.orelse) and isinstance(n.orelse[-1], ast.Raise)
        if body_raises == else_raises:
            continue
        atoms = _atoms(n.test, positive=else_raises)      # the condition under which execution continues
        if not atoms:
            continue
        iv = {}
        for name, o, c in atoms:
            lo, lc, hi, hc = iv.get(name, (None, False, None, False))
            if o in (ast.Gt, ast.GtE):
                if lo is None or c > lo or (c == lo and o is ast.Gt):
                    lo, lc = c, o is ast.GtE
            else:
                if hi is None or c < hi or (c == hi and o is ast.Lt):
                    hi, hc = c, o is ast.LtE
            iv[name] = (lo, lc, hi, hc)
        out.append((n, iv))
    return out


def show(iv):
    lo, lc, hi, hc = iv
    return '%s%s, %s%s' % ('[' if lc else '(', '-inf' if lo is None else ('%g' % lo), 'inf' if hi is None else ('%g' % hi), ']' if hc else ')')
