"""What a 1-D work buffer holds, piece by piece: zeros it was allocated with, values stored into it, or the output of an
earlier transform.  A buffer is a small set of alternatives (the states joined at a loop head), each a tuple of pieces
(lo, hi, kind) with affine bounds; kind is 'zero', 'val' or 'spec'.  Used by the transform-input rule: a transform whose
input is partly an earlier spectrum and partly fresh values is a buffer that was re-used without being cleared."""
from .values import Aff, aff, aff_le

MAX_ALT = 4


def whole(n, kind):
    n = aff(n)
    if n is None:
        return None
    return [((Aff(0), n, kind),)]


def _store_alt(alt, lo, hi, kind, total=None):
    out = []
    for a, b, k in alt:
        # part of the old piece left of lo
        if aff_le(b, lo):
            out.append((a, b, k))
            continue
        if aff_le(hi, a):
            out.append((a, b, k))
            continue
        if aff_le(a, lo):
            if not (a == lo):
                out.append((a, lo, k))
        elif not aff_le(lo, a):
            return None
        if aff_le(hi, b) or (total is not None and b == total):
            # numpy clips a slice to the buffer: against the end of the buffer the upper bound is never larger
            if not (hi == b):
                out.append((hi, b, k))
        elif not aff_le(b, hi):
            return None
    out.append((lo, hi, kind))
    try:
        out.sort(key=lambda p: 0)       # keep insertion order; ordering by symbolic bounds is not needed by the rule
    except Exception:
        pass
    return tuple(out)


def store(cov, lo, hi, kind, total=None):
    if cov is None or lo is None or hi is None:
        return None
    res = []
    for alt in cov:
        na = _store_alt(alt, lo, hi, kind, total)
        if na is None:
            return None
        if na not in res:
            res.append(na)
    return res


def join(a, b):
    if a is None or b is None:
        return None
    res = list(a)
    for alt in b:
        if alt not in res:
            res.append(alt)
    return res if len(res) <= MAX_ALT else None


def mixed(cov):
    """alternatives in which an earlier transform output and something else share the buffer"""
    bad = []
    for alt in cov or []:
        kinds = set(k for a, b, k in alt if not (a == b))
        if 'spec' in kinds and len(kinds) > 1:
            bad.append(alt)
    return bad


def show(alt):
    return ' ++ '.join('%s[%s:%s]' % (k, a, b) for a, b, k in alt)
