"""D8 -- ownership / aliasing of array storage.

Every abstract array carries the set of caller-owned arrays it may share memory with (`view_of`: the parameters of the
entry function, propagated through the operations that return views or the object itself: basic slicing, transpose,
reshape, flips, `.real`, asarray / astype(copy=False) when the dtype already matches, the conj *method* of a real
array) and a memory identity (`mid`) shared by local names bound to the same storage.

Rule `no-input-mutation`: no in-place write (subscript store, augmented assignment on an array) in a function anchored
by the property reaches storage of an argument of the entry point.  A function that overwrites its caller's data
returns the right answer the first time and a different one on the next call with the same record: every clause that
quantifies over calls (nesting of orders, re-evaluation, reuse of precomputed tapers) breaks.  The rule reads the
events of every abstract run the property's own rules performed -- it adds no run of its own -- and reports the
write statement, the function it sits in and the parameter whose storage it reaches."""
import ast

from .frontend import normalise, loc

# functions whose writes are examined, per property (the functions named by the property's anchors)
SCOPE = {
    'C01': ['periodogram.speriodogram', 'correlog.CORRELOGRAMPSD', 'periodogram.Periodogram.__call__'],
    'C09': ['correlation.CORRELATION', 'correlation.xcorr', 'linalg.corrmtx'],
    'C10': ['levinson.LEVINSON', 'toeplitz.HERMTOEP', 'toeplitz.TOEPLITZ', 'cholesky.CHOLESKY', 'cholesky._numpy_cholesky',
            'cholesky._numpy_solver', 'cholesky._scipy_cholesky'],
    'C11': ['levinson.rlevinson', 'levinson.levdown', 'levinson.levup', 'linear_prediction.ac2poly', 'linear_prediction.ac2rc',
            'linear_prediction.poly2ac', 'linear_prediction.poly2rc', 'linear_prediction.rc2poly', 'linear_prediction.rc2ac',
            'linear_prediction.rc2lar', 'linear_prediction.lar2rc', 'linear_prediction.rc2is', 'linear_prediction.is2rc',
            'linear_prediction.lsf2poly', 'linear_prediction.poly2lsf'],
    'C12': ['yulewalker.aryule', 'lpc.lpc', 'correlation.CORRELATION', 'levinson.LEVINSON'],
    'C13': ['burg.arburg', 'burg._arburg2'],
    'C14': ['covar.arcovar', 'covar.arcovar_marple', 'modcovar.modcovar', 'modcovar.modcovar_marple', 'linalg.corrmtx'],
    'C15': ['arma.ma', 'arma.arma_estimate', 'yulewalker.aryule'],
    'C16': ['minvar.minvar', 'burg.arburg'],
    'C17': ['eigenfre.eigen', 'eigenfre.music', 'eigenfre.ev', 'linalg.corrmtx'],
    'C19': ['mtm.pmtm'],
}

# in-place writes examined on today's tree (confirmed by reading): the rule must keep seeing at least these
# entry points the property's own rules run abstractly on today's tree (confirmed by a run): each one that still exists must keep
# being examined.  Private helpers are deliberately not listed: inlining or renaming one is not a defect.
RUN = {
    'C01': ['correlog.CORRELOGRAMPSD', 'periodogram.speriodogram'],
    'C09': ['correlation.CORRELATION', 'correlation.xcorr', 'linalg.corrmtx'],
    'C10': ['cholesky.CHOLESKY', 'levinson.LEVINSON', 'toeplitz.HERMTOEP', 'toeplitz.TOEPLITZ'],
    'C11': ['levinson.rlevinson', 'linear_prediction.ac2poly', 'linear_prediction.ac2rc', 'linear_prediction.is2rc',
            'linear_prediction.lar2rc', 'linear_prediction.poly2ac', 'linear_prediction.poly2rc', 'linear_prediction.rc2ac',
            'linear_prediction.rc2is', 'linear_prediction.rc2lar', 'linear_prediction.rc2poly'],
    'C12': ['correlation.CORRELATION', 'levinson.LEVINSON', 'lpc.lpc', 'yulewalker.aryule'],
    'C13': ['burg.arburg'],
    'C14': ['covar.arcovar', 'covar.arcovar_marple', 'linalg.corrmtx', 'modcovar.modcovar', 'modcovar.modcovar_marple'],
    'C15': ['arma.arma_estimate', 'arma.ma'],
    'C16': ['burg.arburg', 'minvar.minvar'],
    'C17': ['eigenfre.eigen'],
    'C19': ['mtm.pmtm'],
}

RULE = 'no-input-mutation'
TEXT = ('no in-place write (element / slice store, augmented assignment on an array) in an anchored function reaches storage that '
        'may belong to an argument of the entry point: arguments are followed through views and zero-copy conversions '
        '(slicing, transpose, reshape, flips, .real, asarray / astype(copy=False) with a matching dtype, conj() of a real array)')


CACHES = ('lru_cache', 'cache', 'cached_property', 'memoize', 'memoized', 'Memoize')


def _property_modules(pid):
    """module names of the files the property is anchored in (read from the given properties.jsonl)"""
    import json
    import os
    path = os.path.join(os.path.dirname(os.path.dirname(os.path.abspath(__file__))), 'properties.jsonl')
    mods = []
    try:
        for line in open(path):
            p = json.loads(line)
            if p.get('id') == pid:
                for f in p.get('anchors', {}).get('files', []):
                    if f.startswith('src/spectrum/') and f.endswith('.py'):
                        mods.append(os.path.basename(f)[:-3])
    except (OSError, ValueError):
        pass
    return mods


def _scalar_only_return(fnode):
    """every return is a literal / parameter-free constant expression (so caching cannot share a mutable array)"""
    for n in ast.walk(fnode):
        if isinstance(n, ast.Return) and n.value is not None:
            for x in ast.walk(n.value):
                if isinstance(x, (ast.Call, ast.Name, ast.Subscript, ast.Attribute, ast.ListComp, ast.List)):
                    return False
    return True


def report_shared_results(prog, rep, pid):
    """`no-shared-result`: no memoised function in the anchored modules returns an object that every caller shares"""
    mods = [m for m in _property_modules(pid) if m in prog.modules]
    if not mods:
        return
    rep.rule('no-shared-result', 'no function of the anchored modules is wrapped in a result cache (functools.lru_cache / cache / '
             'a memoising decorator) unless it returns only literals: a cached array is the same storage for every caller, so one '
             "caller's in-place use changes what the next request for the same arguments returns")
    n = 0
    for m in mods:
        mod = prog.modules[m]
        defs = [(None, f) for f in mod.funcs.values()]
        for cname, cnode in mod.classes.items():
            defs += [(cname, f) for f in cnode.body if isinstance(f, ast.FunctionDef)]
        for cname, f in defs:
            n += 1
            for d in f.decorator_list:
                dd = d.func if isinstance(d, ast.Call) else d
                nm = dd.attr if isinstance(dd, ast.Attribute) else getattr(dd, 'id', '')
                if nm in CACHES and not _scalar_only_return(f):
                    rep.violation('no-shared-result', '%s.%s' % (m, (cname + '.' if cname else '') + f.name), '@' + normalise(d),
                                  'the result is cached and handed out again: a caller that modifies the returned array in place '
                                  '(w /= w.sum(), w *= x) changes what later calls with the same arguments return',
                                  'src/spectrum/%s.py:%s' % (m, f.lineno))
    if not any(o.rule == 'no-shared-result' and o.status == 'VIOLATION' for o in rep.obls):
        rep.proved('no-shared-result', ','.join(mods), 'function definitions', '%d definitions examined: none returns a cached mutable object' % n)
    rep.floor('definitions examined for result caching', n, 1)


def report_transform_inputs(prog, rep, pid, interps):
    """`clean-transform-input`: no transform reads a work buffer that still holds part of an earlier transform next to freshly
    stored values (a buffer re-bound to its own FFT and only partly rewritten: the zero padding is gone after the first use)"""
    n = 0
    bad = {}
    for itp in interps:
        for e in itp.events:
            if e[0] == 'fft' and isinstance(e[6], type(None)) is False and getattr(e[6], 'cover', None) is not None:
                n += 1
            elif e[0] == 'fft-stale-input':
                bad.setdefault((e[3], normalise(e[1])), (e[1], e[2]))
    if not n and not bad:
        return
    rep.rule('clean-transform-input', 'for every transform whose input buffer is tracked piece by piece (allocated by zeros, written by '
             'slice stores, possibly re-bound to a transform output inside a loop): in no state reaching the call does the buffer hold '
             'an earlier transform output in one piece and other values in another')
    for (fn, text), (node, desc) in sorted(bad.items(), key=lambda kv: kv[0]):
        f = _func(prog, fn)
        rep.violation('clean-transform-input', fn, text, 'on a later pass of the loop the transformed buffer is %s: part of it is the output '
                      'of the previous transform (the name was re-bound to its own FFT and only partly rewritten), so the sequence that '
                      'is transformed is not the zero-padded vector' % desc, loc(f.mod, node) if f is not None else '')
    if not bad:
        rep.proved('clean-transform-input', pid, 'transform inputs', '%d transform calls on tracked buffers: none mixes an earlier '
                   'spectrum with new values' % n)


def report(prog, rep, pid, interps):
    report_shared_results(prog, rep, pid)
    report_transform_inputs(prog, rep, pid, interps)
    scope = SCOPE.get(pid)
    if not scope:
        return
    rep.rule(RULE, TEXT)
    entered, stores, bad, unk = {}, {}, {}, {}
    for itp in interps:
        for e in itp.events:
            if e[0] == 'alias-lost' and e[4] in scope:
                unk.setdefault(e[4], set()).add('%s applied to storage of %s' % (e[3], '/'.join(sorted(map(str, e[2])))))
        for q in set(itp.trace):
            if q in scope:
                entered[q] = entered.get(q, 0) + 1
        for e in itp.events:
            if e[0] in ('store', 'store-aug') and e[-1] in scope:
                stores.setdefault(e[-1], set()).add(normalise(e[1]))
            elif e[0] == 'inplace' and e[3] in scope:
                bad.setdefault((e[3], normalise(e[1])), (e[1], set()))[1].update(e[2])
    for (fn, text), (node, labels) in sorted(bad.items(), key=lambda kv: kv[0]):
        f = _func(prog, fn)
        rep.violation(RULE, fn, text, 'this statement writes in place into storage that may be the caller\'s %s: the argument '
                      'reaches it without a copy, so the call overwrites the caller\'s data and a later call on the same '
                      'record sees different samples' % ' / '.join(sorted(map(str, labels))),
                      loc(f.mod, node) if f is not None else '')
    total = 0
    for fn in scope:
        if fn not in entered:
            continue
        n = len(stores.get(fn, ()))
        total += n
        if not any(k[0] == fn for k in bad):
            f = _func(prog, fn)
            if fn in unk:
                rep.undecided(RULE, fn, 'in-place writes', 'constructs the alias analysis cannot follow: %s' % '; '.join(sorted(unk[fn]))[:300],
                              loc(f.mod, f.node) if f is not None else '')
                continue
            rep.proved(RULE, fn, 'in-place writes', '%d distinct in-place write statements examined in %d abstract runs: none reaches '
                       'an argument\'s storage' % (n, entered[fn]), loc(f.mod, f.node) if f is not None else '')
    # every anchored function the property's rules are known to run (and that still exists) must have been run
    expected = [fn for fn in RUN.get(pid, ()) if _func(prog, fn) is not None]
    rep.floor('anchored functions examined for input mutation', len([fn for fn in expected if fn in entered]), max(1, len(expected)))
    rep.extra['in_place_writes_examined'] = total      # informative only: the number of write statements is not an invariant of the code


def _func(prog, qname):
    try:
        parts = qname.split('.')
        if len(parts) == 2:
            return prog.func(parts[0], parts[1])
        cls = prog.cls(parts[0], parts[1])
        return cls.find_method(parts[2])
    except Exception:
        return None
