"""D8 -- ownership / aliasing of array storage.

Every abstract array carries the set of caller-owned arrays it may share memory with (`view_of`: the parameters of the
entry function, propagated through the operations that return views or the object itself: basic slicing, transpose,
reshape, flips, `.real`, asarray / astype(copy=False) when the dtype already matches, the conj *method* of a real
array) and a memory identity (`mid`) shared by local names bound to the same storage.

Rule `no-input-mutation`: no in-place write (subscript store, augmented assignment on an array) in a function anchored
by the property reaches storage of an argument of the entry point.  A function that overwrites its caller's data
returns the right answer the first time and a different one on the next call with the same record: every clause that
quantifies over calls (nesting of orders, re-evaluation, reuse of precomputed tapers) breaks.  The rule reads the
events of every abstract run the property's own rules performed -- it adds no run of its own -- and reports the
write statement, the function it sits in and the parameter whose storage it reaches."""
import ast

from .frontend import normalise, loc

# functions whose writes are examined, per property (the functions named by the property's anchors)
SCOPE = {
    'C01': ['periodogram.speriodogram', 'correlog.CORRELOGRAMPSD', 'periodogram.Periodogram.__call__'],
    'C09': ['correlation.CORRELATION', 'correlation.xcorr', 'linalg.corrmtx'],
    'C10': ['levinson.LEVINSON', 'toeplitz.HERMTOEP', 'toeplitz.TOEPLITZ', 'cholesky.CHOLESKY', 'cholesky._numpy_cholesky',
            'cholesky._numpy_solver', 'cholesky._scipy_cholesky'],
    'C11': ['levinson.rlevinson', 'levinson.levdown', 'levinson.levup', 'linear_prediction.ac2poly', 'linear_prediction.ac2rc',
            'linear_prediction.poly2ac', 'linear_prediction.poly2rc', 'linear_prediction.rc2poly', 'linear_prediction.rc2ac',
            'linear_prediction.rc2lar', 'linear_prediction.lar2rc', 'linear_prediction.rc2is', 'linear_prediction.is2rc',
            'linear_prediction.lsf2poly', 'linear_prediction.poly2lsf'],
    'C12': ['yulewalker.aryule', 'lpc.lpc', 'correlation.CORRELATION', 'levinson.LEVINSON'],
    'C13': ['burg.arburg', 'burg._arburg2'],
    'C14': ['covar.arcovar', 'covar.arcovar_marple', 'modcovar.modcovar', 'modcovar.modcovar_marple', 'linalg.corrmtx'],
    'C15': ['arma.ma', 'arma.arma_estimate', 'yulewalker.aryule'],
    'C16': ['minvar.minvar', 'burg.arburg'],
    'C17': ['eigenfre.eigen', 'eigenfre.music', 'eigenfre.ev', 'linalg.corrmtx'],
    'C19': ['mtm.pmtm'],
}

# in-place writes examined on today's tree (confirmed by reading): the rule must keep seeing at least these
# entry points the property's own rules run abstractly on today's tree (confirmed by a run): each one that still exists must keep
# being examined.  Private helpers are deliberately not listed: inlining or renaming one is not a defect.
RUN = {
    'C01': ['correlog.CORRELOGRAMPSD', 'periodogram.speriodogram'],
    'C09': ['correlation.CORRELATION', 'correlation.xcorr', 'linalg.corrmtx'],
    'C10': ['cholesky.CHOLESKY', 'levinson.LEVINSON', 'toeplitz.HERMTOEP', 'toeplitz.TOEPLITZ'],
    'C11': ['levinson.rlevinson', 'linear_prediction.ac2poly', 'linear_prediction.ac2rc', 'linear_prediction.is2rc',
            'linear_prediction.lar2rc', 'linear_prediction.poly2ac', 'linear_prediction.poly2rc', 'linear_prediction.rc2ac',
            'linear_prediction.rc2is', 'linear_prediction.rc2lar', 'linear_prediction.rc2poly'],
    'C12': ['correlation.CORRELATION', 'levinson.LEVINSON', 'lpc.lpc', 'yulewalker.aryule'],
    'C13': ['burg.arburg'],
    'C14': ['covar.arcovar', 'covar.arcovar_marple', 'linalg.corrmtx', 'modcovar.modcovar', 'modcovar.modcovar_marple'],
    'C15': ['arma.arma_estimate', 'arma.ma'],
    'C16': ['burg.arburg', 'minvar.minvar'],
    'C17': ['eigenfre.eigen'],
    'C19': ['mtm.pmtm'],
}

RULE = 'no-input-mutation'
TEXT = ('no in-place write (element / slice store, augmented assignment on an array) in an anchored function reaches storage that '
        'may belong to an argument of the entry point: arguments are followed through views and zero-copy conversions '
        '(slicing, transpose, reshape, flips, .real, asarray / astype(copy=False) with a matching dtype, conj() of a real array)')


CACHES = ('lru_cache', 'cache', 'cached_property', 'memoize', 'memoized', 'Memoize')


def _property_modules(pid):
    """module names of the files the property is anchored in (read from the given properties.jsonl)"""
    import json
    import os
    path = os.path.join(os.path.dirname(os.path.dirname(os.path.abspath(__file__))), 'properties.jsonl')
    mods = []
    try:
        for line in open(path):
            p = json.loads(line)
            if p.get('id') == pid:
                for f in p.get('anchors', {}).get('files', []):
                    if f.startswith('src/spectrum/') and f.endswith('.py'):
                        mods.append(os.path.basename(f)[:-3])
    except (OSError, ValueError):
        pass
    return mods


def _scalar_only_return(fnode):
    """every return is a literal / parameter-free constant expression (so caching cannot share a mutable array)"""
    for n in ast.walk(fnode):
        if isinstance(n, ast.Return) and n.value is not None:
            for x in ast.walk(n.value):
                if isinstance(x, (ast.Call, ast.Name, ast.Subscript, ast.Attribute, ast.ListComp, ast.List)):
                    return False
    return True


def report_shared_results(prog, rep, pid):
    """`no-shared-result`: no memoised function in the anchored modules returns an object that every caller shares"""
    mods = [m for m in _property_modules(pid) if m in prog.modules]
    if not mods:
        return
    rep.rule('no-shared-result', 'no function of the anchored modules is wrapped in a result cache (functools.lru_cache / cache / '
             'a memoising decorator) unless it returns only literals: a cached array is the same storage for every caller, so one '
             "caller's in-place use changes what the next request for the same arguments returns")
    n = 0
    for m in mods:
        mod = prog.modules[m]
        defs = [(None, f) for f in mod.funcs.values()]
        for cname, cnode in mod.classes.items():
            defs += [(cname, f) for f in cnode.body if isinstance(f, ast.FunctionDef)]
        for cname, f in defs:
            n += 1
            for d in f.decorator_list:
                dd = d.func if isinstance(d, ast.Call) else d
                nm = dd.attr if isinstance(dd, ast.Attribute) else getattr(dd, 'id', '')
                if nm in CACHES and not _scalar_only_return(f):
                    rep.violation('no-shared-result', '%s.%s' % (m, (cname + '.' if cname else '') + f.name), '@' + normalise(d),
                                  'the result is cached and handed out again: a caller that modifies the returned array in place '
                                  '(w /= w.sum(), w *= x) changes what later calls with the same arguments return',
                                  'src/spectrum/%s.py:%s' % (m, f.lineno))
    # state that survives a call: a mutable default argument, a module-level container / array, or a `global`, written inside a function
    MUT = ('append', 'extend', 'insert', 'update', 'setdefault', 'pop', 'clear', 'remove', 'fill', 'resize', 'sort', 'put', 'itemset')

    def written_names(fn):
        out = {}
        for x in ast.walk(fn):
            tgt = None
            if isinstance(x, (ast.Assign, ast.AugAssign, ast.AnnAssign)):
                ts_ = x.targets if isinstance(x, ast.Assign) else [x.target]
                for t_ in ts_:
                    while isinstance(t_, ast.Subscript):
                        t_ = t_.value
                        tgt = t_
                    if isinstance(x, ast.AugAssign) and isinstance(x.target, ast.Name):
                        tgt = x.target
                    if isinstance(tgt, ast.Name):
                        out.setdefault(tgt.id, x)
            elif isinstance(x, ast.Call) and isinstance(x.func, ast.Attribute) and x.func.attr in MUT and isinstance(x.func.value, ast.Name):
                out.setdefault(x.func.value.id, x)
        return out
    for m in mods:
        mod = prog.modules[m]
        tree_body = getattr(mod, 'tree', None)
        mutable_globals = set()
        if tree_body is not None:
            for st_ in tree_body.body:
                if isinstance(st_, ast.Assign) and isinstance(st_.value, (ast.List, ast.Dict, ast.Set, ast.Call, ast.ListComp, ast.DictComp)):
                    for t_ in st_.targets:
                        if isinstance(t_, ast.Name) and t_.id != '__all__':
                            mutable_globals.add(t_.id)
        defs = [(None, f) for f in mod.funcs.values()]
        for cname, cnode in mod.classes.items():
            defs += [(cname, f) for f in cnode.body if isinstance(f, ast.FunctionDef)]
        for cname, f in defs:
            w = written_names(f)
            a_ = f.args
            pos = a_.args[len(a_.args) - len(a_.defaults):] if a_.defaults else []
            pairs = list(zip(pos, a_.defaults)) + [(k_, d_) for k_, d_ in zip(a_.kwonlyargs, a_.kw_defaults) if d_ is not None]
            locals_ = {x.arg for x in a_.args + a_.kwonlyargs} | {t.id for x in ast.walk(f) if isinstance(x, ast.Assign) for t in x.targets
                                                                   if isinstance(t, ast.Name)}
            globs = {g for x in ast.walk(f) if isinstance(x, ast.Global) for g in x.names}
            fq = '%s.%s' % (m, (cname + '.' if cname else '') + f.name)
            for par, dflt in pairs:
                if isinstance(dflt, (ast.List, ast.Dict, ast.Set, ast.Call, ast.ListComp)) and par.arg in w and \
                        not any(isinstance(x, ast.Assign) and any(isinstance(t, ast.Name) and t.id == par.arg for t in x.targets) for x in ast.walk(f)):
                    rep.violation('no-shared-result', fq, 'default %s=%s' % (par.arg, normalise(dflt)[:30]), 'the mutable default of `%s` is '
                                  'created once and written inside the function (%s): what one call stores is seen by the next call that '
                                  'relies on the default' % (par.arg, normalise(w[par.arg])[:50]), 'src/spectrum/%s.py:%s' % (m, f.lineno))
            for g in sorted((set(w) & ((mutable_globals - locals_) | globs))):
                rep.violation('no-shared-result', fq, 'module-level %s' % g, 'the function writes into module-level state (%s): the result of a '
                              'call depends on the calls made before it' % normalise(w[g])[:50], 'src/spectrum/%s.py:%s' % (m, f.lineno))
    if not any(o.rule == 'no-shared-result' and o.status == 'VIOLATION' for o in rep.obls):
        rep.proved('no-shared-result', ','.join(mods), 'function definitions', '%d definitions examined: none returns a cached mutable object, '
                   'writes a mutable default or module-level state' % n)
    rep.floor('definitions examined for result caching', n, 1)


def report_transform_inputs(prog, rep, pid, interps):
    """`clean-transform-input`: no transform reads a work buffer that still holds part of an earlier transform next to freshly
    stored values (a buffer re-bound to its own FFT and only partly rewritten: the zero padding is gone after the first use)"""
    n = 0
    bad = {}
    uninit = {}
    for itp in interps:
        for e in itp.events:
            if e[0] == 'fft' and isinstance(e[6], type(None)) is False and getattr(e[6], 'cover', None) is not None:
                n += 1
            elif e[0] == 'fft-stale-input':
                bad.setdefault((e[3], normalise(e[1])), (e[1], e[2]))
            elif e[0] == 'fft-uninit-input':
                uninit.setdefault((e[2], normalise(e[1])), e[1])
    if not n and not bad and not uninit:
        return
    rep.rule('clean-transform-input', 'for every transform whose input buffer is tracked piece by piece (allocated by zeros, written by '
             'slice stores, possibly re-bound to a transform output inside a loop): in no state reaching the call does the buffer hold '
             'an earlier transform output in one piece and other values in another')
    for (fn, text), (node, desc) in sorted(bad.items(), key=lambda kv: kv[0]):
        f = _func(prog, fn)
        rep.violation('clean-transform-input', fn, text, 'on a later pass of the loop the transformed buffer is %s: part of it is the output '
                      'of the previous transform (the name was re-bound to its own FFT and only partly rewritten), so the sequence that '
                      'is transformed is not the zero-padded vector' % desc, loc(f.mod, node) if f is not None else '')
    for (fn, text), node in sorted(uninit.items(), key=lambda kv: kv[0]):
        f = _func(prog, fn)
        rep.violation('clean-transform-input', fn, text, 'the transformed buffer was allocated with numpy.empty and is only partly written '
                      'before the transform: the remaining entries are whatever the allocator returned (zeros in a fresh process, an '
                      'earlier result after a few calls), not the zero padding', loc(f.mod, node) if f is not None else '')
    if not bad and not uninit:
        rep.proved('clean-transform-input', pid, 'transform inputs', '%d transform calls on tracked buffers: none mixes an earlier '
                   'spectrum with new values' % n)


# configuration parameters of the estimators (data arguments and orders are routinely transformed on the way down and are
# covered by the wiring rules of the individual properties)
FORWARD_NAMES = frozenset(['sampling', 'NFFT', 'scale_by_freq', 'detrend', 'window', 'lag', 'method', 'criteria', 'threshold', 'NSIG',
                           'NW', 'k', 'e', 'v', 'sides', 'allow_singularity', 'norm', 'correlation_method', 'verbose', 'show'])

# same-named parameters that are deliberately NOT handed on unchanged (confirmed by reading, one reason each)
FORWARD_EXCEPTIONS = {
    ('arma.arma_estimate', 'ma', 'X'): 'the MA stage runs on the AR-filtered residual Y, not on the data',
    ('correlog.CORRELOGRAMPSD', 'Window', 'norm'): "CORRELOGRAMPSD's norm is the correlation normalisation, Window's is the window's own",
    ('lpc.lpc', 'nextpow2', 'x'): 'nextpow2 receives the number of lags, a size derived from x',
    ('minvar.minvar', 'arburg', 'order'): 'a dimension m uses the Burg model of order m-1',
    ('mtm.pmtm', 'nextpow2', 'x'): 'nextpow2 receives the data length',
    ('mtm._crosscov', '_autocov', 'x'): 'the normaliser needs the autocovariance of each argument in turn',
    ('periodogram.WelchPeriodogram', 'Spectrum', 'NFFT'): 'matplotlib.psd computes the estimate; the object only carries it',
    ('periodogram.WelchPeriodogram', 'Spectrum', 'sampling'): 'matplotlib.psd computes the estimate; the object only carries it',
    ('tools._twosided_zerolag', 'twosided', 'data'): 'the zero lag is inserted first',
    ('yulewalker.aryule', 'LEVINSON', 'order'): 'the autocorrelation is cut to order+1 lags, so the default order is the requested one',
}


def report_forwarding(prog, rep, pid):
    """`forwarding-by-name`: a function that calls another function of the package (or its base-class constructor) which has a
    parameter of the same name hands its own value on unchanged.  On the pinned tree 132 of 142 such (caller, callee, parameter)
    triples do (all names); the rule is armed for the configuration parameters FORWARD_NAMES, whose deliberate exceptions are listed.  A dropped keyword silently selects the callee default."""
    mods = [m for m in _property_modules(pid) if m in prog.modules]
    if not mods:
        return
    index = {}
    for mn, m in prog.modules.items():
        for fn, node in m.funcs.items():
            index.setdefault(fn, []).append(node)
        for cn, cnode in m.classes.items():
            for b in cnode.body:
                if isinstance(b, ast.FunctionDef) and b.name == '__init__':
                    index.setdefault(cn, []).append(b)

    def params(fn):
        a = [x.arg for x in fn.args.args] + [x.arg for x in fn.args.kwonlyargs]
        return a[1:] if a and a[0] == 'self' else a
    n = 0
    bad = 0
    for mn in mods:
        m = prog.modules[mn]
        defs = [(mn + '.' + fn, node, None) for fn, node in m.funcs.items()]
        for cn, cnode in m.classes.items():
            defs += [(mn + '.' + cn + '.' + b.name, b, cnode) for b in cnode.body if isinstance(b, ast.FunctionDef)]
        for q, f, cnode in defs:
            pf = params(f)
            # local aliases  v = p  (single assignment of a plain parameter name) and re-bindings of a parameter
            assigned = {}
            for a_ in ast.walk(f):
                if isinstance(a_, ast.Assign) and len(a_.targets) == 1 and isinstance(a_.targets[0], ast.Name):
                    assigned.setdefault(a_.targets[0].id, []).append(a_.value)
                elif isinstance(a_, (ast.AugAssign, ast.For)) and isinstance(getattr(a_, 'target', None), ast.Name):
                    assigned.setdefault(a_.target.id, []).append(None)
            for c in ast.walk(f):
                if not isinstance(c, ast.Call):
                    continue
                gname = None
                if isinstance(c.func, ast.Name):
                    gname = c.func.id
                elif isinstance(c.func, ast.Attribute) and c.func.attr == '__init__' and cnode is not None and cnode.bases:
                    b0 = cnode.bases[0]
                    gname = b0.id if isinstance(b0, ast.Name) else getattr(b0, 'attr', None)
                elif isinstance(c.func, ast.Attribute) and isinstance(c.func.value, ast.Name) and c.func.value.id in prog.modules:
                    gname = c.func.attr
                targets = index.get(gname, []) if gname else []
                if len(targets) != 1 or targets[0] is f:
                    continue
                pg = params(targets[0])
                passed = {}
                star = False
                for i, a_ in enumerate(c.args):
                    if isinstance(a_, ast.Starred):
                        star = True
                        break
                    if i < len(pg):
                        passed[pg[i]] = a_
                if star or any(k.arg is None for k in c.keywords):
                    continue            # *args / **kwargs: what is handed on is not visible in the call
                for k in c.keywords:
                    passed[k.arg] = k.value
                if gname.startswith('_'):
                    continue            # private helpers: their parameter names are not an interface
                for p_ in sorted(set(pf) & set(pg) & FORWARD_NAMES):
                    if (q, gname, p_) in FORWARD_EXCEPTIONS:
                        continue
                    if p_ in assigned:
                        continue        # the caller computes its own value for this name before the call (normalised argument)
                    n += 1
                    v = passed.get(p_)
                    ok = isinstance(v, ast.Name) and (v.id == p_ or (len(assigned.get(v.id, [])) == 1 and isinstance(assigned[v.id][0], ast.Name)
                                                                      and assigned[v.id][0].id == p_))
                    if not ok:
                        bad += 1
                        what = 'does not pass it (the default of %s applies)' % gname if v is None else 'passes `%s` instead' % normalise(v)[:40]
                        rep.violation('forwarding-by-name', q, '%s(.. %s ..)' % (gname, p_), '%s has a parameter `%s` of its own and calls %s, '
                                      'which has one too, but %s: the value the caller of %s gave is silently ignored'
                                      % (q.split('.')[-1], p_, gname, what, q.split('.')[-1]), 'src/spectrum/%s.py:%d' % (mn, c.lineno))
    rep.rule('forwarding-by-name', 'for every call from a function of the anchored modules to a package function / base constructor that '
             'shares a parameter name: the caller\'s own value is handed on unchanged (configuration parameters only; confirmed exceptions are listed in the checker)')
    if n and not bad:
        rep.proved('forwarding-by-name', ','.join(mods), 'same-named parameters', '%d (caller, callee, parameter) triples: all handed on unchanged' % n)


def report_identity_literals(prog, rep, pid):
    """`no-identity-literal`: a configuration value (norm, method, criteria, sides, a count) is compared with a literal by value.
    `x is 'coeff'` is true only for the interned literal object: an equal string that was parsed, lower-cased or read from a
    file selects another branch (CPython itself warns about the construct)."""
    mods = [m for m in _property_modules(pid) if m in prog.modules]
    if not mods:
        return
    n = 0
    bad = 0
    for m in mods:
        tree = prog.modules[m].tree
        owner = {}
        for f in ast.walk(tree):
            if isinstance(f, (ast.FunctionDef, ast.AsyncFunctionDef)):
                for x in ast.walk(f):
                    owner.setdefault(id(x), f.name)
        for x in ast.walk(tree):
            if not isinstance(x, ast.Compare):
                continue
            n += 1
            left = x.left
            for op, right in zip(x.ops, x.comparators):
                if isinstance(op, (ast.Is, ast.IsNot)):
                    for side in (left, right):
                        if isinstance(side, ast.Constant) and isinstance(side.value, (str, bytes, int, float, complex)) \
                                and not isinstance(side.value, bool):
                            bad += 1
                            rep.violation('no-identity-literal', '%s.%s' % (m, owner.get(id(x), '<module>')), normalise(x)[:60],
                                          'identity comparison with the literal %r: an equal value that is not that very object (a string '
                                          'built at run time, a float, a large int) fails the test and silently takes another branch'
                                          % (side.value,), 'src/spectrum/%s.py:%d' % (m, x.lineno))
                left = right
    rep.rule('no-identity-literal', 'no `is` / `is not` against a str / bytes / number literal in the anchored modules')
    if not bad:
        rep.proved('no-identity-literal', ','.join(mods), 'comparisons', '%d comparisons examined: identity is used only with None / True / False' % n)


ITER_MAKERS = ('map', 'zip', 'filter', 'enumerate', 'reversed', 'iter', 'islice', 'chain', 'accumulate', 'product', 'starmap',
               'zip_longest', 'takewhile', 'dropwhile', 'compress', 'pairwise', 'count', 'cycle', 'repeat')
ITER_CONSUMERS = ('list', 'tuple', 'sum', 'max', 'min', 'sorted', 'set', 'frozenset', 'array', 'fromiter', 'any', 'all', 'deque',
                  'reduce', 'join', 'dict', 'extend')


def report_iterators(prog, rep, pid):
    """`single-pass-iterator`: a one-shot iterator (map / zip / enumerate / reversed / itertools.* / a generator expression) bound
    to a name is consumed once: a second loop over it, or a loop over it inside another loop that does not rebuild it, sees
    nothing and silently skips its body."""
    mods = [m for m in _property_modules(pid) if m in prog.modules]
    if not mods:
        return
    n = 0
    bad = 0

    def parents(root):
        par = {}
        for x in ast.walk(root):
            for fld, val in ast.iter_fields(x):
                kids = val if isinstance(val, list) else [val]
                for k in kids:
                    if isinstance(k, ast.AST):
                        par[id(k)] = (x, fld)
        return par
    for m in mods:
        mod = prog.modules[m]
        defs = [(fn, node) for fn, node in mod.funcs.items()]
        for cn, cnode in mod.classes.items():
            defs += [(cn + '.' + b.name, b) for b in cnode.body if isinstance(b, ast.FunctionDef)]
        for fq, f in defs:
            par = parents(f)
            makers = {}
            for x in ast.walk(f):
                if isinstance(x, ast.Assign) and len(x.targets) == 1 and isinstance(x.targets[0], ast.Name):
                    v = x.value
                    is_it = isinstance(v, ast.GeneratorExp)
                    if isinstance(v, ast.Call):
                        fn_ = v.func
                        nm = fn_.attr if isinstance(fn_, ast.Attribute) else getattr(fn_, 'id', None)
                        is_it = nm in ITER_MAKERS
                    makers.setdefault(x.targets[0].id, []).append((x, is_it))
            for name, assigns in makers.items():
                if len(assigns) != 1 or not assigns[0][1]:
                    continue          # re-bound names are not judged
                asg = assigns[0][0]
                n += 1
                sites = []
                for x in ast.walk(f):
                    if isinstance(x, ast.Name) and x.id == name and isinstance(x.ctx, ast.Load):
                        p_, fld = par.get(id(x), (None, None))
                        cons = False
                        if isinstance(p_, (ast.For, ast.comprehension)) and fld == 'iter':
                            cons = True
                        elif isinstance(p_, ast.Starred):
                            cons = True
                        elif isinstance(p_, ast.Call) and fld == 'args':
                            fn_ = p_.func
                            nm = fn_.attr if isinstance(fn_, ast.Attribute) else getattr(fn_, 'id', None)
                            cons = nm in ITER_CONSUMERS or nm in ITER_MAKERS
                        if cons:
                            sites.append(x)

                def chain_of(node):
                    out = []
                    cur = node
                    while id(cur) in par:
                        p_, fld = par[id(cur)]
                        out.append((p_, fld))
                        cur = p_
                    return out
                achain = {id(p_) for p_, _f in chain_of(asg)}
                problem = None
                for sx in sites:
                    # consumed inside a loop that does not contain the assignment: every pass after the first sees nothing
                    # (being the loop's own iterable is a single consumption; the body / the inner loops are not)
                    for p_, fld in chain_of(sx):
                        if isinstance(p_, (ast.For, ast.While)) and id(p_) not in achain and fld in ('body', 'orelse', 'test') \
                                or isinstance(p_, (ast.ListComp, ast.GeneratorExp, ast.SetComp, ast.DictComp)) and fld == 'elt' and id(p_) not in achain:
                            problem = (sx, 'it is consumed inside a loop that does not rebuild it: only the first pass of that loop sees any item')
                            break
                    if problem:
                        break
                if not problem and len(sites) >= 2:
                    for i_ in range(len(sites)):
                        for j_ in range(i_ + 1, len(sites)):
                            ca, cb = chain_of(sites[i_]), chain_of(sites[j_])
                            arms_a = {id(p_): fld for p_, fld in ca if isinstance(p_, ast.If) and fld in ('body', 'orelse')}
                            arms_b = {id(p_): fld for p_, fld in cb if isinstance(p_, ast.If) and fld in ('body', 'orelse')}
                            exclusive = any(k in arms_b and arms_b[k] != v for k, v in arms_a.items())
                            if not exclusive:
                                problem = (sites[j_], 'it was already consumed at line %d: this second pass sees no item' % sites[i_].lineno)
                                break
                        if problem:
                            break
                if problem:
                    bad += 1
                    sx, why = problem
                    rep.violation('single-pass-iterator', '%s.%s' % (m, fq), '%s = %s' % (name, normalise(asg.value)[:50]),
                                  '`%s` is a one-shot iterator; %s, so the statements that depend on it are silently skipped'
                                  % (name, why), 'src/spectrum/%s.py:%d' % (m, sx.lineno))
    rep.rule('single-pass-iterator', 'a name bound once to map / zip / enumerate / reversed / itertools.* / a generator expression is consumed '
             'at most once, and not inside a loop that does not rebuild it')
    if not bad:
        rep.proved('single-pass-iterator', ','.join(mods), 'iterator-valued names', '%d names bound to one-shot iterators: each consumed once' % n)


SINGLE = frozenset(['f', 'F', 'f4', 'f2', 'c8', 'e', 'float32', 'complex64', 'single', 'csingle', 'half', 'float16', 'singlecomplex'])


def report_precision(prog, rep, pid):
    """`double-precision-buffers`: no array of the anchored modules is created in (or cast to) single / half precision: a float32 /
    complex64 work buffer silently rounds every value stored in it to ~1e-7 relative (a deep notch of an MA spectrum, a small
    reflection coefficient are then wrong in the leading digits), whatever the precision of the data."""
    mods = [m for m in _property_modules(pid) if m in prog.modules]
    if not mods:
        return
    n = 0
    bad = 0

    def single(e):
        if isinstance(e, ast.Constant) and isinstance(e.value, str):
            return e.value in SINGLE
        if isinstance(e, ast.Attribute):
            return e.attr in SINGLE
        if isinstance(e, ast.Name):
            return e.id in SINGLE
        return False
    for m in mods:
        tree = prog.modules[m].tree
        owner = {}
        for f in ast.walk(tree):
            if isinstance(f, (ast.FunctionDef, ast.AsyncFunctionDef)):
                for x in ast.walk(f):
                    owner.setdefault(id(x), f.name)
        for x in ast.walk(tree):
            if not isinstance(x, ast.Call):
                continue
            fn_ = x.func
            nm = fn_.attr if isinstance(fn_, ast.Attribute) else getattr(fn_, 'id', None)
            cands = [k.value for k in x.keywords if k.arg == 'dtype']
            if nm in ('zeros', 'ones', 'empty', 'full', 'array', 'asarray', 'zeros_like', 'empty_like', 'ones_like', 'arange', 'linspace') and len(x.args) >= 2:
                cands.append(x.args[-1])
            if nm == 'astype' and x.args:
                cands.append(x.args[0])
            if nm in SINGLE and len(nm) > 2 and x.args:
                cands.append(fn_)          # np.float32(x)
            if not cands:
                continue
            n += 1
            if any(single(c_) for c_ in cands):
                bad += 1
                rep.violation('double-precision-buffers', '%s.%s' % (m, owner.get(id(x), '<module>')), normalise(x)[:70],
                              'a single- (or half-) precision array on the path of the estimate: every value stored in it is rounded to '
                              '~7 significant digits, so results deviate from the double-precision definition by 1e-7 relative and by '
                              'much more where terms cancel', 'src/spectrum/%s.py:%d' % (m, x.lineno))
    rep.rule('double-precision-buffers', 'no array creation / cast with a float32 / complex64 / half dtype in the anchored modules')
    if not bad:
        rep.proved('double-precision-buffers', ','.join(mods), 'dtype arguments', '%d explicit dtypes: none is single or half precision' % n)


def report(prog, rep, pid, interps):
    report_shared_results(prog, rep, pid)
    report_precision(prog, rep, pid)
    report_iterators(prog, rep, pid)
    report_identity_literals(prog, rep, pid)
    report_transform_inputs(prog, rep, pid, interps)
    report_forwarding(prog, rep, pid)
    scope = SCOPE.get(pid)
    if not scope:
        return
    rep.rule(RULE, TEXT)
    entered, stores, bad, unk = {}, {}, {}, {}
    for itp in interps:
        for e in itp.events:
            if e[0] == 'alias-lost' and e[4] in scope:
                unk.setdefault(e[4], set()).add('%s applied to storage of %s' % (e[3], '/'.join(sorted(map(str, e[2])))))
        for q in set(itp.trace):
            if q in scope:
                entered[q] = entered.get(q, 0) + 1
        for e in itp.events:
            if e[0] in ('store', 'store-aug') and e[-1] in scope:
                stores.setdefault(e[-1], set()).add(normalise(e[1]))
            elif e[0] == 'inplace' and e[3] in scope:
                bad.setdefault((e[3], normalise(e[1])), (e[1], set()))[1].update(e[2])
    for (fn, text), (node, labels) in sorted(bad.items(), key=lambda kv: kv[0]):
        f = _func(prog, fn)
        rep.violation(RULE, fn, text, 'this statement writes in place into storage that may be the caller\'s %s: the argument '
                      'reaches it without a copy, so the call overwrites the caller\'s data and a later call on the same '
                      'record sees different samples' % ' / '.join(sorted(map(str, labels))),
                      loc(f.mod, node) if f is not None else '')
    total = 0
    for fn in scope:
        if fn not in entered:
            continue
        n = len(stores.get(fn, ()))
        total += n
        if not any(k[0] == fn for k in bad):
            f = _func(prog, fn)
            if fn in unk:
                rep.undecided(RULE, fn, 'in-place writes', 'constructs the alias analysis cannot follow: %s' % '; '.join(sorted(unk[fn]))[:300],
                              loc(f.mod, f.node) if f is not None else '')
                continue
            rep.proved(RULE, fn, 'in-place writes', '%d distinct in-place write statements examined in %d abstract runs: none reaches '
                       'an argument\'s storage' % (n, entered[fn]), loc(f.mod, f.node) if f is not None else '')
    # every anchored function the property's rules are known to run (and that still exists) must have been run
    expected = [fn for fn in RUN.get(pid, ()) if _func(prog, fn) is not None]
    rep.floor('anchored functions examined for input mutation', len([fn for fn in expected if fn in entered]), max(1, len(expected)))
    rep.extra['in_place_writes_examined'] = total      # informative only: the number of write statements is not an invariant of the code


def _func(prog, qname):
    try:
        parts = qname.split('.')
        if len(parts) == 2:
            return prog.func(parts[0], parts[1])
        cls = prog.cls(parts[0], parts[1])
        return cls.find_method(parts[2])
    except Exception:
        return None
