"""Abstract values of the interpreter (E2): affine size expressions, scaling dimensions (D1),
dtype/realness (D2 light), shapes (D3 lengths), dependence sets (D5)."""
from fractions import Fraction as F

import sympy as sp


# ----------------------------------------------------------------------------- TOP
class _Top:
    def __repr__(self):
        return 'TOP'


TOP = _Top()


# ----------------------------------------------------------------------------- affine integer expressions
class Aff:
    """c0 + sum c_i * sym_i with rational coefficients; symbols are integers >= SYM_MIN[sym] (default 2:
    'for sizes that are not tiny').  Only coefficient arithmetic is used (no solver)."""
    __slots__ = ('c', 't')
    SYM_MIN = {}

    def __init__(self, c=0, t=None):
        self.c = F(c)
        self.t = {k: F(v) for k, v in (t or {}).items() if v != 0}

    @staticmethod
    def sym(name):
        return Aff(0, {name: 1})

    def is_const(self):
        return not self.t

    def const(self):
        return self.c if not self.t else None

    def __add__(self, o):
        o = aff(o)
        if o is None:
            return None
        t = dict(self.t)
        for k, v in o.t.items():
            t[k] = t.get(k, 0) + v
        return Aff(self.c + o.c, t)

    __radd__ = __add__

    def __neg__(self):
        return Aff(-self.c, {k: -v for k, v in self.t.items()})

    def __sub__(self, o):
        o = aff(o)
        if o is None:
            return None
        return self + (-o)

    def __rsub__(self, o):
        return (-self) + o

    def scale(self, k):
        k = F(k)
        return Aff(self.c * k, {s: v * k for s, v in self.t.items()})

    def mul(self, o):
        o = aff(o)
        if o is None:
            return None
        if o.is_const():
            return self.scale(o.c)
        if self.is_const():
            return o.scale(self.c)
        return None

    def is_integral(self):
        """integral for every integer assignment of the symbols"""
        return self.c.denominator == 1 and all(v.denominator == 1 for v in self.t.values())

    def floor(self):
        """floor as an affine form when it is one (all symbol coefficients integral)"""
        if all(v.denominator == 1 for v in self.t.values()):
            return Aff(self.c.numerator // self.c.denominator, self.t)
        return None

    def ceil(self):
        if all(v.denominator == 1 for v in self.t.values()):
            return Aff(-((-self.c.numerator) // self.c.denominator), self.t)
        return None

    BOUNDS = {}     # loop symbols: sym -> (lo Aff inclusive, hi Aff exclusive)
    HALF = {}       # symbols standing for floor(a/2) of an integer form a of undetermined parity: name -> a
    FACTS = []      # path facts: affine forms known to be >= 0 inside the branch being interpreted

    def _bound(self, lower):
        """affine lower (upper) bound obtained by replacing bounded loop symbols by their extreme values"""
        e = self
        for _ in range(4):
            hit = [s for s in e.t if s in Aff.BOUNDS]
            if not hit:
                break
            m = {}
            for s_ in hit:
                lo, hi = Aff.BOUNDS[s_]
                c = e.t[s_]
                use_lo = (c > 0) == lower
                b = lo if use_lo else (hi - 1 if hi is not None else None)
                if b is None:
                    return None
                m[s_] = b
            e = e.subs(m)
        return e

    def _sign0(self):
        if not self.t:
            return (self.c > 0) - (self.c < 0)
        lo = self.c
        lo_ok = True
        hi = self.c
        hi_ok = True
        for s, v in self.t.items():
            m = F(Aff.SYM_MIN.get(s, 2))
            if v > 0:
                lo += v * m
                hi_ok = False
            else:
                hi += v * m
                lo_ok = False
        if lo_ok and lo > 0:
            return 1
        if hi_ok and hi < 0:
            return -1
        if lo_ok and hi_ok and lo == 0 and hi == 0:
            return 0
        return None

    def sign(self):
        """+1 / 0 / -1 when determined for all admissible symbol values, else None"""
        s0 = self._sign0()
        if s0 is not None:
            return s0
        if any(s in Aff.BOUNDS for s in self.t):
            lb = self._bound(True)
            if lb is not None and lb._lower_ge(1):
                return 1
            ub = self._bound(False)
            if ub is not None and (-ub)._lower_ge(1):
                return -1
        return None

    def _lower_ge(self, k):
        lo = self.c
        for s, v in self.t.items():
            if v < 0 or s in Aff.BOUNDS:
                return False
            lo += v * F(Aff.SYM_MIN.get(s, 2))
        return lo >= k

    def nonneg(self):
        for f_ in Aff.FACTS:
            # inside a branch whose test established f_ >= 0: self = f_ + (non-negative constant)
            if self.t == f_.t and self.c >= f_.c:
                return True
        e = self._bound(True) if any(s in Aff.BOUNDS for s in self.t) else self
        if e is None:
            return None
        lo = e.c
        for s, v in e.t.items():
            if v < 0 or s in Aff.BOUNDS:
                return None
            lo += v * F(Aff.SYM_MIN.get(s, 2))
        return True if lo >= 0 else None

    def __eq__(self, o):
        o = aff(o)
        return o is not None and self.c == o.c and self.t == o.t

    def __ne__(self, o):
        return not self.__eq__(o)

    def __hash__(self):
        return hash((self.c, tuple(sorted(self.t.items()))))

    def subs(self, m):
        """substitute symbols by Aff values"""
        r = Aff(self.c)
        for s, v in self.t.items():
            if s in m:
                r = r + aff(m[s]).scale(v)
            else:
                r = r + Aff(0, {s: v})
        return r

    def to_sympy(self):
        e = sp.Rational(self.c.numerator, self.c.denominator)
        for s, v in self.t.items():
            e += sp.Rational(v.numerator, v.denominator) * sp.Symbol(s, positive=True)
        return e

    def __repr__(self):
        parts = []
        for s, v in sorted(self.t.items()):
            if v == 1:
                parts.append(s)
            elif v == -1:
                parts.append('-' + s)
            else:
                parts.append('%s*%s' % (v, s))
        if self.c != 0 or not parts:
            parts.append(str(self.c))
        return '+'.join(parts).replace('+-', '-')


def aff(x):
    if x is None:
        return None
    if isinstance(x, Aff):
        return x
    if isinstance(x, bool):
        return None
    if isinstance(x, int):
        return Aff(x)
    if isinstance(x, F):
        return Aff(x)
    if isinstance(x, float) and x == int(x):
        return Aff(int(x))
    if isinstance(x, float):
        return Aff(F(x).limit_denominator(10 ** 6))
    return None


def aff_cmp(a, b):
    """sign of a-b when determined, else None"""
    a, b = aff(a), aff(b)
    if a is None or b is None:
        return None
    d = a - b
    return d.sign()


def aff_le(a, b):
    """a <= b for all admissible symbol values (True) / unknown (None)"""
    a, b = aff(a), aff(b)
    if a is None or b is None:
        return None
    s = (b - a).sign()
    if s is not None:
        return s >= 0
    return True if (b - a).nonneg() else None


def aff_min(a, b):
    if aff_le(a, b):
        return aff(a)
    if aff_le(b, a):
        return aff(b)
    return None


def aff_max(a, b):
    if aff_le(a, b):
        return aff(b)
    if aff_le(b, a):
        return aff(a)
    return None


# ----------------------------------------------------------------------------- NFFT as a number
NFFT_AFF = [None]      # the affine form of NFFT in the current context (2m, 2m+1 or the symbol NFFT)


def nfft_degree(a):
    """exponent of NFFT carried by the integer expression `a` when it is used as a number:
    0 if it does not mention NFFT's symbols, 1 if it is a constant multiple of NFFT, TOP otherwise"""
    n = NFFT_AFF[0]
    if a is None or n is None:
        return F(0)
    syms = set(n.t)
    if not (set(a.t) & syms):
        return F(0)
    # proportional?
    k = None
    for s_ in n.t:
        if s_ not in a.t:
            return TOP
        r = a.t[s_] / n.t[s_]
        if k is None:
            k = r
        elif k != r:
            return TOP
    if set(a.t) - syms:
        return TOP
    if a.c != n.c * k:
        return TOP
    return F(1)


def pure_nfft_nonhomogeneous(a):
    """`a` is a function of NFFT alone that is not proportional to it (e.g. NFFT/2+1)"""
    n = NFFT_AFF[0]
    if a is None or n is None:
        return False
    return bool(a.t) and set(a.t) <= set(n.t) and nfft_degree(a) is TOP


# ----------------------------------------------------------------------------- degrees (D1)
COMPS = ('s', 'g', 'hz', 'nfft', 'win', 'sy', 'gy')


def dnum(x):
    """degree value: Fraction, sympy expr, or TOP"""
    if x is TOP:
        return TOP
    if isinstance(x, (int, F)):
        return F(x)
    if isinstance(x, float):
        return F(x).limit_denominator(1000)
    return x


def _sym(x):
    return isinstance(x, sp.Basic)


def _tosym(x):
    if _sym(x):
        return x
    return sp.Rational(x.numerator, x.denominator)


def _fromsym(e):
    e = sp.cancel(sp.together(e))
    if e.is_Rational:
        return F(int(e.p), int(e.q))
    return e


def dadd(a, b):
    if a is TOP or b is TOP:
        return TOP
    if _sym(a) or _sym(b):
        return _fromsym(_tosym(a) + _tosym(b))
    return a + b


def dneg(a):
    if a is TOP:
        return TOP
    return -a


def dmul(a, k):
    """degree a times scalar k (Fraction or sympy)"""
    if a is TOP or k is TOP:
        return TOP
    if _sym(a) or _sym(k):
        return _fromsym(_tosym(a) * _tosym(k))
    return a * k


def deq(a, b):
    """True / False / None (unknown because TOP)"""
    if a is TOP or b is TOP:
        return None
    if _sym(a) or _sym(b):
        return sp.cancel(sp.together(_tosym(a) - _tosym(b))) == 0
    return a == b


def dzero(a):
    return deq(a, F(0))


def zero_deg():
    return {c: F(0) for c in COMPS}


def top_deg():
    return {c: TOP for c in COMPS}


# ----------------------------------------------------------------------------- values
class Val:
    taint = frozenset()

    def with_taint(self, t):
        if not t or t <= self.taint:
            return self
        c = self.clone()
        c.taint = self.taint | t
        return c

    def clone(self):
        import copy
        return copy.copy(self)


class Const(Val):
    """a known python constant (number, string, bool, None, or a literal container of constants)"""

    def __init__(self, v, taint=frozenset()):
        self.v = v
        self.taint = taint

    def __repr__(self):
        return 'Const(%r)' % (self.v,)


class IntV(Val):
    """integer with an (optional) affine symbolic value; nfft = exponent of the number NFFT it carries when it
    is used *as a number* (only NFFT itself has 1)."""

    def __init__(self, a=None, taint=frozenset(), nfft=F(0), name=None, sx=None):
        self.a = aff(a) if a is not None else None
        self.taint = taint
        self.nfft = nfft
        self.name = name
        self.sx = sx            # exact value as a sympy expression when it is not affine (products of sizes)

    def __repr__(self):
        return 'Int(%s)' % (self.a if self.a is not None else (self.name or '?'))


class BoolV(Val):
    def __init__(self, variant=False, taint=frozenset(), why=''):
        self.variant = variant
        self.taint = taint
        self.why = why

    def __repr__(self):
        return 'Bool(variant)' if self.variant else 'Bool'


class StrV(Val):
    """unknown string (e.g. a symbolic window name)"""

    def __init__(self, name='str', taint=frozenset(), choices=None):
        self.name = name
        self.taint = taint
        self.choices = choices

    def __repr__(self):
        return 'Str(%s)' % self.name


class Num(Val):
    _uid = 0

    """float/complex scalar or ndarray.
    deg:   D1 exponents per component (Fraction | sympy | TOP)
    log:   None, or dict comp -> coefficient for an additive ("log") type: the value shifts by
           sum_c log[c] * log(scale_c) under the scalings
    zero:  the polymorphic zero (homogeneous of every degree)
    shape: tuple of Aff|None, () for a scalar, None when even the rank is unknown
    cplx:  dtype is complex (True) / real (False) / unknown (None)
    rv:    value is real (imaginary part identically zero) even if dtype is complex: True/None
    nonneg: value known >= 0
    """

    def __init__(self, deg=None, shape=(), cplx=None, zero=False, log=None, taint=frozenset(), rv=None,
                 nonneg=False, role=None, conj=None):
        self.deg = deg if deg is not None else zero_deg()
        self.shape = shape
        self.cplx = cplx
        self.zero = zero
        self.log = log
        self.taint = taint
        self.rv = rv if rv is not None else (True if cplx is False else None)
        self.nonneg = nonneg
        self.role = role        # free tag used by rules (e.g. 'tapers', 'eigenvalues')
        self.conj = conj        # D2 conjugation class: 'I' invariant, 'E' equivariant, 'M' mirrored, TOP/None unknown
        self.ex = None          # exact (rational-affine) value of a scalar when known
        self.sx = None          # exact value as a sympy expression (products/quotients of sizes)
        self.seg = None         # D3 index map (list of segmap.Seg) when the array is a re-arrangement
        self.segax = 0          # axis the index map describes (arrays of rank > 1)
        self.mirror = False     # the vector is the complex conjugate of a spectrum-bearing vector (rows of Vh)
        self.amap = None        # 2-D data matrices: list of blocks (r0, r1, k0, k1, ai, ak, c, src, conj): entry (i,k) of rows
                                # r0..r1 holds [conj] src[ai*i + ak*k + c]; 'bad' when the construction is inconsistent
        self.col0 = None        # for a column slice M[:, a:] / M[:, a] of a matrix: the first column index a
        self.src_uid = None     # uid of the matrix a column slice was taken from
        self.neg = False        # the array is the negation of the array it was derived from (unary minus)
        self.tr = False         # matrix is the transpose of the matrix it was derived from (toggled by transpose)
        self.base_uid = None    # uid of the matrix this one was derived from by transpose / conj
        self.q = None           # D4 modulation charge (see charge.py); only maintained when the interpreter runs with d4=True
        self.view_of = frozenset()   # may share memory with these caller-owned arrays (slices, asarray, transpose)
        self.mid = None         # D8 memory identity: arrays with the same mid share storage
        self.whole = True       # ... and hold the same elements in the same order (same object / zero-copy identity), not a partial view
        self.grid = None        # integer index grid: value at (i, k) = ai*i + ak*k + c, stored as (ai, ak, c); 1-D vectors use ak = 0
        self.idxseg = None      # 1-D integer index vector as pieces (n, first value, step +-1): arange and concatenations of aranges
        self.fsf = None         # exact value as a multiple of the sampling rate: value = fsf * sampling (sympy expression in the sizes)
        self.cover = None       # 1-D work buffers: what each piece holds (zeros / stored values / an earlier transform), see cover.py
        self.c64 = False        # complex data held in single precision (complex64): `x.dtype == complex` is False for it
        self.uninit = False     # allocated by numpy.empty and not yet provably overwritten everywhere
        self.fgrid = None       # 1-D frequency grid: element i = (a + b*i) * sampling, stored as sympy (a, b)
        self.intdt = False      # the value may be held in the INTEGER dtype of integer-typed input data (products can overflow)
        self.rowview = None     # this vector is the row view M[e] of a named local matrix: (name, index AST, {name: id(value)} of the index operands)
        self.conj_of = None     # uid of the array this one is the complex conjugate of
        self.fill = None        # constant a fresh buffer was filled with (zeros / ones / full), until it is written
        self.idx = False        # an integer index vector (arange and its integer shifts): value = index - org
        self.rowof = None       # a row M[e] of a matrix with a block map: (blocks, e)
        self.clob = None        # the storage was overwritten through another name: description of that write
        self.org = None         # index at which the array's natural origin sits (lag 0 of a correlation, zero of an arange)
        self.sz = sp.Integer(1)  # normalisation signature: product of explicit size factors applied so far (None = mixed)
        Num._uid += 1
        self.uid = Num._uid     # identity of the abstract value (forwarding / exposure rules)

    def with_taint(self, t):
        if not t or t <= self.taint:
            return self
        c = self.copy(seg=self.seg, segax=self.segax)
        c.taint = self.taint | t
        c.uid = self.uid        # the same value, only its dependence set grew
        c.view_of, c.mid, c.whole, c.clob = self.view_of, self.mid, self.whole, self.clob
        c.rowview, c.rowof, c.grid, c.idx, c.conj_of = self.rowview, self.rowof, self.grid, self.idx, self.conj_of
        c.intdt = self.intdt
        c.fsf = self.fsf
        c.fgrid = self.fgrid
        c.uninit = self.uninit
        c.c64 = self.c64
        c.cover = self.cover
        c.idxseg = self.idxseg
        return c

    def copy(self, **kw):
        n = Num(dict(self.deg), self.shape, self.cplx, self.zero, dict(self.log) if self.log else self.log,
                self.taint, self.rv, self.nonneg, self.role, self.conj)
        n.ex = self.ex
        n.sx = self.sx
        n.seg = None            # index maps never survive an implicit copy: each operation sets its own
        n.segax = 0
        n.mirror = self.mirror
        n.sz = self.sz
        n.org = self.org
        n.q = self.q
        n.tr = self.tr
        n.neg = self.neg
        n.col0 = self.col0
        n.amap = self.amap
        n.src_uid = self.src_uid
        n.base_uid = self.base_uid if self.base_uid is not None else self.uid
        for k, v in kw.items():
            setattr(n, k, v)
        n.c64 = self.c64
        return n

    clone = copy

    @property
    def is_array(self):
        return self.shape is None or len(self.shape) > 0

    @property
    def ndim(self):
        return None if self.shape is None else len(self.shape)

    def __repr__(self):
        if self.zero:
            core = 'Zero'
        else:
            d = ','.join('%s=%s' % (c, self.deg[c]) for c in COMPS if not (self.deg[c] is not TOP and deq(self.deg[c], 0)))
            core = ('L%s' % ({k: v for k, v in self.log.items()},) if self.log is not None else '') + '(%s)' % d
        sh = '' if self.shape == () else ('[?]' if self.shape is None else '[%s]' % ','.join(str(x) for x in self.shape))
        return 'Num%s%s%s' % (core, sh, {True: 'c', False: 'r', None: ''}[self.cplx])


class Tup(Val):
    def __init__(self, items, taint=frozenset(), mutable=False):
        self.items = list(items)
        self.taint = taint
        self.mutable = mutable

    def __repr__(self):
        return ('List' if self.mutable else 'Tup') + repr(self.items)


class Ref(Val):
    """reference to a heap object (instance of a repo class, or a mutable list)"""

    def __init__(self, oid, cls=None):
        self.oid = oid
        self.cls = cls

    def __repr__(self):
        return 'Ref(%s#%d)' % (self.cls.name if self.cls is not None else 'list', self.oid)


class FuncV(Val):
    def __init__(self, sym, closure=None):
        self.sym = sym
        self.closure = closure

    def __repr__(self):
        return repr(self.sym)


class BoundMethod(Val):
    def __init__(self, func, ref):
        self.func = func
        self.ref = ref


class ClsV(Val):
    def __init__(self, cls):
        self.cls = cls

    def __repr__(self):
        return 'Cls(%s)' % self.cls.name


class ModV(Val):
    def __init__(self, sym):
        self.sym = sym

    def __repr__(self):
        return repr(self.sym)


class ExtV(Val):
    """external callable / object by dotted name"""

    def __init__(self, dotted, bound=None):
        self.dotted = dotted
        self.bound = bound      # receiver value for bound methods of abstract values (x.conjugate)

    @property
    def base(self):
        return self.dotted.split('.')[-1]

    def __repr__(self):
        return 'Ext(%s)' % self.dotted


class SliceV(Val):
    def __init__(self, lo, hi, step):
        self.lo, self.hi, self.step = lo, hi, step


class Opaque(Val):
    """a value the analysis does not look into (logging handles, exceptions, window objects ...)"""

    def __init__(self, what, taint=frozenset()):
        self.what = what
        self.taint = taint

    def __repr__(self):
        return 'Opaque(%s)' % self.what


class TopV(Val):
    def __init__(self, why='', taint=frozenset()):
        self.why = why
        self.taint = taint

    def __repr__(self):
        return 'TOPV(%s)' % self.why


def taint_of(v):
    if isinstance(v, Tup):
        t = v.taint
        for i in v.items:
            t = t | taint_of(i)
        return t
    return getattr(v, 'taint', frozenset()) or frozenset()


# ----------------------------------------------------------------------------- numeric views
def is_numlike(v):
    if isinstance(v, (Num, IntV, BoolV)):
        return True
    return isinstance(v, Const) and isinstance(v.v, (int, float, complex)) and not isinstance(v.v, bool) or \
        (isinstance(v, Const) and isinstance(v.v, bool))


def tonum(v):
    """view a value as Num (or None)"""
    if isinstance(v, Num):
        return v
    if isinstance(v, IntV):
        d = zero_deg()
        d['nfft'] = nfft_degree(v.a) if v.a is not None else F(0)
        n = Num(d, (), False, taint=v.taint, nonneg=bool(v.a is not None and v.a.nonneg()))
        n.ex = v.a
        n.sx = v.sx
        n.q = Aff(0)
        if v.a is not None and not v.a.is_const():
            n.sz = v.a.to_sympy()
        elif v.a is None and v.sx is not None:
            n.sz = v.sx
        return n
    if isinstance(v, BoolV):
        n = Num(zero_deg(), (), False, taint=v.taint)
        n.q = Aff(0)
        return n
    if isinstance(v, Const):
        if isinstance(v.v, bool):
            return Num(zero_deg(), (), False, taint=v.taint)
        if isinstance(v.v, (int, float)):
            n = Num(zero_deg(), (), False, zero=(v.v == 0), taint=v.taint, nonneg=(v.v >= 0))
            n.ex = aff(v.v)
            n.q = 'any' if v.v == 0 else Aff(0)
            return n
        if isinstance(v.v, complex):
            n = Num(zero_deg(), (), True, zero=(v.v == 0), taint=v.taint, rv=(v.v.imag == 0))
            n.q = 'any' if v.v == 0 else Aff(0)
            return n
        if isinstance(v.v, (list, tuple)) and all(isinstance(x, (int, float, complex)) and not isinstance(x, bool) for x in v.v):
            return Num(zero_deg(), (Aff(len(v.v)),), any(isinstance(x, complex) for x in v.v),
                       zero=all(x == 0 for x in v.v) and len(v.v) > 0, taint=v.taint)
    if isinstance(v, Tup):
        # list/tuple of numbers used as an array
        r = None
        for it in v.items:
            n = tonum(it)
            if n is None:
                return None
            r = n if r is None else num_join(r, n)
        if r is None:
            return Num(zero_deg(), (Aff(0),), False, taint=v.taint)
        sh = None if r.shape is None else (Aff(len(v.items)),) + tuple(r.shape)
        return r.copy(shape=sh, taint=r.taint | v.taint)
    return None


def sym_of(v):
    """symbolic (sympy) value of a number used as a multiplier of an additive type; None if unknown"""
    if isinstance(v, IntV):
        return v.a.to_sympy() if v.a is not None else v.sx
    if isinstance(v, Const) and isinstance(v.v, (int, float)) and not isinstance(v.v, bool):
        return sp.nsimplify(v.v, rational=True)
    if isinstance(v, Num) and v.ex is not None:
        return v.ex.to_sympy()
    if isinstance(v, Num) and v.sx is not None:
        return v.sx
    return None


def num_join(a, b):
    """silent join of two Nums (different known types -> TOP, no report)"""
    if a.zero and b.zero:
        r = a.copy()
    elif a.zero:
        r = b.copy()
    elif b.zero:
        r = a.copy()
    else:
        r = Num()
        if (a.log is None) != (b.log is None):
            r.deg = top_deg()
            r.log = None
        elif a.log is not None:
            r.log = {}
            for c in COMPS:
                x, y = a.log.get(c, F(0)), b.log.get(c, F(0))
                r.log[c] = x if deq(x, y) else TOP
            r.deg = zero_deg()
        else:
            for c in COMPS:
                x, y = a.deg[c], b.deg[c]
                r.deg[c] = x if deq(x, y) else TOP
        r.nonneg = a.nonneg and b.nonneg
        r.role = a.role if a.role == b.role else None
        r.conj = a.conj if a.conj == b.conj else None
    r.taint = a.taint | b.taint
    r.cplx = a.cplx if a.cplx == b.cplx else (True if (a.cplx or b.cplx) and (a.zero or b.zero) and False else None)
    if a.cplx is not None and b.cplx is not None and a.cplx != b.cplx:
        r.cplx = None
    if a.zero != b.zero and not a.is_array and not b.is_array:
        # a scalar accumulator: the literal 0 it starts from has no dtype of its own
        r.cplx = b.cplx if a.zero else a.cplx
    r.rv = True if (a.rv and b.rv) else None
    r.shape = shape_join(a.shape, b.shape)
    r.zero = a.zero and b.zero
    r.ex = a.ex if (a.ex is not None and b.ex is not None and a.ex == b.ex) else None
    r.mirror = a.mirror if (b.zero or a.mirror == b.mirror) else (b.mirror if a.zero else False)
    r.sz = sz_join(a, b)
    from . import cover as _cv
    r.cover = _cv.join(a.cover, b.cover)
    r.uninit = a.uninit or b.uninit
    if a.fsf is not None and b.fsf is not None and a.fsf == b.fsf:
        r.fsf = a.fsf
    r.view_of = a.view_of | b.view_of
    r.mid = a.mid if a.mid == b.mid else None
    r.whole = a.whole and b.whole
    r.clob = a.clob or b.clob
    if a.rowview is not None and b.rowview is not None and a.rowview[0] == b.rowview[0] and a.rowview[1] is b.rowview[1] \
            and a.rowview[2] == b.rowview[2]:
        r.rowview = a.rowview
    if a.amap == 'bad' or b.amap == 'bad':
        r.amap = 'bad'
    elif a.amap or b.amap:
        blocks = []
        for bl in list(a.amap or []) + list(b.amap or []):
            if repr(bl) not in [repr(x) for x in blocks]:
                blocks.append(bl)
        r.amap = blocks
    if a.q is None and b.q is None:
        r.q = None
    else:
        from .charge import q_join
        r.q = q_join(a.q, b.q)
    if a.seg is not None or b.seg is not None:
        from . import segmap
        if a.zero and a.seg is None:
            r.seg, r.segax = b.seg, b.segax
        elif b.zero and b.seg is None:
            r.seg, r.segax = a.seg, a.segax
        elif a.seg is not None and b.seg is not None and a.segax == b.segax and segmap.same(a.seg, b.seg):
            r.seg, r.segax = a.seg, a.segax
    return r


def shape_join(s1, s2):
    if s1 is None or s2 is None:
        return None
    if len(s1) != len(s2):
        return None
    out = []
    for x, y in zip(s1, s2):
        out.append(x if (x is not None and y is not None and x == y) else None)
    return tuple(out)


def broadcast(s1, s2):
    if s1 is None or s2 is None:
        return None
    if len(s1) < len(s2):
        s1, s2 = s2, s1
    pad = (Aff(1),) * (len(s1) - len(s2)) + tuple(s2)
    out = []
    for x, y in zip(s1, pad):
        if x is None or y is None:
            out.append(x if (y is not None and y == Aff(1)) else (y if (x is not None and x == Aff(1)) else None))
        elif x == Aff(1):
            out.append(y)
        elif y == Aff(1):
            out.append(x)
        elif x == y:
            out.append(x)
        else:
            out.append(None)     # mismatch is numpy's business, not ours
    return tuple(out)


class NamedTupleV(Val):
    """the class made by collections.namedtuple(name, fields): calling it builds a tuple whose items also answer to the field names"""

    def __init__(self, name, fields):
        self.name = name
        self.fields = list(fields)
        self.taint = frozenset()

    def __repr__(self):
        return 'namedtuple(%s)' % self.name


class PartialV(Val):
    """functools.partial(func, *args, **kwargs)"""

    def __init__(self, func, args, kwargs):
        self.func = func
        self.args = list(args)
        self.kwargs = dict(kwargs)
        self.taint = frozenset()

    def __repr__(self):
        return 'partial(%r)' % (self.func,)


class SeqV(Val):
    """homogeneous python sequence of unknown/symbolic length (a list grown in a loop)"""

    def __init__(self, elem=None, n=None, taint=frozenset()):
        self.elem = elem
        self.n = n
        self.taint = taint
        self.qarr = None        # D4: charges of the items by position (same forms as an array: lin / partial), when known

    def __repr__(self):
        return 'Seq(%r x %s)' % (self.elem, self.n)


class HObj:
    """heap object: instance of a repo class"""
    __slots__ = ('cls', 'f')

    def __init__(self, cls, f=None):
        self.cls = cls
        self.f = f if f is not None else {}

    def copy(self):
        return HObj(self.cls, dict(self.f))


def sz_join(a, b):
    if a.zero:
        return b.sz
    if b.zero:
        return a.sz
    if a.sz is None or b.sz is None:
        return None
    if a.sz is b.sz:
        return a.sz
    try:
        if sp.cancel(sp.together(a.sz - b.sz)) == 0:
            return a.sz
        # one side seen in a peeled (concrete) iteration, the other with the loop symbol: keep the general form when the
        # concrete one is its instance at the first or second value of the loop variable
        for gen, inst in ((a.sz, b.sz), (b.sz, a.sz)):
            for s in gen.free_symbols:
                bd = Aff.BOUNDS.get(s.name)
                if bd is None or bd[0] is None or s in inst.free_symbols:
                    continue
                cands = [bd[0].to_sympy(), bd[0].to_sympy() + 1]
                if bd[1] is not None:
                    cands += [bd[1].to_sympy() - 1, bd[1].to_sympy() - 2]       # a descending loop starts at the upper end
                for cv in cands:
                    if sp.cancel(sp.together(gen.subs(s, cv) - inst)) == 0:
                        return gen
        return None
    except Exception:
        return None
