"""In-place two-ended order updates (Levinson-type recursions).

The step-up  a_j <- a_j + k conj(a_{m-j}),  a_{m-j} <- a_{m-j} + k conj(a_j)  must read the PREVIOUS order's values on
both right-hand sides.  Written in place, the second store therefore cannot read the element the first store has just
overwritten: it needs a temporary saved before, or a simultaneous (tuple) assignment.  The rule walks each loop body
in statement order and reports a store  A[i2] = E  whose right-hand side reads  A[i1]  -- same array, same index
expression -- after  A[i1]  was assigned earlier in the same iteration, with i1 != i2 syntactically."""
import ast

from .frontend import normalise


def _flat(stmts):
    """statements of a loop body in execution order (if-arms in sequence; nested loops are separate bodies)"""
    for s in stmts:
        if isinstance(s, ast.If):
            yield from _flat(s.body)
            yield from _flat(s.orelse)
        elif isinstance(s, (ast.For, ast.While)):
            continue
        else:
            yield s


def _sub_key(t):
    if isinstance(t, ast.Subscript) and isinstance(t.value, ast.Name):
        return t.value.id, normalise(t.slice)
    return None


def check(fnode):
    """returns (number of in-place array stores examined, list of (stmt, array, index) violations)"""
    n = 0
    bad = []
    for loop in [x for x in ast.walk(fnode) if isinstance(x, (ast.For, ast.While))]:
        written = {}
        # names assigned in this body invalidate index expressions that mention them
        for s in _flat(loop.body):
            tgts = []
            val = None
            if isinstance(s, ast.Assign):
                tgts, val = s.targets, s.value
            elif isinstance(s, ast.AugAssign):
                tgts, val = [s.target], s.value
            else:
                continue
            flat_t = []
            for t in tgts:
                flat_t += list(t.elts) if isinstance(t, (ast.Tuple, ast.List)) else [t]
            reads = [_sub_key(x) for x in ast.walk(val) if isinstance(x, ast.Subscript) and isinstance(x.ctx, ast.Load)]
            for t in flat_t:
                k = _sub_key(t)
                if k is None:
                    continue
                n += 1
                for r in reads:
                    if r is not None and r[0] == k[0] and r[1] != k[1] and r in written:
                        bad.append((s, r[0], r[1]))
            for t in flat_t:
                if isinstance(t, ast.Name):
                    # an index variable changed: forget entries whose index mentions it
                    for key in [key for key in written if t.id in key[1].replace('[', ' ').replace(']', ' ').replace('-', ' ').replace('+', ' ').split()]:
                        del written[key]
                k = _sub_key(t)
                if k is not None:
                    written[k] = s
    return n, bad
