"""In-place two-ended order updates (Levinson-type recursions).

The step-up  a_j <- a_j + k conj(a_{m-j}),  a_{m-j} <- a_{m-j} + k conj(a_j)  must read the PREVIOUS order's values on
both right-hand sides.  Written in place, the second store therefore cannot read the element the first store has just
overwritten: it needs a temporary saved before, or a simultaneous (tuple) assignment.  The rule walks each loop body
in statement order and reports a store  A[i2] = E  whose right-hand side reads  A[i1]  -- same array, same index
expression -- after  A[i1]  was assigned earlier in the same iteration, with i1 != i2 syntactically."""
import ast

from .frontend import normalise


def _flat(stmts):
    """statements of a loop body in execution order (if-arms in sequence; nested loops are separate bodies)"""
    for s in stmts:
        if isinstance(s, ast.If):
            yield from _flat(s.body)
            yield from _flat(s.orelse)
        elif isinstance(s, (ast.For, ast.While)):
            continue
        else:
            yield s


def _sub_key(t):
    if isinstance(t, ast.Subscript) and isinstance(t.value, ast.Name):
        return t.value.id, normalise(t.slice)
    return None


def check(fnode):
    """returns (number of in-place array stores examined, list of (stmt, array, index) violations)"""
    n = 0
    bad = []
    for loop in [x for x in ast.walk(fnode) if isinstance(x, (ast.For, ast.While))]:
        written = {}
        # names assigned in this body invalidate index expressions that mention them
        for s in _flat(loop.body):
            tgts = []
            val = None
            if isinstance(s, ast.Assign):
                tgts, val = s.targets, s.value
            elif isinstance(s, ast.AugAssign):
                tgts, val = [s.target], s.value
            else:
                continue
            flat_t = []
            for t in tgts:
                flat_t += list(t.elts) if isinstance(t, (ast.Tuple, ast.List)) else [t]
            reads = [_sub_key(x) for x in ast.walk(val) if isinstance(x, ast.Subscript) and isinstance(x.ctx, ast.Load)]
            for t in flat_t:
                k = _sub_key(t)
                if k is None:
                    continue
                n += 1
                for r in reads:
                    if r is not None and r[0] == k[0] and r[1] != k[1] and r in written:
                        bad.append((s, r[0], r[1]))
            for t in flat_t:
                if isinstance(t, ast.Name):
                    # an index variable changed: forget entries whose index mentions it
                    for key in [key for key in written if t.id in key[1].replace('[', ' ').replace(']', ' ').replace('-', ' ').replace('+', ' ').split()]:
                        del written[key]
                k = _sub_key(t)
                if k is not None:
                    written[k] = s
    return n, bad


# ----------------------------------------------------------------------------- two-ended sweep covers every index once
def _lin(e, env, depth=0):
    """value of an integer index expression as  a*q + b  (Fractions) for the outer symbol k = 2q + p, or None.
    env: name -> (a, b) | ast expression (local single assignment, resolved on demand)"""
    from fractions import Fraction as F
    import math
    if depth > 12:
        return None
    if isinstance(e, ast.Constant) and isinstance(e.value, int) and not isinstance(e.value, bool):
        return (F(0), F(e.value))
    if isinstance(e, ast.Name):
        v = env.get(e.id)
        if isinstance(v, tuple):
            return v
        if isinstance(v, ast.AST):
            return _lin(v, env, depth + 1)
        return None
    if isinstance(e, ast.UnaryOp) and isinstance(e.op, ast.USub):
        v = _lin(e.operand, env, depth + 1)
        return None if v is None else (-v[0], -v[1])
    if isinstance(e, ast.Call) and isinstance(e.func, ast.Name) and e.func.id == 'int' and len(e.args) == 1 and not e.keywords:
        v = _lin(e.args[0], env, depth + 1)
        if v is None or v[0].denominator != 1:
            return None
        # int() truncates toward zero; with q >= 1 and a >= 0 the value is non-negative when b >= -a
        if v[0] >= 0 and v[0] + v[1] >= 0:
            return (v[0], F(math.floor(v[1])))
        return None
    if isinstance(e, ast.BinOp):
        l = _lin(e.left, env, depth + 1)
        r = _lin(e.right, env, depth + 1)
        if l is None or r is None:
            return None
        if isinstance(e.op, ast.Add):
            return (l[0] + r[0], l[1] + r[1])
        if isinstance(e.op, ast.Sub):
            return (l[0] - r[0], l[1] - r[1])
        if isinstance(e.op, ast.Mult):
            if l[0] == 0:
                return (r[0] * l[1], r[1] * l[1])
            if r[0] == 0:
                return (l[0] * r[1], l[1] * r[1])
            return None
        if isinstance(e.op, (ast.FloorDiv, ast.Div)) and r[0] == 0 and r[1] > 0:
            a, b = l[0] / r[1], l[1] / r[1]
            if isinstance(e.op, ast.Div):
                return (a, b)
            if a.denominator != 1:
                return None
            return (a, F(math.floor(b)))          # q is an integer: floor(a*q + b) = a*q + floor(b)
        if isinstance(e.op, ast.RShift) and r[0] == 0 and r[1] >= 0:
            d = 2 ** int(r[1])
            a, b = l[0] / d, l[1] / d
            if a.denominator != 1:
                return None
            return (a, F(math.floor(b)))
    return None


def _range_bounds(it):
    if not (isinstance(it, ast.Call) and isinstance(it.func, ast.Name) and it.func.id == 'range' and not it.keywords):
        return None
    if len(it.args) == 1:
        return ast.Constant(0), it.args[0]
    if len(it.args) == 2:
        return it.args[0], it.args[1]
    return None


def sweep_check(fnode):
    """The in-place step-up visits the coefficient pairs (j, c - j): the sweep  for j in range(lo, H)  that stores both A[j] and
    A[c - j] must take every index of [lo, c - lo] exactly once, i.e. H - lo = (c - 2*lo + 2)//2 for both parities of the
    order k.  One pass short leaves a pair at the previous order; one pass too many updates the middle pair a second time
    with already-updated values.  Returns (sweeps examined, [(loop, got_even, want_even, got_odd, want_odd)])."""
    from fractions import Fraction as F
    import math
    n = 0
    bad = []
    for outer in [x for x in ast.walk(fnode) if isinstance(x, ast.For) and isinstance(x.target, ast.Name)]:
        kname = outer.target.id
        # single assignments to plain names anywhere in the outer body (khalf = (k+1)//2, kj = k-j-1)
        assigns = {}
        for s in ast.walk(outer):
            if isinstance(s, ast.Assign) and len(s.targets) == 1 and isinstance(s.targets[0], ast.Name):
                assigns.setdefault(s.targets[0].id, []).append(s.value)
        for inner in [x for x in ast.walk(outer) if isinstance(x, ast.For) and x is not outer and isinstance(x.target, ast.Name)]:
            rb = _range_bounds(inner.iter)
            if rb is None:
                continue
            jname = inner.target.id
            # stores A[j] and A[E] in this body with the same array
            stores = {}
            for s in ast.walk(inner):
                tg = []
                if isinstance(s, ast.Assign):
                    for t in s.targets:
                        tg += list(t.elts) if isinstance(t, (ast.Tuple, ast.List)) else [t]
                elif isinstance(s, ast.AugAssign):
                    tg = [s.target]
                for t in tg:
                    if isinstance(t, ast.Subscript) and isinstance(t.value, ast.Name) and not isinstance(t.slice, ast.Slice):
                        stores.setdefault(t.value.id, []).append(t.slice)
            res = {}
            for parity in (0, 1):
                env = {kname: (F(2), F(parity))}
                for nm, vals in assigns.items():
                    if len({ast.dump(v_) for v_ in vals}) == 1 and nm not in (kname, jname):
                        env[nm] = vals[0]
                lo = _lin(rb[0], env)
                hi = _lin(rb[1], env)
                if lo is None or hi is None:
                    res = None
                    break
                # mirror index: an index expression that is  c - j
                cs = set()
                direct = False
                for arr, idxs in stores.items():
                    has_j = any(isinstance(i, ast.Name) and i.id == jname for i in idxs)
                    if not has_j:
                        continue
                    for i in idxs:
                        if isinstance(i, ast.Name) and i.id == jname:
                            direct = True
                            continue
                        e0 = _lin(i, dict(env, **{jname: (F(0), F(0))}))
                        e1 = _lin(i, dict(env, **{jname: (F(0), F(1))}))
                        if e0 is None or e1 is None:
                            continue
                        if (e1[0] - e0[0], e1[1] - e0[1]) == (F(0), F(-1)):
                            cs.add(e0)
                if not direct or len(cs) != 1:
                    res = None
                    break
                c = list(cs)[0]
                # want: hi - lo == floor((c - 2*lo + 2) / 2)
                wa, wb = (c[0] - 2 * lo[0]) / 2, (c[1] - 2 * lo[1] + 2) / 2
                if wa.denominator != 1:
                    res = None
                    break
                want = (wa, F(math.floor(wb)))
                got = (hi[0] - lo[0], hi[1] - lo[1])
                if got != want and (c[0] - 2 * lo[0], c[1] - 2 * lo[1]) == (2 * got[0], 2 * got[1]):
                    # the sweep takes the pairs of two distinct positions only (one pass fewer when the count is odd): fine when
                    # the self-paired middle position lo + got is updated by a store of its own in the outer iteration
                    mid = (lo[0] + got[0], lo[1] + got[1])
                    arrs = {a_ for a_, idxs in stores.items() if any(isinstance(i, ast.Name) and i.id == jname for i in idxs)}
                    inner_nodes = {id(x) for x in ast.walk(inner)}
                    for s_ in ast.walk(outer):
                        if id(s_) in inner_nodes or not isinstance(s_, (ast.Assign, ast.AugAssign)):
                            continue
                        tg = s_.targets if isinstance(s_, ast.Assign) else [s_.target]
                        for t in tg:
                            if isinstance(t, ast.Subscript) and isinstance(t.value, ast.Name) and t.value.id in arrs \
                                    and not isinstance(t.slice, ast.Slice) and _lin(t.slice, env) == mid \
                                    and any(isinstance(x, ast.Subscript) and isinstance(x.value, ast.Name) and x.value.id == t.value.id
                                            for x in ast.walk(s_.value)):
                                want = got
                res[parity] = (got, want)
            if not res:
                continue
            n += 1
            if any(res[p][0] != res[p][1] for p in (0, 1)):
                bad.append((inner, kname, res))
    return n, bad


def show_lin(v, q='q'):
    a, b = v
    s = ('%s*%s' % (a, q) if a != 1 else q) if a != 0 else ''
    if b != 0 or not s:
        s += ('%+d' % b) if s else '%d' % b
    return s
