"""D3 — symbolic index maps (segment lists) for pure re-arrangement code.

An array that is a re-arrangement of a source array S carries a list of segments
    Seg(n, src, start, stride, w):   n consecutive slots holding  w * S[start + stride*i], i = 0..n-1
with n, start affine in the size symbols (NFFT = 2m or 2m+1).  Slicing, reversal, concatenation, rotation,
scalar scaling and single-element assignment are exact on segment lists; anything else drops the map."""
from fractions import Fraction as F

from .values import Aff, aff, aff_cmp


class Seg:
    __slots__ = ('n', 'src', 'start', 'stride', 'w')

    def __init__(self, n, src, start, stride, w=F(1)):
        self.n = aff(n)
        self.src = src
        self.start = aff(start)
        self.stride = stride
        self.w = F(w)

    def last(self):
        return self.start + (self.n - 1).scale(self.stride)

    def sub(self, lo, cnt):
        """slots lo .. lo+cnt-1 of this segment"""
        return Seg(cnt, self.src, self.start + aff(lo).scale(self.stride), self.stride, self.w)

    def rev(self):
        return Seg(self.n, self.src, self.last(), -self.stride, self.w)

    def key(self):
        return (repr(self.n), self.src, repr(self.start), self.stride if self.n != Aff(1) else 0, self.w)

    def __repr__(self):
        if self.n == Aff(1):
            body = '%s[%s]' % (self.src, self.start)
        elif self.stride == 1:
            body = '%s[%s : %s]' % (self.src, self.start, self.start + self.n)
        else:
            body = '%s[%s : %s : -1]' % (self.src, self.start, self.start - self.n)
        return ('%s*' % self.w if self.w != 1 else '') + body + ('{%s}' % self.n)


def identity(src, n):
    return [Seg(n, src, 0, 1)]


def length(segs):
    t = Aff(0)
    for s in segs:
        t = t + s.n
    return t


def _sgn(a):
    a = aff(a)
    if a.is_const():
        return (a.c > 0) - (a.c < 0)
    return a.sign()


def normalise(segs):
    out = []
    for s in segs:
        z = _sgn(s.n)
        if z == 0:
            continue
        if out:
            p = out[-1]
            if p.src == s.src and p.w == s.w:
                ps = p.stride if p.n != Aff(1) else None
                ss = s.stride if s.n != Aff(1) else None
                for stride in ((ps,) if ps is not None else ((ss,) if ss is not None else (1, -1))):
                    if (ss is None or ss == stride) and (ps is None or ps == stride):
                        if p.start + p.n.scale(stride) == s.start:
                            out[-1] = Seg(p.n + s.n, p.src, p.start, stride, p.w)
                            break
                else:
                    out.append(s)
                continue
        out.append(s)
    return out


def split_at(segs, pos):
    """(left, right) at absolute slot position pos (0 <= pos <= length); None if not decidable"""
    pos = aff(pos)
    left, right = [], []
    off = Aff(0)
    done = False
    for s in segs:
        if done:
            right.append(s)
            continue
        end = off + s.n
        c_end = aff_cmp(pos, end)
        if c_end is None:
            return None
        if c_end >= 0:
            left.append(s)
            off = end
            if c_end == 0:
                done = True
            continue
        c_beg = aff_cmp(pos, off)
        if c_beg is None:
            return None
        if c_beg <= 0:
            right.append(s)
            done = True
            continue
        k = pos - off
        left.append(s.sub(0, k))
        right.append(s.sub(k, s.n - k))
        done = True
        off = end
    return left, right


def take(segs, lo, hi):
    """slots lo..hi-1 (absolute, 0<=lo<=hi<=len)"""
    a = split_at(segs, hi)
    if a is None:
        return None
    b = split_at(a[0], lo)
    if b is None:
        return None
    return normalise(b[1])


def reverse(segs):
    return normalise([s.rev() for s in reversed(segs)])


def scale(segs, w):
    return [Seg(s.n, s.src, s.start, s.stride, s.w * F(w)) for s in segs]


def concat(parts):
    out = []
    for p in parts:
        out.extend(p)
    return normalise(out)


def rotate(segs, k):
    """deque.rotate(k): k>0 moves the last k items to the front"""
    n = length(segs)
    if k == 0:
        return normalise(segs)
    if k > 0:
        a = split_at(segs, n - k)
    else:
        a = split_at(segs, -k)
    if a is None:
        return None
    return normalise(a[1] + a[0])


def norm_index(i, n):
    """absolute position of python index i (may be negative) for length n; None if sign unknown"""
    i = aff(i)
    s = _sgn(i)
    if s is None:
        if i.nonneg():
            return i
        return None
    return i if s >= 0 else n + i


def getitem(segs, i):
    n = length(segs)
    p = norm_index(i, n)
    if p is None:
        p = aff(i)          # a symbolic index of unknown sign is taken as a plain (non-negative) position
    ns = normalise(segs)
    if len(ns) == 1:
        s0 = ns[0]
        return [Seg(1, s0.src, s0.start + p.scale(s0.stride), 1, s0.w)]
    return take(segs, p, p + 1)


def setitem(segs, i, val):
    """segs with slot i replaced by the single-slot map `val`"""
    n = length(segs)
    p = norm_index(i, n)
    if p is None or val is None or length(val) != Aff(1):
        return None
    a = split_at(segs, p)
    if a is None:
        return None
    b = split_at(a[1], 1)
    if b is None:
        return None
    return normalise(a[0] + val + b[1])


def slice_(segs, lo, hi, step):
    """python slice with affine (possibly negative / None) bounds and step +-1"""
    n = length(segs)
    if step in (None, 1):
        l = Aff(0) if lo is None else norm_index(lo, n)
        h = n if hi is None else norm_index(hi, n)
        if l is None or h is None:
            return None
        # clamp (a symbolic bound that cannot be compared with the length is taken to be in range)
        c = aff_cmp(h, n)
        if c is not None and c > 0:
            h = n
        c = aff_cmp(l, h)
        if c is not None and c >= 0:
            return []
        ns = normalise(segs)
        if len(ns) == 1 and ns[0].n == n:
            s0 = ns[0]
            return [Seg(h - l, s0.src, s0.start + l.scale(s0.stride), s0.stride, s0.w)]
        return take(segs, l, h)
    if step == -1:
        # elements lo, lo-1, ..., hi+1
        l = (n - 1) if lo is None else norm_index(lo, n)
        if l is None:
            return None
        c = aff_cmp(l, n - 1)
        if c is not None and c > 0:
            l = n - 1
        if hi is None:
            h = Aff(-1)
        else:
            h = norm_index(hi, n)
            if h is None:
                return None
        c = aff_cmp(l, h)
        if c is not None and c <= 0:
            return []
        ns = normalise(segs)
        if len(ns) == 1 and ns[0].n == n:
            s0 = ns[0]
            return [Seg(l - h, s0.src, s0.start + l.scale(s0.stride), -s0.stride, s0.w)]
        part = take(segs, h + 1, l + 1)
        if part is None:
            return None
        return reverse(part)
    return None


def same(a, b):
    if a is None or b is None:
        return False
    a, b = normalise(a), normalise(b)
    return [s.key() for s in a] == [s.key() for s in b]


def show(segs):
    if segs is None:
        return '<no index map>'
    return ' ++ '.join(repr(s) for s in normalise(segs)) or '<empty>'


def instantiate(segs, env):
    """concrete list of (src, index, weight) per slot for a concrete assignment of the size symbols (small sizes)"""
    out = []
    for s in segs:
        n = s.n.subs(env)
        st = s.start.subs(env)
        if not n.is_const() or not st.is_const():
            return None
        for i in range(int(n.c)):
            out.append((s.src, int(st.c) + s.stride * i, s.w))
    return out
