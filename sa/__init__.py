"""Static analysis of cokelaer/spectrum (stdlib ast only; never imports or runs the package)."""
