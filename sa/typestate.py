"""D6 — path/effect summaries of methods of the Spectrum hierarchy.

For a concrete class C and a method M every control-flow path through M (If/elif/else,
early return, raise; callees that are methods or properties of `self` are inlined, so a path
is a path through the resolved call graph) is summarised as an ordered list of events:

  ('wr', field, info)        store to self.<field> (mangled name)           info = ValueInfo of the RHS
  ('rd', field)              load of a plain field
  ('get', prop)              entering a property getter (events of the getter follow)
  ('set', prop)              entering a property setter (events of the setter follow)
  ('wrsub', field, attr, info)   self.<field>.<attr> = ...   (the Range object)
  ('rdsub', field, attr)
  ('compute',)               self()   -- the estimator is (re)run
  ('callm', name)            entering self.<method>()

plus the list of branch decisions taken (test AST, truth value, defining class) and how the
path ends ('return' | 'fall' | 'raise')."""
import ast

from .frontend import AnalysisError, mangle, normalise, ClassInfo

MAX_PATHS = 1500


class ExplosionError(AnalysisError):
    pass


class ValueInfo:
    """What a value on a path was computed from (path-sensitive, so a plain union)."""
    __slots__ = ('params', 'fields', 'getters', 'const', 'has_const', 'calls', 'raw_reads', 'node', 'refreshed', 'argv')

    def __init__(self):
        self.params = set()      # parameters of the *entry* method the value derives from
        self.fields = set()      # fields read raw
        self.getters = set()     # properties read through their getter
        self.const = None
        self.has_const = False
        self.calls = set()
        self.node = None
        self.refreshed = False   # value was computed after a psd refresh on this path (getter/compute)
        self.argv = None         # for a call value: the ValueInfo of each positional argument

    def merge(self, other):
        self.params |= other.params
        self.fields |= other.fields
        self.getters |= other.getters
        self.calls |= other.calls
        self.refreshed = self.refreshed or other.refreshed
        return self

    def copy(self):
        v = ValueInfo()
        v.merge(self)
        v.const, v.has_const, v.node = self.const, self.has_const, self.node
        v.argv = self.argv
        return v

    def __repr__(self):
        if self.has_const:
            return 'const(%r)' % (self.const,)
        return 'val(params=%s fields=%s getters=%s calls=%s)' % (sorted(self.params), sorted(self.fields),
                                                                  sorted(self.getters), sorted(self.calls))


def _canon_test(t):
    """(text, polarity) of a test with leading `not`s stripped; a bare local name bound to a comparison stands for itself"""
    pol = True
    while isinstance(t, ast.UnaryOp) and isinstance(t.op, ast.Not):
        t = t.operand
        pol = not pol
    return normalise(t), pol, t


def _fact_deps(p, t):
    names = tuple(sorted((n.id, id(p.env.get(n.id))) for n in ast.walk(t) if isinstance(n, ast.Name)))
    attrs = frozenset(n.attr for n in ast.walk(t) if isinstance(n, ast.Attribute))
    calls = any(isinstance(n, ast.Call) for n in ast.walk(t))
    return names, attrs, calls


def _record_outcome(p, test, truth):
    text, pol, t = _canon_test(test)
    names, attrs, calls = _fact_deps(p, t)
    if calls:
        return              # a call may answer differently next time
    p.facts[text] = (truth == pol, len(p.events), names, attrs)


def _known_outcome(p, test):
    """the same test (or its negation) was already decided on this path and nothing it reads changed since: a second
    `if` on it can only go the same way (correlated branches are not independent paths)"""
    text, pol, t = _canon_test(test)
    f = p.facts.get(text)
    if f is None:
        return None
    val, at, names, attrs = f
    now_names, _a, _c = _fact_deps(p, t)
    if now_names != names:
        return None
    for e in p.events[at:]:
        if e[0] in ('wr', 'wrsub', 'set', 'callm', 'compute') and (len(e) < 2 or not isinstance(e[1], str) or e[0] != 'wr'
                                                                    or any(e[1].endswith(a) for a in attrs)):
            if attrs:
                return None
    return val if pol else (not val)


class Path:
    __slots__ = ('events', 'conds', 'end', 'ret', 'env', 'facts')

    def __init__(self, events=None, conds=None, end=None, ret=None, env=None, facts=None):
        self.events = events if events is not None else []
        self.conds = conds if conds is not None else []
        self.end = end
        self.ret = ret
        self.env = env if env is not None else {}
        self.facts = facts if facts is not None else {}     # outcome of tests already taken on this path (see _known_outcome)

    def fork(self):
        return Path(list(self.events), list(self.conds), self.end, self.ret, dict(self.env), dict(self.facts))

    def writes(self, field):
        return [e for e in self.events if e[0] == 'wr' and e[1] == field]

    def final_write(self, field):
        w = self.writes(field)
        return w[-1] if w else None

    def has(self, kind, name=None):
        for e in self.events:
            if e[0] == kind and (name is None or e[1] == name):
                return True
        return False

    def describe(self):
        out = []
        for t, truth, _c in self.conds:
            out.append(('if ' if truth else 'if not ') + normalise(t))
        return out


class Typestate:
    def __init__(self, prog):
        self.prog = prog
        self._memo = {}
        self._stack = []

    # ------------------------------------------------------------------ public
    def method_paths(self, cls, fsym):
        """all paths of method `fsym` (FuncSym with .cls = defining class) on an object of concrete class `cls`"""
        key = (cls.qname, fsym.qname)
        if key in self._memo:
            if self._memo[key] is None:
                raise ExplosionError('path explosion in %s' % fsym.qname)
            return self._memo[key]
        if key in self._stack:
            raise AnalysisError('recursive method %s' % fsym.qname)
        self._stack.append(key)
        try:
            node = fsym.node
            params = [a.arg for a in node.args.args][1:]
            p0 = Path()
            for p in params:
                vi = ValueInfo()
                vi.params.add(p)
                p0.env[p] = vi
            for a in (node.args.kwonlyargs or []):
                vi = ValueInfo()
                vi.params.add(a.arg)
                p0.env[a.arg] = vi
            if node.args.kwarg:
                vi = ValueInfo()
                vi.params.add(node.args.kwarg.arg)
                p0.env[node.args.kwarg.arg] = vi
            if node.args.vararg:
                vi = ValueInfo()
                vi.params.add(node.args.vararg.arg)
                p0.env[node.args.vararg.arg] = vi
            ctx = (cls, fsym.cls, node.args.args[0].arg if node.args.args else 'self', fsym.qname)
            paths = self._block(node.body, [p0], ctx)
            for p in paths:
                if p.end is None:
                    p.end = 'fall'
            self._memo[key] = paths
            return paths
        except ExplosionError:
            self._memo[key] = None
            raise
        finally:
            self._stack.pop()

    def statement_paths(self, cls, fsym):
        """fallback for methods whose path product explodes (constructors): the paths of each top-level
        statement taken in isolation -> list of (stmt, paths | None when the statement itself explodes)"""
        node = fsym.node
        out = []
        for st in node.body:
            p0 = Path()
            for a in node.args.args[1:] + list(node.args.kwonlyargs or []):
                vi = ValueInfo()
                vi.params.add(a.arg)
                p0.env[a.arg] = vi
            ctx = (cls, fsym.cls, node.args.args[0].arg if node.args.args else 'self', fsym.qname)
            try:
                ps = self._stmt(st, [p0], ctx)
            except ExplosionError:
                ps = None
            out.append((st, ps))
        return out

    def may_write(self, cls, fsym, _seen=None):
        """syntactic over-approximation of the fields a method may store to (through self-methods / property setters)"""
        _seen = _seen if _seen is not None else set()
        key = (cls.qname, fsym.qname)
        if key in _seen:
            return set()
        _seen.add(key)
        out = set()
        node = fsym.node
        selfname = node.args.args[0].arg if node.args.args else 'self'
        dcls = fsym.cls
        for n in ast.walk(node):
            tgt = []
            if isinstance(n, ast.Assign):
                tgt = n.targets
            elif isinstance(n, ast.AugAssign):
                tgt = [n.target]
            for t in tgt:
                for tt in ast.walk(t):
                    if _is_self_attr(tt, selfname) and isinstance(tt.ctx, ast.Store):
                        pr = None if tt.attr.startswith('__') else cls.find_prop(tt.attr)
                        if pr is not None and pr[1][1] is not None:
                            out |= self.may_write(cls, pr[0].find_method(pr[1][1]), _seen)
                        else:
                            out.add(mangle(dcls.name, tt.attr))
            if isinstance(n, ast.Attribute) and _is_self_attr(n, selfname) and isinstance(n.ctx, ast.Load):
                if not n.attr.startswith('__'):
                    pr = cls.find_prop(n.attr)
                    if pr is not None and pr[1][0] is not None:
                        out |= self.may_write(cls, pr[0].find_method(pr[1][0]), _seen)
                    elif pr is None:
                        m = cls.find_method(n.attr)
                        if m is not None:
                            out |= self.may_write(cls, m, _seen)
            if isinstance(n, ast.Call) and isinstance(n.func, ast.Name) and n.func.id == selfname:
                m = cls.find_method('__call__')
                if m is not None:
                    out |= self.may_write(cls, m, _seen)
            if isinstance(n, ast.Call) and isinstance(n.func, ast.Attribute) and isinstance(n.func.value, ast.Call) \
                    and isinstance(n.func.value.func, ast.Name) and n.func.value.func.id == 'super':
                for c in cls.mro():
                    if c is not dcls and n.func.attr in c.methods and dcls in cls.mro() and \
                            cls.mro().index(c) > cls.mro().index(dcls):
                        from .frontend import FuncSym
                        out |= self.may_write(cls, FuncSym(c.mod, c.methods[n.func.attr], c), _seen)
                        break
        return out

    # ------------------------------------------------------------------ statements
    def _block(self, stmts, paths, ctx):
        for st in stmts:
            live = [p for p in paths if p.end is None]
            done = [p for p in paths if p.end is not None]
            if not live:
                return done
            paths = done + self._stmt(st, live, ctx)
            if len(paths) > MAX_PATHS:
                raise ExplosionError('path explosion in %s' % ctx[1].qname)
        return paths

    def _stmt(self, st, paths, ctx):
        if isinstance(st, ast.Expr):
            if isinstance(st.value, ast.Constant):
                return paths
            out = []
            for p in paths:
                out.extend(q for q, _v in self._expr(st.value, p, ctx))
            return out
        if isinstance(st, ast.Assign):
            out = []
            for p in paths:
                for q, v in self._expr(st.value, p, ctx):
                    if q.end is not None:
                        out.append(q)
                        continue
                    qs = [q]
                    for t in st.targets:
                        nqs = []
                        for qq in qs:
                            nqs.extend(self._store(t, v, qq, ctx, st))
                        qs = nqs
                    out.extend(qs)
            return out
        if isinstance(st, ast.AugAssign):
            load = ast.copy_location(_as_load(st.target), st.target)
            expr = ast.copy_location(ast.BinOp(load, st.op, st.value), st)
            out = []
            for p in paths:
                for q, v in self._expr(expr, p, ctx):
                    if q.end is not None:
                        out.append(q)
                    else:
                        out.extend(self._store(st.target, v, q, ctx, st))
            return out
        if isinstance(st, ast.Return):
            out = []
            for p in paths:
                if st.value is None:
                    p.end = 'return'
                    out.append(p)
                else:
                    for q, v in self._expr(st.value, p, ctx):
                        if q.end is None:
                            q.end = 'return'
                            q.ret = v
                        out.append(q)
            return out
        if isinstance(st, ast.Raise):
            for p in paths:
                p.end = 'raise'
            return paths
        if isinstance(st, ast.If):
            out = []
            for p in paths:
                for q, _v in self._expr(st.test, p, ctx):
                    if q.end is not None:
                        out.append(q)
                        continue
                    known = _const_truth(st.test)
                    if known is None:
                        known = _known_outcome(q, st.test)
                    if known is not False:
                        a = q.fork()
                        a.conds.append((st.test, True, ctx[1]))
                        _record_outcome(a, st.test, True)
                        out.extend(self._block(st.body, [a], ctx))
                    if known is not True:
                        b = q.fork()
                        b.conds.append((st.test, False, ctx[1]))
                        _record_outcome(b, st.test, False)
                        out.extend(self._block(st.orelse, [b], ctx))
            return out
        if isinstance(st, (ast.For, ast.While)):
            # zero or one iteration (effects of methods in this hierarchy do not depend on trip counts)
            out = []
            for p in paths:
                it = st.iter if isinstance(st, ast.For) else st.test
                for q, _v in self._expr(it, p, ctx):
                    if q.end is not None:
                        out.append(q)
                        continue
                    out.append(q.fork())
                    b = q.fork()
                    if isinstance(st, ast.For):
                        for n in ast.walk(st.target):
                            if isinstance(n, ast.Name):
                                b.env[n.id] = ValueInfo()
                    res = self._block(st.body, [b], ctx)
                    for r in res:
                        if r.end in ('break', 'continue'):
                            r.end = None
                    out.extend(res)
            return out
        if isinstance(st, ast.Break):
            for p in paths:
                p.end = 'break'
            return paths
        if isinstance(st, ast.Continue):
            for p in paths:
                p.end = 'continue'
            return paths
        if isinstance(st, ast.Assert):
            out = []
            for p in paths:
                out.extend(q for q, _v in self._expr(st.test, p, ctx))
            return out
        if isinstance(st, (ast.Pass, ast.Import, ast.ImportFrom, ast.Global, ast.Delete)):
            return paths
        if isinstance(st, ast.Try):
            # body + (no exception) ; handlers are not followed (only __str__ uses try in this hierarchy)
            res = self._block(st.body, paths, ctx)
            res = self._block(st.orelse, res, ctx) if st.orelse else res
            return self._block(st.finalbody, res, ctx) if st.finalbody else res
        if isinstance(st, (ast.FunctionDef, ast.ClassDef)):
            return paths
        raise AnalysisError('typestate: unsupported statement %s in %s' % (type(st).__name__, ctx[1].qname))

    # ------------------------------------------------------------------ stores
    def _store(self, target, v, p, ctx, st):
        cls, dcls, selfname = ctx[:3]
        if isinstance(target, ast.Name):
            p.env[target.id] = v
            return [p]
        if isinstance(target, (ast.Tuple, ast.List)):
            qs = [p]
            for t in target.elts:
                nqs = []
                for q in qs:
                    nqs.extend(self._store(t, v.copy(), q, ctx, st))
                qs = nqs
            return qs
        if isinstance(target, ast.Subscript):
            # element store into something: treat as a (weak) write of the container
            base = target.value
            if isinstance(base, ast.Name):
                old = p.env.get(base.id, ValueInfo())
                p.env[base.id] = old.copy().merge(v)
                return [p]
            if _is_self_attr(base, selfname):
                return self._store_attr(base.attr, v, p, ctx, st, weak=True)
            return [p]
        if isinstance(target, ast.Attribute):
            if isinstance(target.value, ast.Name) and target.value.id == selfname:
                return self._store_attr(target.attr, v, p, ctx, st)
            # self.<field>.<attr> = v
            if _is_self_attr(target.value, selfname):
                f = mangle(dcls.name, target.value.attr)
                p.events.append(('wrsub', f, target.attr, v, st))
                return [p]
            return [p]
        raise AnalysisError('typestate: unsupported store target %s' % type(target).__name__)

    def _store_attr(self, attr, v, p, ctx, st, weak=False):
        cls, dcls, selfname = ctx[:3]
        if attr.startswith('__') and not attr.endswith('__'):
            p.events.append(('wr', mangle(dcls.name, attr), v, st, ctx[3]))
            return [p]
        pr = cls.find_prop(attr)
        if pr is not None:
            pcls, (fget, fset) = pr
            if fset is None:
                raise AnalysisError('assignment to read-only property %s in %s' % (attr, dcls.qname))
            f = pcls.find_method(fset)
            if f is None:
                raise AnalysisError('setter %s of %s not found' % (fset, attr))
            p.events.append(('set', attr, v, st))
            return self._inline(cls, f, [v], p, want_value=False)
        p.events.append(('wr', attr, v, st, ctx[3]))
        return [p]

    # ------------------------------------------------------------------ expressions
    def _expr(self, e, p, ctx):
        """returns list of (path, ValueInfo); paths may have ended by a raise inside an inlined callee"""
        cls, dcls, selfname = ctx[:3]
        if isinstance(e, ast.Constant):
            v = ValueInfo()
            v.const, v.has_const, v.node = e.value, True, e
            return [(p, v)]
        if isinstance(e, ast.Name):
            if e.id in p.env:
                return [(p, p.env[e.id].copy())]
            v = ValueInfo()
            if e.id in ('True', 'False', 'None'):
                v.const, v.has_const = {'True': True, 'False': False, 'None': None}[e.id], True
            v.node = e
            return [(p, v)]
        if isinstance(e, ast.Attribute):
            if isinstance(e.value, ast.Name) and e.value.id == selfname:
                return self._load_attr(e.attr, p, ctx, e)
            if _is_self_attr(e.value, selfname):
                # self.<field>.<attr>
                res = self._load_attr(e.value.attr, p, ctx, e.value)
                out = []
                for q, v in res:
                    if q.end is None:
                        q.events.append(('rdsub', mangle(dcls.name, e.value.attr), e.attr))
                        v.fields.add('%s.%s' % (mangle(dcls.name, e.value.attr), e.attr))
                    out.append((q, v))
                return out
            return self._expr(e.value, p, ctx)
        if isinstance(e, ast.Call):
            return self._call(e, p, ctx)
        # generic: evaluate children left to right, union
        kids = [c for c in ast.iter_child_nodes(e) if isinstance(c, ast.expr)]
        if isinstance(e, (ast.ListComp, ast.GeneratorExp, ast.SetComp, ast.DictComp)):
            kids = []
            for g in e.generators:
                kids.append(g.iter)
                kids.extend(g.ifs)
            if isinstance(e, ast.DictComp):
                kids += [e.key, e.value]
            else:
                kids.append(e.elt)
        results = [(p, ValueInfo())]
        for k in kids:
            nres = []
            for q, acc in results:
                if q.end is not None:
                    nres.append((q, acc))
                    continue
                for q2, v in self._expr(k, q, ctx):
                    a = acc.copy().merge(v)
                    nres.append((q2, a))
            results = nres
        for _q, v in results:
            v.node = e
        return results

    def _load_attr(self, attr, p, ctx, node):
        cls, dcls, selfname = ctx[:3]
        if attr.startswith('__') and not attr.endswith('__'):
            f = mangle(dcls.name, attr)
            p.events.append(('rd', f))
            v = ValueInfo()
            v.fields.add(f)
            v.node = node
            return [(p, v)]
        pr = cls.find_prop(attr)
        if pr is not None:
            pcls, (fget, fset) = pr
            if fget is None:
                raise AnalysisError('write-only property %s' % attr)
            f = pcls.find_method(fget)
            p.events.append(('get', attr))
            out = []
            for q, v in self._inline(cls, f, [], p, want_value=True):
                if q.end is None:
                    v.getters.add(attr)
                out.append((q, v))
            return out
        m = cls.find_method(attr)
        if m is not None:
            v = ValueInfo()
            v.node = node
            v.calls.add('method:' + attr)
            return [(p, v)]
        ca = cls.find_attr(attr)
        if ca is not None:
            v = ValueInfo()
            v.node = node
            return [(p, v)]
        p.events.append(('rd', attr))
        v = ValueInfo()
        v.fields.add(attr)
        v.node = node
        return [(p, v)]

    def _call(self, e, p, ctx):
        cls, dcls, selfname = ctx[:3]
        # arguments first
        results = [(p, [])]
        argnodes = list(e.args) + [k.value for k in e.keywords]
        for a in argnodes:
            if isinstance(a, ast.Starred):
                a = a.value
            nres = []
            for q, acc in results:
                if q.end is not None:
                    nres.append((q, acc))
                    continue
                for q2, v in self._expr(a, q, ctx):
                    nres.append((q2, acc + [v]))
            results = nres
        out = []
        f = e.func
        for q, argv in results:
            if q.end is not None:
                out.append((q, ValueInfo()))
                continue
            # self()
            if isinstance(f, ast.Name) and f.id == selfname:
                q.events.append(('compute', e))
                v = ValueInfo()
                v.refreshed = True
                out.append((q, v))
                continue
            # self.method(...)
            if isinstance(f, ast.Attribute) and isinstance(f.value, ast.Name) and f.value.id == selfname:
                m = cls.find_method(f.attr)
                if m is not None and cls.find_prop(f.attr) is None:
                    q.events.append(('callm', f.attr))
                    pos = argv[:len(e.args)]
                    kw = {k.arg: argv[len(e.args) + i] for i, k in enumerate(e.keywords) if k.arg}
                    out.extend(self._inline(cls, m, pos, q, want_value=True, kw=kw))
                    continue
            # super(C, self).method(...)
            if (isinstance(f, ast.Attribute) and isinstance(f.value, ast.Call) and isinstance(f.value.func, ast.Name)
                    and f.value.func.id == 'super'):
                start = dcls
                if f.value.args and isinstance(f.value.args[0], ast.Name):
                    s = self.prog.resolve(dcls.mod, f.value.args[0].id)
                    if isinstance(s, ClassInfo):
                        start = s
                m = None
                mro = cls.mro()
                if start in mro:
                    for c in mro[mro.index(start) + 1:]:
                        if f.attr in c.methods:
                            from .frontend import FuncSym
                            m = FuncSym(c.mod, c.methods[f.attr], c)
                            break
                if m is not None:
                    q.events.append(('callm', 'super.' + f.attr))
                    pos = argv[:len(e.args)]
                    kw = {k.arg: argv[len(e.args) + i] for i, k in enumerate(e.keywords) if k.arg}
                    out.extend(self._inline(cls, m, pos, q, want_value=True, kw=kw))
                    continue
            # anything else: evaluate the callee expression (may read self attributes), union of arguments
            res = self._expr(f, q, ctx) if not isinstance(f, ast.Name) else [(q, ValueInfo())]
            for q2, fv in res:
                v = ValueInfo()
                v.merge(fv)
                for a in argv:
                    v.merge(a)
                v.calls.add(normalise(f))
                v.node = e
                v.argv = list(argv[:len(e.args)])
                out.append((q2, v))
        return out

    def _inline(self, cls, fsym, posargs, p, want_value, kw=None):
        """product of path p with the paths of callee; returns list of (path, ValueInfo) if want_value else list of paths"""
        callee_paths = self.method_paths(cls, fsym)
        params = [a.arg for a in fsym.node.args.args][1:]
        out = []
        for cp in callee_paths:
            q = p.fork()
            # substitute: callee param infos -> actual arg infos
            amap = {}
            for i, name in enumerate(params):
                if i < len(posargs):
                    amap[name] = posargs[i]
                elif kw and name in kw:
                    amap[name] = kw[name]
                else:
                    amap[name] = ValueInfo()   # default value: a constant of the callee
            for ev in cp.events:
                if ev[0] in ('wr', 'set'):
                    q.events.append((ev[0], ev[1], _subst(ev[2], amap, q)) + tuple(ev[3:]))
                elif ev[0] == 'wrsub':
                    q.events.append((ev[0], ev[1], ev[2], _subst(ev[3], amap, q), ev[4]))
                else:
                    q.events.append(ev)
            q.conds.extend(cp.conds)
            if cp.end == 'raise':
                q.end = 'raise'
                out.append((q, ValueInfo()) if want_value else q)
                continue
            rv = _subst(cp.ret, amap, q) if cp.ret is not None else ValueInfo()
            out.append((q, rv) if want_value else q)
        return out


def _subst(v, amap, path):
    if v is None:
        return ValueInfo()
    r = ValueInfo()
    r.fields |= v.fields
    r.getters |= v.getters
    r.calls |= v.calls
    r.const, r.has_const, r.node = v.const, v.has_const, v.node
    r.refreshed = v.refreshed
    r.argv = [_subst(a, amap, path) for a in v.argv] if v.argv else None
    for pn in v.params:
        a = amap.get(pn)
        if a is not None:
            r.merge(a)
            if len(v.params) == 1 and not v.fields and not v.getters and not v.calls and a.has_const:
                r.const, r.has_const = a.const, True
    if v.params and not (r.has_const and len(v.params) == 1):
        pass
    if v.params and r.has_const and (v.fields or v.getters or v.calls):
        r.has_const = False
    return r


def _as_load(t):
    t2 = ast.parse(ast.unparse(t), mode='eval').body
    return t2


def _is_self_attr(n, selfname):
    return isinstance(n, ast.Attribute) and isinstance(n.value, ast.Name) and n.value.id == selfname


def _const_truth(test):
    if isinstance(test, ast.Constant):
        return bool(test.value)
    return None
