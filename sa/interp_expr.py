"""expression evaluation (methods of Interp)"""
import ast
import math
from fractions import Fraction as F

import sympy as sp

from .frontend import FuncSym, ClassInfo, ModSym, ExtSym, ConstSym, normalise
from .values import *      # noqa
from .core import PathEnd, St, Frame, join, BUILTINS

EXT_CONSTS = {'numpy.pi': math.pi, 'math.pi': math.pi, 'numpy.e': math.e, 'numpy.inf': float('inf'),
              'numpy.newaxis': None}
TYPE_NAMES = {'int', 'float', 'complex', 'str', 'list', 'tuple', 'dict', 'bool'}


def eval(self, n, st):
    m = getattr(self, 'e_' + type(n).__name__, None)
    if m is None:
        self.unsupported('expression %s' % type(n).__name__, n)
        return TopV('expr')
    return m(n, st)


def sym_to_val(self, s, node=None):
    if s is None:
        return None
    if isinstance(s, FuncSym):
        return FuncV(s)
    if isinstance(s, ClassInfo):
        return ClsV(s)
    if isinstance(s, ModSym):
        return ModV(s)
    if isinstance(s, ExtSym):
        if s.dotted in EXT_CONSTS:
            return Const(EXT_CONSTS[s.dotted])
        return ExtV(s.dotted)
    if isinstance(s, ConstSym):
        key = ('const', s.mod, s.name)
        cache = self.__dict__.setdefault('_constcache', {})
        if key not in cache:
            cache[key] = self.eval_in_module(s.node, s.mod)
        return cache[key]
    return None


def lookup(self, name, st, node=None):
    if name in st.env:
        return st.env[name]
    for fr in reversed(self.frames):
        if fr.closure is not None and name in fr.closure:
            return fr.closure[name]
        break
    if name in ('True', 'False', 'None'):
        return Const({'True': True, 'False': False, 'None': None}[name])
    mod = self.cur.mod if self.cur else None
    if mod is not None:
        v = sym_to_val(self, self.prog.resolve(mod, name), node)
        if v is not None:
            return v
    if name in BUILTINS:
        return ExtV('builtins.' + name)
    if mod == 'mtm' and name.startswith('c_'):
        return ExtV('ctypes.' + name)
    self.unsupported('unresolved name %s' % name, node)
    return TopV('name ' + name)


def e_Constant(self, n, st):
    return Const(n.value)


def e_Name(self, n, st):
    return self.lookup(n.id, st, n)


def e_Tuple(self, n, st):
    return Tup([self.eval(e, st) for e in n.elts])


def e_List(self, n, st):
    items = [self.eval(e, st) for e in n.elts]
    if items and all(isinstance(i, Const) and isinstance(i.v, (str, type(None), bool)) for i in items):
        return Const([i.v for i in items])
    return Tup(items, mutable=True)


def e_Set(self, n, st):
    return Tup([self.eval(e, st) for e in n.elts])


def e_DictComp(self, n, st):
    """{k: v for x in <short literal sequence>}: one entry per item; anything else is an opaque dict"""
    if len(n.generators) == 1 and not n.generators[0].ifs:
        itv = self.eval(n.generators[0].iter, st)
        items = None
        if isinstance(itv, Tup) and len(itv.items) <= 24:
            items = list(itv.items)
        elif isinstance(itv, Const) and isinstance(itv.v, (list, tuple)) and len(itv.v) <= 24:
            items = [x if isinstance(x, Val) else Const(x) for x in itv.v]
        if items is not None:
            out = {}
            for item in items:
                inner = St(dict(st.env), st.heap)
                self.bind(n.generators[0].target, item, inner, n)
                k = self.eval(n.key, inner)
                v = self.eval(n.value, inner)
                st.heap = inner.heap
                if not isinstance(k, Const):
                    return Opaque('dict')
                out[k.v] = v.v if (isinstance(v, Const) and not isinstance(v.v, (dict, list))) else v
            return Const(out)
    return Opaque('dict')


def e_Dict(self, n, st):
    keys = [self.eval(k, st) if k is not None else None for k in n.keys]
    vals = [self.eval(v, st) for v in n.values]
    if all(isinstance(k, Const) for k in keys):
        if all(isinstance(v, Const) for v in vals):
            return Const({k.v: v.v for k, v in zip(keys, vals)})
        return Const({k.v: v for k, v in zip(keys, vals)})     # dict of abstract values
    return Opaque('dict')


def e_JoinedStr(self, n, st):
    return StrV('fstring')


def e_Lambda(self, n, st):
    fd = ast.FunctionDef(name='<lambda>', args=n.args, body=[ast.Return(n.body)], decorator_list=[], lineno=n.lineno,
                         col_offset=0)
    ast.fix_missing_locations(fd)
    return FuncV(FuncSym(self.cur.mod, fd), closure=dict(st.env))


def e_Yield(self, n, st):
    fr = self.frames[-1]
    if isinstance(n.value, ast.BinOp) and isinstance(n.value.op, ast.Mult):
        # frequency axes are written  index * df : keep the exact index for the axis rules
        a = self.eval(n.value.left, st)
        b = self.eval(n.value.right, st)
        exs = []
        for x in (a, b):
            nx = tonum(x) if not isinstance(x, (Tup, SeqV, TopV)) else None
            if nx is not None and nx.ex is not None:
                exs.append(nx.ex)
        self.events.append(('axis-index', exs[0] if len(exs) == 1 else None))
        v = self.binop(n.value.op, a, b, n.value)
    else:
        v = self.eval(n.value, st) if n.value is not None else Const(None)
    if isinstance(v, Num) and v.fsf is not None:
        self.events.append(('axis-value', v.fsf, self.cur.qname if self.cur else ''))
    if fr.yields is None:
        fr.yields = []
        fr.ycounts = {}
    fr.yields.append(v.with_taint(self.pc) if self.pc else v)
    cnt = Aff(1)
    for ln in fr.loopn:
        cnt = cnt.mul(ln) if (cnt is not None and ln is not None) else None
    fr.ycounts[id(n)] = cnt
    return Const(None)


def e_YieldFrom(self, n, st):
    """`yield from <generator expression / comprehension / sequence>`: every element is yielded"""
    fr = self.frames[-1]
    if isinstance(n.value, (ast.GeneratorExp, ast.ListComp)):
        v, count = self.comprehension(n.value, st, n.value.elt)
    else:
        seq = self.eval(n.value, st)
        v, count = self.iter_elem(seq, n.value, None)
    if isinstance(v, Num) and v.fsf is not None:
        self.events.append(('axis-value', v.fsf, self.cur.qname if self.cur else ''))
    if fr.yields is None:
        fr.yields = []
        fr.ycounts = {}
    fr.yields.append(v.with_taint(self.pc) if self.pc else v)
    cnt = count
    for ln in fr.loopn:
        cnt = cnt.mul(ln) if (cnt is not None and ln is not None) else None
    fr.ycounts[id(n)] = cnt
    return Const(None)


def e_Starred(self, n, st):
    return self.eval(n.value, st)


def e_Slice(self, n, st):
    return SliceV(self.eval(n.lower, st) if n.lower else None, self.eval(n.upper, st) if n.upper else None,
                  self.eval(n.step, st) if n.step else None)


def e_IfExp(self, n, st):
    cv = self.eval(n.test, st)
    c = self.truth(cv, n)
    if c is True:
        return self.eval(n.body, st)
    if c is False:
        return self.eval(n.orelse, st)
    r = join(self.eval(n.body, st), self.eval(n.orelse, st))
    return r.with_taint(taint_of(cv)) if taint_of(cv) else r


FINFO = {'eps': 2.220446049250313e-16, 'tiny': 2.2250738585072014e-308, 'smallest_normal': 2.2250738585072014e-308,
         'max': 1.7976931348623157e+308, 'min': -1.7976931348623157e+308, 'resolution': 1e-15, 'epsneg': 1.1102230246251565e-16}


def truth(self, v, node=None):
    """True / False / None(unknown)"""
    if isinstance(v, Const):
        try:
            return bool(v.v)
        except Exception:
            return None
    if isinstance(v, (Ref, FuncV, ClsV, ModV, BoundMethod)):
        return True
    if isinstance(v, Tup):
        return len(v.items) > 0
    if isinstance(v, IntV) and v.a is not None:
        sg = v.a.sign()          # an integer that is non-zero (zero) for every admissible size
        if sg is not None:
            return sg != 0
    return None


def e_BoolOp(self, n, st):
    is_and = isinstance(n.op, ast.And)
    variant = False
    taint = frozenset()
    unknown = False
    last = None
    for e in n.values:
        v = self.eval(e, st)
        last = v
        t = self.truth(v, e)
        taint |= taint_of(v)
        if t is None:
            unknown = True
            variant = variant or getattr(v, 'variant', False)
            continue
        if is_and and t is False:
            return v if not unknown else Const(False, taint)
        if (not is_and) and t is True:
            return v if not unknown else BoolV(variant, taint)
    if not unknown:
        return last
    return BoolV(variant, taint)


def e_UnaryOp(self, n, st):
    v = self.eval(n.operand, st)
    return unary_value(self, n.op, v, n)


def unary_value(self, op, v, n):
    """-v / +v / not v on an abstract value (shared by the operator and numpy.negative / numpy.positive)"""
    class _N:      # the code below reads n.op only
        pass
    n = _N()
    n.op = op
    if isinstance(n.op, ast.Not):
        t = self.truth(v, n)
        if t is not None:
            return Const(not t, taint_of(v))
        return BoolV(getattr(v, 'variant', False), taint_of(v))
    if isinstance(v, Const) and isinstance(v.v, (int, float, complex)) and not isinstance(v.v, bool):
        return Const(-v.v if isinstance(n.op, ast.USub) else v.v, v.taint)
    if isinstance(v, IntV):
        if isinstance(n.op, ast.USub):
            return IntV(-v.a if v.a is not None else None, v.taint, v.nfft)
        return v
    nv = tonum(v)
    if nv is not None:
        r = nv.copy()
        r.intdt = nv.intdt
        r.fsf = nv.fsf if not isinstance(n.op, ast.USub) else (-nv.fsf if nv.fsf is not None else None)
        if isinstance(n.op, ast.USub):
            r.nonneg = False
            r.ex = (-nv.ex) if nv.ex is not None else None
            r.neg = not nv.neg
            r.base_uid = nv.base_uid if nv.base_uid is not None else nv.uid
            if isinstance(v, Num) and v.seg is not None:
                from . import segmap
                r.seg = segmap.scale(v.seg, -1)
                r.segax = v.segax
        return r
    return TopV('unary', taint_of(v))


# ----------------------------------------------------------------------------- arithmetic
def _const_binop(op, a, b):
    try:
        if isinstance(op, ast.Add):
            return a + b
        if isinstance(op, ast.Sub):
            return a - b
        if isinstance(op, ast.Mult):
            return a * b
        if isinstance(op, ast.Div):
            return a / b
        if isinstance(op, ast.FloorDiv):
            return a // b
        if isinstance(op, ast.Mod):
            return a % b
        if isinstance(op, ast.Pow):
            return a ** b
    except Exception:
        return None
    return None


def _isnumconst(v):
    return isinstance(v, Const) and isinstance(v.v, (int, float, complex)) and not isinstance(v.v, bool)


def _asint(v):
    """IntV view of an integer-valued value, else None"""
    if isinstance(v, IntV):
        return v
    if isinstance(v, Const) and isinstance(v.v, int) and not isinstance(v.v, bool):
        return IntV(v.v, v.taint)
    return None


def num_add(self, a, b, node, what='add', sub=False):
    """typing of a+b / a-b / compare / store: equal D1 exponents required"""
    taint = a.taint | b.taint
    if a.zero and b.zero:
        r = a.copy()
    elif a.zero:
        r = b.copy()
    elif b.zero:
        r = a.copy()
    elif (a.log is None) != (b.log is None):
        L, M = (a, b) if a.log is not None else (b, a)
        r = L.copy()
        bad = [c for c in COMPS if dzero(M.deg[c]) is False]
        if bad:
            self.conflict(what, ','.join(bad), 'additive (log-type) value L%s combined with a multiplicative value of '
                          'degree %s' % (_fmtlog(L.log), _fmtdeg(M.deg)), node)
            r.log = {c: TOP for c in COMPS}
    elif a.log is not None:
        r = a.copy()
        if what == 'add':
            r.log = {c: (dadd(a.log.get(c, F(0)), b.log.get(c, F(0))) if not sub else
                         dadd(a.log.get(c, F(0)), dneg(b.log.get(c, F(0))))) for c in COMPS}
        else:
            for c in COMPS:
                x, y = a.log.get(c, F(0)), b.log.get(c, F(0))
                if deq(x, y) is False:
                    self.conflict(what, c, 'additive types differ: shift %s vs %s' % (x, y), node)
                    r.log[c] = TOP
                elif deq(x, y) is None:
                    r.log[c] = TOP
    else:
        r = Num()
        size_arith = a.ex is not None and b.ex is not None
        for c in COMPS:
            x, y = a.deg[c], b.deg[c]
            if c == 'nfft' and size_arith:
                res_ex = (a.ex - b.ex) if sub else (a.ex + b.ex)
                r.deg[c] = nfft_degree(res_ex)
                continue
            e = deq(x, y)
            if e is None:
                r.deg[c] = TOP
            elif e is False:
                self.conflict(what, c, 'exponent of %s: %s vs %s' % (c, x, y), node)
                r.deg[c] = TOP
            else:
                r.deg[c] = x
    r.taint = taint
    r.shape = broadcast(a.shape, b.shape)
    r.cplx = None if (a.cplx is None or b.cplx is None) else (a.cplx or b.cplx)
    if a.zero and not b.zero and b.cplx is not None and a.cplx is not None:
        r.cplx = a.cplx or b.cplx
    r.rv = True if (a.rv and b.rv) else None
    r.zero = a.zero and b.zero
    r.nonneg = (a.nonneg and b.nonneg) and not sub
    r.ex = None
    r.sx = None
    if self.d4 and what in ('add', 'compare'):
        from . import charge as Q
        qb = Q.q_neg(b.q) if False else b.q
        r.q = Q.q_same(self, a.q, qb, node, what)
    r.sz = sz_join(a, b) if what in ('add', 'store', 'concat') else sp.Integer(1)
    if a.ex is not None and b.ex is not None:
        r.ex = (a.ex - b.ex) if sub else (a.ex + b.ex)
        r.sz = r.ex.to_sympy() if not r.ex.is_const() else sp.Integer(1)
        if r.shape == () and r.ex.nonneg():
            r.nonneg = True          # an exact size expression that is >= 0 for all admissible sizes (m - 1 with m >= 2)
    elif r.shape == () and what == 'add':
        sa, sb = sym_of(a), sym_of(b)
        if sa is not None and sb is not None:
            r.sx = sa - sb if sub else sa + sb
    r.role = None
    if what == 'add' and not a.zero and not b.zero:
        # sign parity of the two terms relative to the un-negated data they derive from (see Num.neg)
        sb_ = bool(b.neg) != bool(sub)
        self.events.append(('sum-signs', node, bool(a.neg), sb_, a.deg.get('s'), r.shape, self.cur.qname if self.cur else ''))
        r.neg = bool(a.neg) if bool(a.neg) == sb_ else False
    return r


def _fmtdeg(d):
    return '{' + ','.join('%s:%s' % (c, d[c]) for c in COMPS if dzero(d[c]) is not True) + '}'


def _fmtlog(l):
    return '{' + ','.join('%s:%s' % (c, l.get(c)) for c in COMPS if dzero(l.get(c, F(0))) is not True) + '}'


def num_mul(self, a, b, node, div=False, va=None, vb=None):
    taint = a.taint | b.taint
    shape = broadcast(a.shape, b.shape)
    cplx = None if (a.cplx is None or b.cplx is None) else (a.cplx or b.cplx)
    rv = True if (a.rv and b.rv) else None
    if a.zero or (b.zero and not div):
        r = Num(zero=True, shape=shape, cplx=cplx, taint=taint)
        r.ex = Aff(0) if shape == () else None
        r.q = 'any'
        return r
    if div and b.zero:
        return Num(top_deg(), shape, cplx, taint=taint)
    if a.log is not None or b.log is not None:
        if a.log is not None and b.log is not None:
            return Num(top_deg(), shape, cplx, taint=taint)
        L, M, Mv = (a, b, vb) if a.log is not None else (b, a, va)
        if div and L is b:
            return Num(top_deg(), shape, cplx, taint=taint)
        if any(dzero(M.deg[c]) is False for c in COMPS if c != 'nfft'):
            self.conflict('add', 's', 'log-type value multiplied by a value of non-zero degree', node)
            return Num(top_deg(), shape, cplx, taint=taint)
        k = sym_of(M)
        if k is None and Mv is not None:
            k = sym_of(Mv)
        r = L.copy(shape=shape, taint=taint)
        if k is None:
            r.log = {c: (F(0) if dzero(L.log.get(c, F(0))) else TOP) for c in COMPS}
        else:
            kk = dnum(F(int(k.p), int(k.q))) if k.is_Rational else k
            r.log = {c: (dmul(L.log.get(c, F(0)), (1 / kk) if div else kk)) for c in COMPS}
        r.nonneg = False
        r.ex = None
        return r
    r = Num(shape=shape, cplx=cplx, taint=taint, rv=rv)
    for x, y in ((a, b), (b, a)):
        if x.ex is not None and pure_nfft_nonhomogeneous(x.ex) and (y.is_array or any(
                dzero(y.deg[c]) is False for c in ('s', 'hz', 'win', 'sy'))):
            self.conflict('mul', 'nfft', 'value scaled by %s, a function of NFFT that is not proportional to NFFT' % x.ex, node)
    for c in COMPS:
        r.deg[c] = dadd(a.deg[c], dneg(b.deg[c]) if div else b.deg[c])
    if self.d4:
        from . import charge as Q
        r.q = Q.q_mul(a.q, b.q, div)
    if a.sz is None or b.sz is None:
        r.sz = None
    elif b.sz is sp.S.One:
        r.sz = a.sz
    elif a.sz is sp.S.One and not div:
        r.sz = b.sz
    else:
        try:
            r.sz = sp.cancel(a.sz / b.sz) if div else sp.cancel(a.sz * b.sz)
        except Exception:
            r.sz = None
    r.nonneg = a.nonneg and b.nonneg
    r.neg = bool(a.neg) != bool(b.neg)          # sign parity of a product / quotient
    if not div and ((a.conj_of is not None and a.conj_of == b.uid) or (b.conj_of is not None and b.conj_of == a.uid)):
        # z * conj(z) = |z|^2: real and non-negative whatever the dtype
        r.rv = True
        r.nonneg = True
    if a.ex is not None and b.ex is not None:
        if div:
            if b.ex.is_const() and b.ex.c != 0:
                r.ex = a.ex.scale(1 / b.ex.c)
        else:
            r.ex = a.ex.mul(b.ex)
        if r.ex is not None:
            r.deg['nfft'] = nfft_degree(r.ex)
    if r.ex is None and shape == ():
        sa, sb = sym_of(a), sym_of(b)
        if sa is not None and sb is not None:
            try:
                r.sx = sp.cancel(sa / sb) if div else sp.expand(sa * sb)
            except Exception:
                r.sx = None
    return r


def num_pow(self, a, b, node, vb=None):
    taint = a.taint | b.taint
    shape = broadcast(a.shape, b.shape)
    if a.zero:
        return a.copy(shape=shape, taint=taint)
    # exponent value
    k = None
    if b.ex is not None:
        k = b.ex.c if b.ex.is_const() else b.ex.to_sympy()
    elif b.sx is not None:
        k = b.sx
    expo_deg0 = all(dzero(b.deg[c]) is True for c in COMPS if c != 'nfft') and b.log is None
    base_deg0 = all(dzero(a.deg[c]) is True for c in COMPS) and a.log is None
    r = Num(shape=shape, cplx=a.cplx if (k is not None and not _sym(k) and F(k).denominator == 1) else
            (a.cplx if a.nonneg else None), taint=taint)
    if a.log is not None or b.log is not None or not expo_deg0:
        r.deg = top_deg()
        if not expo_deg0 and not base_deg0:
            pass
        elif not expo_deg0:
            # constant ** (data-dependent exponent): the result is not homogeneous
            r.deg = top_deg()
        return r
    if base_deg0:
        r.deg = zero_deg()
    elif k is None:
        r.deg = top_deg()
    else:
        for c in COMPS:
            r.deg[c] = dmul(a.deg[c], k)
    if self.d4:
        from . import charge as Q
        if a.q == 'any':
            r.q = 'any'
        elif a.q is not None and k is not None and not _sym(k) and F(k).denominator == 1:
            kk = int(k)
            r.q = Q.lin(a.q[1] * kk, a.q[2].scale(kk)) if Q.is_lin(a.q) else a.q.scale(kk)
        elif isinstance(a.q, Aff) and a.q == Aff(0):
            r.q = Aff(0)
        else:
            r.q = None
    if a.sz is sp.S.One:
        r.sz = sp.S.One
    elif a.sz is None or k is None:
        r.sz = None
    else:
        try:
            r.sz = sp.powsimp(a.sz ** (k if _sym(k) else sp.Rational(F(k).numerator, F(k).denominator)))
        except Exception:
            r.sz = None
    even = k is not None and not _sym(k) and F(k).denominator == 1 and int(k) % 2 == 0
    r.rv = True if a.rv else None
    r.nonneg = a.nonneg or (even and bool(a.rv))
    if a.ex is not None and k is not None and not _sym(k) and a.ex.is_const() and F(k).denominator == 1 and 0 <= int(k) <= 8:
        r.ex = Aff(a.ex.c ** int(k))
    return r


def _sym(x):
    return isinstance(x, sp.Basic)


def binop(self, op, va, vb, node):
    r_ = _binop(self, op, va, vb, node)
    _int_dtype(self, op, va, vb, r_, node)
    _fs_fraction(op, va, vb, r_)
    _centred(op, va, vb, r_)
    _pow2_bound(op, va, vb, r_)
    if isinstance(op, ast.Pow) and isinstance(r_, Num) and getattr(va, 'abs_label', None) and isinstance(vb, Const) \
            and isinstance(vb.v, (int, float)) and vb.v == int(vb.v) and int(vb.v) % 2 == 0 and isinstance(va, Num) and va.cplx is False:
        r_.taint = r_.taint - frozenset([va.abs_label])          # |x|**2 == x**2 for real x: the modulus leaves no trace
    return r_


def _pow2_bound(op, va, vb, r):
    """2 ** ceil(log2(n)) >= n and 2 ** floor(log2(n)) <= n (also written 1 << k): the size bound travels with the result"""
    two = isinstance(va, Const) and va.v in (2, 2.0) and isinstance(op, ast.Pow)
    one = isinstance(va, Const) and va.v == 1 and isinstance(op, ast.LShift)
    if not (two or one) or isinstance(r, Const):
        return
    try:
        if getattr(vb, 'clog2', None) is not None:
            r.lb = vb.clog2
        if getattr(vb, 'flog2', None) is not None:
            r.ub = vb.flog2
    except AttributeError:
        pass


def _centred(op, va, vb, r):
    """mean-removed moments (numpy.var / std: label CEN:n in the dependence set) stay mean-removed under products with
    anything and sums with other mean-removed or data-free values; adding a data-dependent value that is not mean-removed
    (var(x) + |mean(x)|**2 is the mean square again) ends the label"""
    if not isinstance(op, (ast.Add, ast.Sub)) or not isinstance(r, Num):
        return
    ta, tb = taint_of(va), taint_of(vb)
    ca = frozenset(l for l in ta if isinstance(l, str) and l.startswith('CEN:'))
    cb = frozenset(l for l in tb if isinstance(l, str) and l.startswith('CEN:'))
    if ca and not cb and 'x' in tb:
        r.taint = r.taint - ca
    elif cb and not ca and 'x' in ta:
        r.taint = r.taint - cb


def _fs_fraction(op, va, vb, r):
    """frequency values as exact multiples of the sampling rate: (index * df), (-sampling/2 + a*df), ..."""
    if not isinstance(r, Num) or r.shape != ():
        return
    fa = va.fsf if isinstance(va, Num) else None
    fb = vb.fsf if isinstance(vb, Num) else None
    if fa is None and fb is None:
        return
    try:
        if isinstance(op, (ast.Add, ast.Sub)):
            if fa is not None and fb is not None:
                r.fsf = sp.cancel(fa - fb if isinstance(op, ast.Sub) else fa + fb)
        elif isinstance(op, ast.Mult):
            if fa is not None and fb is None and sym_of(vb) is not None:
                r.fsf = sp.cancel(fa * sym_of(vb))
            elif fb is not None and fa is None and sym_of(va) is not None:
                r.fsf = sp.cancel(fb * sym_of(va))
        elif isinstance(op, ast.Div):
            if fa is not None and fb is None and sym_of(vb) is not None:
                r.fsf = sp.cancel(fa / sym_of(vb))
            elif fa is not None and fb is not None and fb != 0:
                # the quotient of two frequencies is a pure number, known exactly -- but it is COMPUTED in floating point from two
                # non-integers (sampling/2 over sampling/NFFT), so it can land an ulp below the exact value
                r.fquot = sp.cancel(fa / fb)
    except Exception:
        r.fsf = None


def _int_dtype(self, op, va, vb, r, node):
    """integer-dtype tracking: sums / products / integer powers of integer-typed data stay in that (narrow) dtype"""
    if not isinstance(r, Num):
        return
    def isint(v):
        return (isinstance(v, Num) and v.intdt) or isinstance(v, IntV) or (isinstance(v, Const) and isinstance(v.v, int) and not isinstance(v.v, bool))
    def data(v):
        return isinstance(v, Num) and v.intdt
    if isinstance(op, ast.Div) and (data(va) or data(vb)):
        r.divd = True          # a quotient of integer-typed samples: storing it back into their dtype truncates it
    if not (data(va) or data(vb)) or not (isint(va) and isint(vb)):
        return
    if isinstance(op, (ast.Add, ast.Sub, ast.Mult)):
        r.intdt = True
        if isinstance(op, ast.Mult) and data(va) and data(vb):
            self.events.append(('int-arith', node, 'product', self.cur.qname if self.cur else ''))
    elif isinstance(op, ast.Pow) and data(va) and not data(vb):
        r.intdt = True
        e = vb.v if isinstance(vb, Const) else None
        if e is None or e >= 2:
            self.events.append(('int-arith', node, 'power', self.cur.qname if self.cur else ''))


def _binop(self, op, va, vb, node):
    if isinstance(op, ast.Sub) and isinstance(va, Num) and isinstance(vb, Num) and va.is_array and va.mid is not None \
            and va.mid == vb.mid and va.whole and vb.whole:
        # D8: both operands are the same storage -- the difference is identically zero
        self.events.append(('self-diff', node, self.cur.qname if self.cur else ''))
    # python constants
    if _isnumconst(va) and _isnumconst(vb):
        r = _const_binop(op, va.v, vb.v)
        if r is not None and not isinstance(r, complex) or isinstance(r, complex):
            if r is not None:
                return Const(r, va.taint | vb.taint)
    if isinstance(va, Const) and isinstance(vb, Const) and isinstance(va.v, str) and isinstance(op, ast.Mod):
        return StrV('fmt', va.taint)
    if isinstance(va, (Const, StrV)) and (isinstance(getattr(va, 'v', None), str) or isinstance(va, StrV)):
        return StrV('str', taint_of(va) | taint_of(vb))
    # list repetition  [0]*(m+1)
    if isinstance(op, ast.Mult):
        for x, y in ((va, vb), (vb, va)):
            if isinstance(x, (Tup, Const)) and (isinstance(x, Tup) or isinstance(x.v, list)) and _asint(y) is not None:
                items = x.items if isinstance(x, Tup) else [Const(i) for i in x.v]
                e = None
                for i in items:
                    e = join(e, i)
                n = _asint(y).a
                rs = SeqV(e, n.scale(len(items)) if n is not None else None, taint_of(x) | taint_of(y))
                if all(isinstance(i, Const) and isinstance(i.v, (int, float, complex)) and i.v == 0 for i in items):
                    rs.qarr = 'any'          # a list of zeros: the polymorphic start value of accumulators kept by position
                return rs
    if isinstance(op, ast.Add) and isinstance(va, (Tup, SeqV)) and isinstance(vb, (Tup, SeqV)):
        if isinstance(va, Tup) and isinstance(vb, Tup):
            return Tup(va.items + vb.items, va.taint | vb.taint, va.mutable)
        return join(va, vb)
    # integers
    ia, ib = _asint(va), _asint(vb)
    if ia is not None and ib is not None and not isinstance(op, (ast.Div, ast.Pow)):
        t = ia.taint | ib.taint
        a, b = ia.a, ib.a
        res = None
        nf = F(0)
        if isinstance(op, ast.Add):
            res = (a + b) if (a is not None and b is not None) else None
        elif isinstance(op, ast.Sub):
            res = (a - b) if (a is not None and b is not None) else None
        elif isinstance(op, ast.Mult):
            res = a.mul(b) if (a is not None and b is not None) else None
        elif isinstance(op, ast.FloorDiv):
            if a is not None and b is not None and b.is_const() and b.c != 0:
                res = a.scale(1 / b.c).floor()
                if res is None and b.c == 2:
                    res = _half_symbol(a)
        elif isinstance(op, ast.RShift):
            # x >> c == x // 2**c for integers
            if a is not None and b is not None and b.is_const() and b.c >= 0 and b.c.denominator == 1:
                res = a.scale(F(1, 2 ** int(b.c))).floor()
                if res is None and b.c == 1:
                    res = _half_symbol(a)
        elif isinstance(op, ast.LShift):
            if a is not None and b is not None and b.is_const() and b.c >= 0 and b.c.denominator == 1:
                res = a.scale(2 ** int(b.c))
        elif isinstance(op, ast.Mod):
            if a is not None and b is not None and b.is_const() and b.c > 0:
                q = a.scale(1 / b.c)
                fl = q.floor()
                if fl is not None:
                    res = a - fl.scale(b.c)
        if res is not None and res.is_const() and res.c.denominator == 1:
            return Const(int(res.c), t)
        sx = None
        if res is None and isinstance(op, ast.Mult):
            sa, sb = sym_of(ia), sym_of(ib)
            if sa is not None and sb is not None:
                sx = sp.expand(sa * sb)
        return IntV(res, t, nf, sx=sx)
    na, nb = tonum(va), tonum(vb)
    if na is None or nb is None:
        if isinstance(va, TopV) or isinstance(vb, TopV):
            return TopV('binop', taint_of(va) | taint_of(vb))
        self.unsupported('binop on %s, %s' % (type(va).__name__, type(vb).__name__), node)
        return TopV('binop', taint_of(va) | taint_of(vb))
    if isinstance(op, ast.Add):
        return num_add(self, na, nb, node, 'add')
    if isinstance(op, ast.Sub):
        return num_add(self, na, nb, node, 'add', sub=True)
    if isinstance(op, ast.MatMult):
        # a @ b is numpy.dot for vectors and matrices
        from .prims import p_bilinear
        return p_bilinear(self, 'numpy.dot', [va, vb], {}, node, None)
    if isinstance(op, ast.Mult):
        return num_mul(self, na, nb, node, va=va, vb=vb)
    if isinstance(op, (ast.Div, ast.FloorDiv)):
        return num_mul(self, na, nb, node, div=True, va=va, vb=vb)
    if isinstance(op, ast.Pow):
        return num_pow(self, na, nb, node, vb)
    if isinstance(op, ast.Mod):
        r = na.copy(taint=na.taint | nb.taint)
        r.ex = None
        return r
    self.unsupported('operator %s' % type(op).__name__, node)
    return TopV('binop')


def _rational_const(v):
    """exact rational value of a constant scalar operand, else None"""
    if isinstance(v, Const) and isinstance(v.v, (int, float)) and not isinstance(v.v, bool):
        a = aff(v.v)
        return a.c if a is not None else None
    if isinstance(v, Num) and v.shape == () and v.ex is not None and v.ex.is_const() and v.seg is None:
        return v.ex.c
    return None


def seg_structure(segs):
    from . import segmap
    return [(repr(x.n), repr(x.start), x.stride if x.n != Aff(1) else 0) for x in segmap.normalise(segs)]


def relabel(segs):
    from . import segmap
    return [segmap.Seg(x.n, '*', x.start, x.stride, 1) for x in segs]


def _axis_from_end(v):
    return (len(v.shape) - v.segax) if v.shape is not None else None


def elementwise_seg(op, va, vb, r):
    """index map of an elementwise result (elementwise operations never permute slots)"""
    from . import segmap
    if not isinstance(r, Num):
        return
    sa = va.seg if isinstance(va, Num) else None
    sb = vb.seg if isinstance(vb, Num) else None
    if sa is None and sb is None:
        return
    if sa is not None and sb is not None and va.is_array and vb.is_array:
        if seg_structure(sa) == seg_structure(sb) and _axis_from_end(va) == _axis_from_end(vb):
            _set_seg(r, relabel(segmap.normalise(sa)), _axis_from_end(va))
        return
    if sa is not None and sb is not None:
        arr = va if va.is_array else (vb if vb.is_array else None)
        if arr is not None:
            _set_seg(r, relabel(arr.seg), _axis_from_end(arr))
        return
    segv, other, seg = (va, vb, sa) if sa is not None else (vb, va, sb)
    on = tonum(other) if not isinstance(other, (Tup, SeqV)) else None
    if on is None:
        return
    e = _axis_from_end(segv)
    k = _rational_const(other)
    if k is not None and isinstance(op, ast.Mult):
        _set_seg(r, segmap.scale(seg, k), e)
    elif k is not None and k != 0 and isinstance(op, (ast.Div,)) and segv is va:
        _set_seg(r, segmap.scale(seg, 1 / k), e)
    elif on.zero and on.is_array and isinstance(op, ast.Add):
        _set_seg(r, list(seg), e)
    else:
        _set_seg(r, relabel(seg), e)


def _set_seg(r, seg, from_end):
    """attach the map if the result really has the mapped axis with the mapped length"""
    from . import segmap
    if seg is None or r.shape is None:
        return
    if r.shape == ():
        if segmap.length(seg) == Aff(1):
            r.seg = seg
            r.segax = 0
        return
    if from_end is None:
        return
    ax = len(r.shape) - from_end
    if ax < 0 or ax >= len(r.shape) or r.shape[ax] is None:
        return
    if r.shape[ax] != segmap.length(seg):
        return
    r.seg = seg
    r.segax = ax


def origin_of(va, vb, r, op=None):
    """origin position of an elementwise combination of arrays"""
    if not isinstance(r, Num):
        return
    if isinstance(op, (ast.Add, ast.Sub)):
        # index vector +- integer: the zero of the values moves (value = index - org  =>  value - c = index - (org + c))
        arr_, sc_ = (va, vb) if (isinstance(va, Num) and va.is_array) else (vb, va)
        if isinstance(arr_, Num) and arr_.is_array and arr_.org is not None and arr_.org != 'conflict' \
                and not (isinstance(sc_, Num) and sc_.is_array) and getattr(arr_, 'idx', False) \
                and (arr_ is va or isinstance(op, ast.Add)):
            c = _asint(sc_)
            ca_ = c.a if c is not None else None
            if ca_ is None and isinstance(sc_, Num) and sc_.shape == () and sc_.ex is not None and sc_.ex.is_integral():
                ca_ = sc_.ex          # float(N - 1): an integer held as a float
            if ca_ is not None:
                r.org = arr_.org + (ca_ if isinstance(op, ast.Sub) else -ca_)
                r.idx = True
            else:
                r.org = None        # an index vector shifted by something that is not a known integer
            return
    oa = va.org if isinstance(va, Num) and va.is_array else None
    ob = vb.org if isinstance(vb, Num) and vb.is_array else None
    a_arr = isinstance(va, Num) and va.is_array
    b_arr = isinstance(vb, Num) and vb.is_array
    if a_arr and b_arr:
        if oa is None or ob is None:
            r.org = None
        elif oa == 'conflict' or ob == 'conflict' or oa != ob:
            r.org = 'conflict'
        else:
            r.org = oa
    elif a_arr:
        r.org = oa
    elif b_arr:
        r.org = ob


def e_BinOp(self, n, st):
    a = self.eval(n.left, st)
    b = self.eval(n.right, st)
    r = self.binop(n.op, a, b, n)
    elementwise_seg(n.op, a, b, r)
    origin_of(a, b, r, n.op)
    grid_of(a, b, r, n.op)
    return r


def grid_of(va, vb, r, op):
    """integer index grids under + and - (with other grids or integers): the affine form is added component-wise"""
    if not isinstance(r, Num) or not isinstance(op, (ast.Add, ast.Sub)):
        return
    def form(v):
        if isinstance(v, Num) and v.is_array:
            return v.grid
        i = _asint(v)
        if i is not None and i.a is not None:
            return (F(0), F(0), i.a)
        return None
    fa, fb = form(va), form(vb)
    if fa is None or fb is None or not ((isinstance(va, Num) and va.grid is not None) or (isinstance(vb, Num) and vb.grid is not None)):
        return
    sgn = 1 if isinstance(op, ast.Add) else -1
    r.grid = (fa[0] + sgn * fb[0], fa[1] + sgn * fb[1], fa[2] + fb[2].scale(sgn))


# ----------------------------------------------------------------------------- comparisons
def compare_vals(self, op, a, b, node):
    t = taint_of(a) | taint_of(b)
    if isinstance(a, Const) and isinstance(b, Const):
        try:
            if isinstance(op, ast.Is):
                return Const(a.v is b.v if not isinstance(a.v, (int, float, str)) else a.v == b.v and type(a.v) == type(b.v), t)
            if isinstance(op, ast.IsNot):
                return Const(not (a.v is b.v if not isinstance(a.v, (int, float, str)) else a.v == b.v and type(a.v) == type(b.v)), t)
            if isinstance(op, ast.Eq):
                return Const(a.v == b.v, t)
            if isinstance(op, ast.NotEq):
                return Const(a.v != b.v, t)
            if isinstance(op, ast.In):
                return Const(a.v in b.v, t)
            if isinstance(op, ast.NotIn):
                return Const(a.v not in b.v, t)
            if isinstance(op, ast.Lt):
                return Const(a.v < b.v, t)
            if isinstance(op, ast.LtE):
                return Const(a.v <= b.v, t)
            if isinstance(op, ast.Gt):
                return Const(a.v > b.v, t)
            if isinstance(op, ast.GtE):
                return Const(a.v >= b.v, t)
        except Exception:
            return BoolV(False, t)
    # a context may state that two of its symbolic inputs are different values (`new.differs_from = {uid of the old one}`)
    if isinstance(op, (ast.Eq, ast.NotEq)) and isinstance(a, Num) and isinstance(b, Num):
        if a.uid in getattr(b, 'differs_from', ()) or b.uid in getattr(a, 'differs_from', ()):
            return Const(isinstance(op, ast.NotEq), t)
    # a number never equals None
    if isinstance(op, (ast.Eq, ast.NotEq)):
        for x, y in ((a, b), (b, a)):
            if isinstance(y, Const) and y.v is None and isinstance(x, (Num, IntV)):
                return Const(isinstance(op, ast.NotEq), t)
    # identity / None tests
    if isinstance(op, (ast.Is, ast.IsNot)):
        neg = isinstance(op, ast.IsNot)
        for x, y in ((a, b), (b, a)):
            if isinstance(y, Const) and y.v is None:
                if isinstance(x, (TopV,)):
                    return BoolV(False, t)
                return Const(neg, t)          # x is a non-None abstract value
            if isinstance(y, Const) and isinstance(y.v, bool):
                if isinstance(x, BoolV):
                    return BoolV(x.variant, t)
                if isinstance(x, (Num, IntV, StrV, Tup, Ref)):
                    return Const(neg, t)
        return BoolV(False, t)
    # membership
    if isinstance(op, (ast.In, ast.NotIn)):
        neg = isinstance(op, ast.NotIn)
        if isinstance(a, Const) and isinstance(b, Tup):
            if all(isinstance(i, Const) for i in b.items):
                r = any(i.v == a.v for i in b.items)
                return Const(r != neg, t)
        if isinstance(a, StrV) and a.choices and isinstance(b, Const):
            try:
                rs = set(c in b.v for c in a.choices)
                if len(rs) == 1:
                    return Const(rs.pop() != neg, t)
            except Exception:
                pass
        return BoolV(False, t)
    # strings / types
    if isinstance(a, (StrV,)) or isinstance(b, (StrV,)) or (isinstance(a, Const) and isinstance(a.v, str)) or \
            (isinstance(b, Const) and isinstance(b.v, str)):
        for x, y in ((a, b), (b, a)):
            if isinstance(y, Const) and isinstance(y.v, str) and isinstance(x, (Num, IntV, Ref)):
                # number compared with a string literal: never equal
                return Const(isinstance(op, ast.NotEq), t)
            if isinstance(y, Const) and isinstance(y.v, str) and isinstance(x, Const):
                return Const((x.v == y.v) == isinstance(op, ast.Eq), t)
            if isinstance(y, Const) and isinstance(y.v, str) and isinstance(x, StrV) and x.choices:
                if y.v not in x.choices:
                    return Const(isinstance(op, ast.NotEq), t)
        return BoolV(False, t)
    if isinstance(a, (ExtV, ClsV, Opaque)) or isinstance(b, (ExtV, ClsV, Opaque)):
        if isinstance(a, ExtV) and isinstance(b, ExtV):
            return Const((a.dotted == b.dotted) == isinstance(op, ast.Eq), t)
        for x, y in ((a, b), (b, a)):
            if isinstance(x, Opaque) and x.what.startswith('dtype:') and isinstance(y, ExtV) and x.what != 'dtype:?' \
                    and y.base in ('complex', 'float', 'complex128', 'float64', 'complex64'):
                if x.what == 'dtype:complex64':
                    same = y.base == 'complex64'          # numpy: dtype('complex64') == complex is False
                else:
                    same = (x.what == 'dtype:complex') == y.base.startswith('complex')
                return Const(same == isinstance(op, ast.Eq), t)
        if isinstance(a, Opaque) and isinstance(b, ExtV) and a.what.startswith('type:'):
            same = a.what[5:] == b.base
            return Const(same == isinstance(op, ast.Eq), t)
        return BoolV(False, t)
    # None compared with == / !=
    for x, y in ((a, b), (b, a)):
        if isinstance(y, Const) and y.v is None and isinstance(op, (ast.Eq, ast.NotEq)):
            if isinstance(x, TopV):
                return BoolV(False, t)
            return Const(isinstance(op, ast.NotEq), t)
    # integers
    ia, ib = _asint(a), _asint(b)
    if ia is not None and ib is not None:
        s = aff_cmp(ia.a, ib.a)
        if s is not None:
            r = {ast.Lt: s < 0, ast.LtE: s <= 0, ast.Gt: s > 0, ast.GtE: s >= 0, ast.Eq: s == 0, ast.NotEq: s != 0}.get(type(op))
            if r is not None:
                return Const(r, t)
        if isinstance(op, (ast.Eq, ast.NotEq)) and ia.a is not None and ib.a is not None:
            d = ia.a - ib.a
            if not d.is_integral() and all(v.denominator == 1 for v in d.t.values()):
                return Const(isinstance(op, ast.NotEq), t)
        return BoolV(False, t)
    if isinstance(a, (Tup, SeqV)) or isinstance(b, (Tup, SeqV)):
        na, nb = tonum(a), tonum(b)
        if na is None or nb is None:
            return BoolV(False, t)
    na, nb = tonum(a), tonum(b)
    if na is None or nb is None:
        return BoolV(False, t)
    # exact values
    if na.ex is not None and nb.ex is not None and na.shape == () and nb.shape == ():
        s = aff_cmp(na.ex, nb.ex)
        if s is not None:
            r = {ast.Lt: s < 0, ast.LtE: s <= 0, ast.Gt: s > 0, ast.GtE: s >= 0, ast.Eq: s == 0, ast.NotEq: s != 0}.get(type(op))
            if r is not None:
                return Const(r, t)
    labels = frozenset()
    if not self.in_assert:
        cap = []
        save = self._capture
        self._capture = cap
        try:
            if na.zero or nb.zero:
                v = nb if na.zero else na
                if self.d4 and v.q is not None and v.q != 'any':
                    from . import charge as Q
                    if Q.is_lin(v.q) or not Q.q_eq(v.q, Aff(0)):
                        self.conflict('compare', 'q', 'sign/zero test of a value with modulation charge %s' % Q.show(v.q), node)
                if not v.zero and v.log is None:
                    for c in ('g', 'gy'):
                        if dzero(v.deg[c]) is False:
                            self.conflict('compare', c, 'sign/zero test of a phase-carrying value (phase exponent %s)' % v.deg[c], node)
                elif v.log is not None and any(dzero(v.log.get(c, F(0))) is False for c in COMPS):
                    self.conflict('compare', 's', 'log-type value compared with the literal 0', node)
            else:
                num_add(self, na, nb, node, 'compare')
        finally:
            self._capture = save
        for c in cap:
            labels |= frozenset([self.new_variant(c.comp, 'comparison is not invariant: ' + c.msg, node)])
    r = BoolV(bool(labels), t | labels)
    if na.is_array or nb.is_array:
        m = Num(zero_deg(), broadcast(na.shape, nb.shape), False, taint=t | labels)
        m.role = 'mask'
        return m
    return r


def _int_like(v):
    i = _asint(v)
    if i is not None:
        return i.a
    if isinstance(v, Const) and isinstance(v.v, float) and v.v == int(v.v):
        return Aff(int(v.v))
    return None


def _half_symbol(a):
    """floor(a / 2) for an integer affine form of undetermined parity: a symbol h with the definition recorded in Aff.HALF, so
    that a later parity test (`a != 2*h`, `a % 2`) can replace it by a/2 resp. (a-1)/2 in its arms"""
    if not all(v.denominator == 1 for v in a.t.values()) or a.c.denominator != 1:
        return None
    # only for forms in which exactly one loop symbol has an odd coefficient (the parity of the iteration)
    odd = [s_ for s_, v in a.t.items() if v % 2 != 0]
    if len(odd) != 1 or odd[0] not in Aff.BOUNDS:
        return None
    name = 'half(%s)' % a
    Aff.HALF[name] = a
    Aff.SYM_MIN[name] = 0
    return Aff.sym(name)


def e_Compare(self, n, st):
    left = self.eval(n.left, st)
    res = None
    links = []
    for op, c in zip(n.ops, n.comparators):
        right = self.eval(c, st)
        la_, ra_ = _int_like(left), _int_like(right)
        links.append((op, la_, ra_) if la_ is not None and ra_ is not None else None)
        if len(links) == len(n.ops) and all(l_ is not None for l_ in links):
            self.cmp_affs[id(n)] = links
        r = self.compare_vals(op, left, right, n)
        if res is None:
            res = r
        else:
            ta, tb = self.truth(res), self.truth(r)
            if ta is False or tb is False:
                res = Const(False, taint_of(res) | taint_of(r))
            elif ta is True and tb is True:
                res = Const(True, taint_of(res) | taint_of(r))
            else:
                res = BoolV(getattr(res, 'variant', False) or getattr(r, 'variant', False), taint_of(res) | taint_of(r))
        left = right
    return res


# ----------------------------------------------------------------------------- attributes
def e_Attribute(self, n, st):
    v = self.eval(n.value, st)
    return attr_of(self, v, n.attr, st, n)


def attr_of(self, v, attr, st, n):
    if isinstance(v, ModV):
        s = self.prog.module_attr(v.sym, attr)
        r = sym_to_val(self, s, n)
        if r is None:
            self.unsupported('unknown module attribute %s.%s' % (v.sym.name, attr), n)
            return TopV('modattr')
        return r
    if isinstance(v, Ref):
        if v.cls is None:
            return ExtV('list.' + attr, bound=v)
        defcls = self.cur.cls if self.cur is not None else None
        return self.getattr_ref(v, attr, st, n, defcls)
    if isinstance(v, ClsV):
        m = v.cls.find_method(attr)
        if m is not None:
            return FuncV(m)
        ca = v.cls.find_attr(attr)
        if ca is not None:
            return self.eval_in_module(ca[1], ca[0].mod)
        if attr == '__name__':
            return Const(v.cls.name)
        self.unsupported('class attribute %s.%s' % (v.cls.name, attr), n)
        return TopV('clsattr')
    if isinstance(v, FuncV):
        if attr == '__defaults__':
            d = v.sym.node.args.defaults
            return Tup([self.eval_in_module(x, v.sym.mod) for x in d])
        if attr == '__name__':
            return Const(v.sym.name)
        return TopV('funcattr')
    nv = None
    if isinstance(v, (Num, IntV)) or _isnumconst(v):
        nv = tonum(v)
    if nv is not None:
        if attr in ('real', 'imag'):
            r = nv.copy(cplx=False, rv=True)
            r.ex = nv.ex if (attr == 'real' and nv.cplx is False) else None
            if not nv.zero and nv.log is None:
                for c in ('g', 'gy'):
                    if dzero(nv.deg[c]) is False:
                        self.conflict('phase', c, '.%s of a value that carries a phase (exponent %s): not covariant' %
                                      (attr, nv.deg[c]), n)
                        r.deg[c] = TOP
            if self.d4:
                from . import charge as Q
                if nv.q is None:
                    r.q = None
                elif nv.q == 'any' or (isinstance(nv.q, Aff) and Q.q_eq(nv.q, Aff(0))):
                    r.q = nv.q
                else:
                    self.conflict('phase', 'q', '.%s of a value with modulation charge %s: not shift covariant' % (attr, Q.show(nv.q)), n)
                    r.q = None
            if attr == 'real' and isinstance(v, Num) and v.seg is not None:
                r.seg = relabel(v.seg) if v.cplx is not False else list(v.seg)
                r.segax = v.segax
            if attr == 'imag':
                r.nonneg = False
                if nv.cplx is False:
                    r.zero = True
                r.conj = 'A'
            if isinstance(v, Num) and v.is_array:
                # x.real is x itself for a real array and a strided view of the storage of a complex one
                if attr == 'real':
                    self.share(r, v, whole=(nv.cplx is False))
                elif nv.cplx is True:
                    self.share(r, v, whole=False)
            return r
        if attr == 'size':
            if nv.shape is not None and all(d is not None for d in nv.shape):
                a = Aff(1)
                for d in nv.shape:
                    a = a.mul(d) if a is not None else None
                return IntV(a, frozenset()) if a is not None and not (a.is_const()) else (Const(int(a.c)) if a is not None else IntV(None))
            return IntV(None, frozenset())
        if attr == 'shape':
            if nv.shape is None:
                return SeqV(IntV(None), None)
            return Tup([IntV(d) if (d is None or not d.is_const()) else Const(int(d.c)) for d in nv.shape])
        if attr == 'ndim':
            return Const(len(nv.shape)) if nv.shape is not None else IntV(None)
        if attr == 'T':
            r = nv.copy(shape=tuple(reversed(nv.shape)) if nv.shape is not None else None)
            if isinstance(v, Num) and v.seg is not None and nv.shape is not None and len(nv.shape) in (1, 2):
                r.seg = list(v.seg)
                r.segax = (len(nv.shape) - 1 - v.segax)
            r.view_of = nv.view_of
            if nv.shape is not None and len(nv.shape) == 2 and isinstance(nv.q, tuple):
                from . import charge as Q
                r.q = Q.lin2(nv.q[2], nv.q[1], nv.q[3]) if Q.is_lin2(nv.q) else None
            self.share(r, v, whole=False)
            if nv.shape is not None and len(nv.shape) == 2:
                r.tr = not nv.tr
            return r
        if attr == 'dtype':
            if nv.cplx is True and getattr(nv, 'c64', False):
                return Opaque('dtype:complex64')
            return Opaque('dtype:' + {True: 'complex', False: 'float', None: '?'}[nv.cplx])
        if attr == 'flat':
            return nv
        if attr == 'ctypes':
            return Opaque('ctypes')
        return ExtV('ndarray.' + attr, bound=v)
    if isinstance(v, Const) and isinstance(v.v, str) or isinstance(v, StrV):
        return ExtV('str.' + attr, bound=v)
    if isinstance(v, Const) and isinstance(v.v, dict):
        return ExtV('dict.' + attr, bound=v)
    if isinstance(v, Tup) and attr in (getattr(v, 'fields', None) or ()):
        return v.items[v.fields.index(attr)]          # a field of a namedtuple
    if isinstance(v, (Tup, SeqV)) or (isinstance(v, Const) and isinstance(v.v, (list, tuple))):
        return ExtV('list.' + attr, bound=v)
    if isinstance(v, ExtV):
        d = v.dotted + '.' + attr
        if d in EXT_CONSTS:
            return Const(EXT_CONSTS[d])
        return ExtV(d)
    if isinstance(v, Opaque):
        if v.what.startswith('window:') and attr == 'data':
            return v.data
        if v.what == 'finfo:finfo' and attr in FINFO:
            return Const(FINFO[attr])
        return ExtV('opaque.' + attr, bound=v)
    if isinstance(v, TopV):
        return TopV('attr of top', v.taint)
    if isinstance(v, BoolV):
        return ExtV('ndarray.' + attr, bound=tonum(v))
    self.unsupported('attribute %s of %s' % (attr, type(v).__name__), n)
    return TopV('attr')


def _append_charge(self, name, recv, v, call, st):
    """D4: charges by position of a list grown by exactly one `name.append(v)` per iteration of the innermost range loop"""
    from . import charge as Q
    from .core import seq_charges
    loops = self.frames[-1].loops
    if not loops or not isinstance(v, Num) or v.shape != () or not isinstance(v.q, Aff):
        return None
    info = loops[-1]
    loop = info.get('node')
    lo = info.get('range_lo')
    if loop is None or lo is None or not isinstance(loop, ast.For) or not isinstance(loop.target, ast.Name):
        return None
    # exactly one append to this list per iteration: a top-level statement of the loop body, the only one in the body
    tops = [s_ for s_ in loop.body if isinstance(s_, ast.Expr) and s_.value is call]
    alls = [c_ for s_ in loop.body for c_ in ast.walk(s_) if isinstance(c_, ast.Call) and isinstance(c_.func, ast.Attribute)
            and c_.func.attr in ('append', 'extend', 'insert', 'pop', 'remove') and isinstance(c_.func.value, ast.Name) and c_.func.value.id == name]
    if len(tops) != 1 or len(alls) != 1:
        return None
    n0 = info.get('len0', {}).get(name)
    kv = st.env.get(loop.target.id)
    ka = _asint(kv)
    if n0 is None or ka is None or ka.a is None:
        return None
    pos = ka.a - lo + n0
    base = seq_charges(recv)
    if base is None:
        base = 'any' if (isinstance(recv, Tup) and not recv.items) else None
    if base is None:
        return None
    return Q.q_store_scalar(self, base, pos, v.q, call)


# ----------------------------------------------------------------------------- calls
def e_Call(self, n, st):
    f = n.func
    # list.append / ndarray.resize on a local name: rebind
    if isinstance(f, ast.Attribute) and isinstance(f.value, ast.Name) and f.value.id in st.env:
        recv = st.env[f.value.id]
        if f.attr == 'append' and isinstance(recv, (Tup, SeqV)) and len(n.args) == 1:
            v = self.eval(n.args[0], st).with_taint(self.pc)
            if isinstance(recv, Tup) and not self.frames[-1].loops:
                st.env[f.value.id] = Tup(recv.items + [v], recv.taint, True)
            else:
                e = recv.elem if isinstance(recv, SeqV) else None
                if isinstance(recv, Tup):
                    for i in recv.items:
                        e = join(e, i)
                new = SeqV(join(e, v), None, recv.taint | self.pc)
                if self.d4:
                    new.qarr = _append_charge(self, f.value.id, recv, v, n, st)
                st.env[f.value.id] = new
            return Const(None)
        if f.attr == 'resize' and isinstance(recv, Num):
            args = [self.eval(a, st) for a in n.args]
            ia = _asint(args[0]) if args else None
            fnq = self.cur.qname if self.cur else ''
            self.events.append(('store', n, recv.shape, frozenset(), frozenset(), fnq))
            self.events.append(('resize-zero', n, fnq))
            if recv.view_of:
                self.events.append(('inplace', n, recv.view_of, fnq))      # ndarray.resize works in place
            newv = recv.copy(shape=(ia.a if ia is not None else None,), taint=recv.taint | taint_of(args[0]) if args else recv.taint)
            if recv.seg is not None and ia is not None and ia.a is not None and recv.shape and recv.shape[0] is not None:
                # ndarray.resize(n) keeps the data at the front and fills the new tail with zeros
                from . import segmap
                extra = ia.a - recv.shape[0]
                newv.seg = segmap.normalise(list(recv.seg) + [segmap.Seg(extra, '0', 0, 1)])
            newv.mid, newv.whole, newv.view_of = recv.mid, recv.whole, recv.view_of
            self.events.append(('padded', n, newv, fnq))
            st.env[f.value.id] = newv
            return Const(None)
    # super(C, self).m(...)
    if isinstance(f, ast.Attribute) and isinstance(f.value, ast.Call) and isinstance(f.value.func, ast.Name) \
            and f.value.func.id == 'super':
        cur = self.cur
        selfv = st.env.get(cur.node.args.args[0].arg) if cur is not None and cur.node.args.args else None
        if isinstance(selfv, Ref) and cur.cls is not None:
            start = cur.cls
            if f.value.args and isinstance(f.value.args[0], ast.Name):
                s = self.prog.resolve(cur.mod, f.value.args[0].id)
                if isinstance(s, ClassInfo):
                    start = s
            mro = selfv.cls.mro()
            m = None
            if start in mro:
                for c in mro[mro.index(start) + 1:]:
                    if f.attr in c.methods:
                        m = FuncSym(c.mod, c.methods[f.attr], c)
                        break
            args, kwargs = eval_args(self, n, st)
            if m is None:
                return Const(None)      # object.__init__ / object.__str__
            return self.call_function(m, [selfv] + args, kwargs, st, n)
    fv = self.eval(f, st)
    args, kwargs = eval_args(self, n, st)
    if isinstance(fv, ExtV) and fv.dotted == 'builtins.eval':
        return do_eval(self, args, st, n)
    if isinstance(fv, ExtV) and fv.base in ('get', 'pop') and isinstance(fv.bound, Opaque) and fv.bound.what == 'kwargs':
        # kargs.get('name', default) on **kwargs captured as a dict of abstract values
        for fr in reversed(self.frames):
            break
        kw = None
        for k, v in st.env.items():
            if k.startswith('**'):
                kw = v
        if kw is not None and args and isinstance(args[0], Const):
            if args[0].v in kw:
                return kw[args[0].v]
            return args[1] if len(args) > 1 else Const(None)
    self.last_exit = None
    res = self.call(fv, args, kwargs, n, st)
    ex, self.last_exit = self.last_exit, None
    if ex:
        # the callee wrote into arrays it was handed: the caller's names for that storage see the new contents
        for name_, v_ in list(st.env.items()):
            if isinstance(v_, Num) and v_.mid in ex and v_.whole and ex[v_.mid] is not v_:
                st.env[name_] = ex[v_.mid]
    return res


def eval_args(self, n, st):
    args = []
    for a in n.args:
        if isinstance(a, ast.Starred):
            v = self.eval(a.value, st)
            if isinstance(v, Tup):
                args.extend(v.items)
            else:
                self.unsupported('*args of unknown length', n)
        else:
            args.append(self.eval(a, st))
    kwargs = {}
    for k in n.keywords:
        if k.arg is None:
            v = self.eval(k.value, st)
            if isinstance(v, Const) and isinstance(v.v, dict):
                for kk, vv in v.v.items():
                    kwargs[kk] = vv if isinstance(vv, Val) else Const(vv)
            elif isinstance(v, Tup) and not v.items:
                pass
            elif isinstance(v, Opaque) and v.what == 'kwargs':
                for name, val in st.env.items():
                    if name.startswith('**'):
                        kwargs.update(val)
            else:
                self.unsupported('**kwargs of unknown content', n)
        else:
            kwargs[k.arg] = self.eval(k.value, st)
    return args, kwargs


def do_eval(self, args, st, n):
    """eval(<string>) — resolved only through literal tables (window_names, Criteria.valid_criteria_names)"""
    a = args[0] if args else None
    if st is None:
        st = St({}, {})
    if isinstance(a, Const) and isinstance(a.v, str):
        return self.lookup(a.v, st, n)
    if isinstance(a, StrV) and a.choices:
        vals = [self.lookup(c, st, n) for c in a.choices]
        if all(isinstance(v, FuncV) for v in vals):
            return Opaque('funcset') if len(vals) != 1 else vals[0]
    raise_unres = 'eval() of a string that is not resolved through a literal table'
    self.unsupported(raise_unres, n)
    return TopV('eval')


# ----------------------------------------------------------------------------- subscripts
def _slice_len(self, length, sl):
    """length of a[lo:hi:step] for an axis of (affine) length `length`; None if not decidable"""
    def ival(x):
        if x is None:
            return None
        i = _asint(x)
        if i is not None:
            return i.a
        nx = tonum(x)
        if nx is not None and nx.ex is not None and nx.ex.is_integral():
            return nx.ex
        return False
    lo, hi, step = ival(sl.lo), ival(sl.hi), ival(sl.step)
    if lo is False or hi is False or step is False:
        return None
    if (sl.lo is not None and lo is None) or (sl.hi is not None and hi is None) or (sl.step is not None and step is None):
        return None
    if length is None:
        # lengths relative to an unknown axis are still known when both bounds are non-negative and ordered
        if lo is not None and hi is not None and (step is None or step == Aff(1)):
            if lo.nonneg() and (hi - lo).nonneg():
                return None
        return None
    stp = 1
    if step is not None:
        if not step.is_const():
            return None
        stp = int(step.c)
        if stp == 0:
            return None

    def norm(b, default):
        if b is None:
            return default
        s = b.sign() if not b.is_const() else (b.c > 0) - (b.c < 0)
        if b.is_const() and b.c == 0:
            s = 0
        if s is None:
            nn = b.nonneg()
            if nn:
                s = 1
            else:
                return None
        if s < 0:
            b = length + b
        return b
    if stp > 0:
        lo2 = norm(lo, Aff(0))
        hi2 = norm(hi, length)
        if lo2 is None or hi2 is None:
            return None
        hi3 = aff_min(hi2, length)
        lo3 = aff_min(lo2, length)
        if hi3 is None or lo3 is None:
            return None
        d = hi3 - lo3
        s = d.sign() if not d.is_const() else (d.c > 0) - (d.c < 0)
        if d.is_const() and d.c == 0:
            return Aff(0)
        if s is None:
            if d.nonneg():
                s = 1
            else:
                return None
        if s <= 0:
            return Aff(0)
        if stp == 1:
            return d
        q = (d + (stp - 1)).scale(F(1, stp)).floor()
        return q
    else:
        # negative step: from lo (default len-1) down to hi (exclusive, default -1)
        lo2 = norm(lo, length - 1) if lo is not None else length - 1
        if hi is None:
            hi2 = Aff(-1)
        else:
            hi2 = norm(hi, None)
        if lo2 is None or hi2 is None:
            return None
        lo3 = aff_min(lo2, length - 1)
        if lo3 is None:
            return None
        d = lo3 - hi2
        s = d.sign() if not d.is_const() else (d.c > 0) - (d.c < 0)
        if s is None:
            if d.nonneg():
                s = 1
            else:
                return None
        if s <= 0:
            return Aff(0)
        if stp == -1:
            return d
        return (d + (-stp - 1)).scale(F(1, -stp)).floor()


def index_value(self, v, idx, node):
    """v[idx] for abstract v"""
    if isinstance(v, Const) and isinstance(v.v, (dict, list, tuple, str)):
        if isinstance(idx, Const):
            try:
                r = v.v[idx.v]
                return r if isinstance(r, Val) else Const(r, v.taint)
            except (KeyError, IndexError):
                raise PathEnd()      # KeyError / IndexError: the path continues in an enclosing handler, if any
            except Exception:
                self.unsupported('constant subscript', node)
                return TopV('subscript')
        if isinstance(v.v, dict):
            vals = list(v.v.values())
            if isinstance(idx, StrV) and idx.choices:
                vals = [v.v[c] for c in idx.choices if c in v.v]
            if all(isinstance(x, str) for x in vals):
                return StrV('dictvalue', v.taint | taint_of(idx), choices=sorted(set(vals)))
            r = None
            for x in vals:
                r = join(r, x if isinstance(x, Val) else Const(x))
            return r if r is not None else TopV('emptydict')
        if isinstance(v.v, (list, tuple)):
            r = None
            for x in v.v:
                r = join(r, Const(x))
            return r if r is not None else TopV('empty')
        return StrV('char')
    if isinstance(v, Tup):
        if isinstance(idx, Const) and isinstance(idx.v, int) and not isinstance(idx.v, bool):
            if -len(v.items) <= idx.v < len(v.items):
                return v.items[idx.v]
            self.unsupported('tuple index out of range', node)
            return TopV('subscript')
        if isinstance(idx, SliceV):
            lo = idx.lo.v if isinstance(idx.lo, Const) else (None if idx.lo is None else 'x')
            hi = idx.hi.v if isinstance(idx.hi, Const) else (None if idx.hi is None else 'x')
            stp = idx.step.v if isinstance(idx.step, Const) else (None if idx.step is None else 'x')
            if 'x' not in (lo, hi, stp):
                return Tup(v.items[slice(lo, hi, stp)], v.taint, v.mutable)
        r = None
        for it in v.items:
            r = join(r, it)
        if isinstance(idx, SliceV):
            return SeqV(r, None, v.taint | taint_of(idx))
        return (r if r is not None else TopV('empty tuple')).with_taint(taint_of(idx))
    if isinstance(v, SeqV):
        if isinstance(idx, SliceV):
            return SeqV(v.elem, None, v.taint)
        r_ = (v.elem if v.elem is not None else TopV('empty seq')).with_taint(v.taint | taint_of(idx))
        if self.d4 and isinstance(r_, Num) and v.qarr is not None:
            from . import charge as Q
            ia_ = _asint(idx)
            r_ = r_.copy()
            r_.q = Q.q_index(v.qarr, ia_.a) if (ia_ is not None and ia_.a is not None) else None
        return r_
    nv = tonum(v) if isinstance(v, (Num, IntV, Const)) else None
    if nv is not None and isinstance(v, Num):
        t = nv.taint | taint_of(idx)
        idxs = idx.items if isinstance(idx, Tup) and not idx.mutable else [idx]
        if nv.shape is None:
            return nv.copy(shape=None, taint=t, ex=None)
        shape = list(nv.shape)
        out = []
        ax = 0
        fancy = None
        for ix in idxs:
            if isinstance(ix, Const) and ix.v is None:
                out.append(Aff(1))
                continue
            if ax >= len(shape):
                self.unsupported('too many indices', node)
                return nv.copy(shape=None, taint=t, ex=None)
            if isinstance(ix, SliceV):
                out.append(_slice_len(self, shape[ax], ix))
                for b in (ix.lo, ix.hi, ix.step):
                    t |= taint_of(b) if b is not None else frozenset()
                ax += 1
            elif _asint(ix) is not None or (isinstance(ix, Num) and ix.shape == () and ix.role != 'mask'):
                ax += 1
            elif isinstance(ix, (Num, Tup, SeqV)) or (isinstance(ix, Const) and isinstance(ix.v, (list, tuple))):
                ni = tonum(ix)
                if ni is not None and ni.role == 'mask':
                    out.append(None)
                    t |= ni.taint
                elif ni is not None and ni.shape is not None:
                    out.extend(ni.shape)
                    if len(shape) == 1 and nv.org is not None and ni.org is not None and 'conflict' not in (nv.org, ni.org):
                        fancy = nv.org + ni.org
                    elif len(shape) == 1 and 'conflict' in (nv.org, ni.org):
                        fancy = 'conflict'
                    else:
                        fancy = 'none'
                else:
                    out.append(None)
                ax += 1
            elif isinstance(ix, TopV):
                return nv.copy(shape=None, taint=t, ex=None)
            else:
                self.unsupported('index of type %s' % type(ix).__name__, node)
                return nv.copy(shape=None, taint=t, ex=None)
        out.extend(shape[ax:])
        r = nv.copy(shape=tuple(out), taint=t)
        r.ex = None
        r.intdt = nv.intdt
        if nv.role in ('singular', 'svd-Vh'):
            # which singular value / singular vector is read (rules about the noise subspace)
            self.events.append(('svd-read', nv.role, [(_asint(ix).a if (not isinstance(ix, SliceV) and _asint(ix) is not None) else None)
                                                      for ix in idxs], bool(nv.tr), self.cur.qname if self.cur else ''))
        r.col0, r.src_uid = None, None
        if len(shape) == 1 and len(idxs) == 1 and isinstance(idxs[0], Num) and idxs[0].idxseg is not None and isinstance(v, Num) \
                and v.seg is not None and shape[0] is not None:
            # x[order] with order a concatenation of aranges: the pieces are slices of x
            from . import segmap
            parts_ = []
            pieces_ = []
            for (pn, p0, pst) in idxs[0].idxseg:
                # negative values count from the end: a run that passes through zero is two runs of the array
                last_ = p0 + (pn - 1).scale(pst) if (p0 is not None and pn is not None) else None
                def sgn_(a_):
                    if a_ is None:
                        return None
                    if a_.is_const():
                        return 1 if a_.c >= 0 else -1
                    if a_.nonneg():
                        return 1
                    s_ = a_.sign()
                    return -1 if s_ == -1 else (1 if s_ in (0, 1) else None)
                s0_, s1_ = sgn_(p0), sgn_(last_)
                if s0_ is None or s1_ is None:
                    pieces_ = None
                    break
                if s0_ == s1_:
                    pieces_.append((pn, p0, pst))
                elif pst == -1 and s0_ == 1:
                    pieces_.append((p0 + 1, p0, -1))
                    pieces_.append((pn - p0 - 1, Aff(-1), -1))
                elif pst == 1 and s0_ == -1:
                    pieces_.append((-p0, p0, 1))
                    pieces_.append((pn + p0, Aff(0), 1))
                else:
                    pieces_ = None
                    break
            for (pn, p0, pst) in (pieces_ or []):
                p0a = segmap.norm_index(p0, shape[0])
                p0a = p0a if p0a is not None else p0
                if pst == 1:
                    piece = segmap.take(v.seg, p0a, p0a + pn)
                else:
                    piece = segmap.take(v.seg, p0a - pn + 1, p0a + 1)
                    piece = segmap.reverse(piece) if piece is not None else None
                parts_.append(piece)
            if pieces_ and all(p_ is not None for p_ in parts_):
                r.seg = segmap.concat(parts_)
                r.shape = (segmap.length(r.seg),)
        if len(shape) == 1 and len(idxs) == 1 and isinstance(idxs[0], Num) and idxs[0].grid is not None and idxs[0].shape is not None \
                and len(idxs[0].shape) == 2 and isinstance(v, Num) and v.seg is not None:
            # x[grid]: entry (i, k) of the result is x[ai*i + ak*k + c]
            from . import segmap
            sg = segmap.normalise(v.seg)
            if len(sg) == 1 and sg[0].w == 1:
                ai, ak, c = idxs[0].grid
                s0 = sg[0]
                r.amap = [(Aff(0), idxs[0].shape[0], Aff(0), idxs[0].shape[1], ai * s0.stride, ak * s0.stride,
                           s0.start + c.scale(s0.stride), s0.src, bool(v.mirror))]
                r.seg = None
        if len(shape) == 2 and len(idxs) == 2 and isinstance(idxs[0], SliceV) and idxs[0].lo is None and idxs[0].hi is None \
                and idxs[0].step is None and isinstance(v, Num):
            from .prims import _int_aff
            c = idxs[1]
            if isinstance(c, SliceV) and c.hi is None and c.step is None:
                r.col0 = _int_aff(c.lo) if c.lo is not None else Aff(0)
                r.src_uid = v.uid
            elif _asint(c) is not None and _asint(c).a is not None:
                r.col0 = _asint(c).a
                r.src_uid = v.uid
        if self.d4 and len(shape) == 1 and len(idxs) == 1:
            from . import charge as Q
            from . import segmap
            from .prims import _int_aff
            ix = idxs[0]
            r.q = None
            if isinstance(ix, SliceV):
                stp = 1
                okq = True
                if ix.step is not None:
                    sa_ = _int_aff(ix.step)
                    if sa_ is not None and sa_.is_const() and int(sa_.c) in (1, -1):
                        stp = int(sa_.c)
                    else:
                        okq = False
                if okq and shape[0] is not None:
                    if ix.lo is None:
                        lo_abs = Aff(0) if stp == 1 else shape[0] - 1
                    else:
                        la = _int_aff(ix.lo)
                        lo_abs = segmap.norm_index(la, shape[0]) if la is not None else None
                    r.q = Q.q_slice(nv.q, lo_abs, stp) if (lo_abs is not None or not Q.is_lin(nv.q)) else None
                    if Q.is_partial(r.q) and r.shape and r.shape[0] is not None and r.shape[0].is_const():
                        # entries beyond the end of the slice do not belong to it
                        d_ = {k_: v_ for k_, v_ in r.q[1].items() if k_.is_const() and k_.c < r.shape[0].c}
                        r.q = ('partial', d_) if d_ else 'any'
                elif okq and not Q.is_lin(nv.q):
                    r.q = nv.q
            else:
                ia_ = _asint(ix)
                if ia_ is not None:
                    ab = ia_.a
                    if ab is not None and shape[0] is not None:
                        ab2 = segmap.norm_index(ab, shape[0])
                        ab = ab2 if ab2 is not None else ab     # a symbolic index of unknown sign: taken as non-negative
                    r.q = Q.q_index(nv.q, ab)
        elif self.d4:
            r.q = nv.q if isinstance(nv.q, Aff) or nv.q == 'any' else None
            if len(shape) == 2 and len(idxs) in (1, 2) and nv.q is not None and not isinstance(nv.q, Aff) and nv.q != 'any':
                from . import charge as Q
                rd = _axis_desc(idxs[0], shape[0])
                cd = _axis_desc(idxs[1], shape[1]) if len(idxs) == 2 else ('slice', Aff(0), 1)
                if rd is not None and cd is not None:
                    r.q = Q.index2(nv.q, rd, cd)
        if len(shape) == 2 and isinstance(v, Num) and isinstance(nv.amap, list):
            # block maps through 2-D indexing: a row M[e]; column reversal M[:, ::-1]; anything else keeps the map of M
            rd = _axis_desc(idxs[0], shape[0])
            cd = _axis_desc(idxs[1], shape[1]) if len(idxs) == 2 else ('slice', Aff(0), 1)
            full_r = isinstance(idxs[0], SliceV) and idxs[0].lo is None and idxs[0].hi is None and idxs[0].step is None
            if len(idxs) == 1 and rd is not None and rd[0] == 'int':
                r.amap = None
                r.rowof = (nv.amap, rd[1])
            elif len(idxs) == 2 and full_r and isinstance(idxs[1], SliceV) and idxs[1].lo is None and idxs[1].hi is None \
                    and cd is not None and cd[2] == -1 and shape[1] is not None:
                r.amap = amap_fliplr(nv.amap, shape[1])
        if nv.grid is not None and len(shape) == 1 and len(idxs) == 2 and r.shape is not None and len(r.shape) == 2:
            full = lambda ix: isinstance(ix, SliceV) and ix.lo is None and ix.hi is None and ix.step is None
            none = lambda ix: isinstance(ix, Const) and ix.v is None
            if full(idxs[0]) and none(idxs[1]):
                r.grid = (nv.grid[0], F(0), nv.grid[2])          # column: a[:, newaxis]
            elif none(idxs[0]) and full(idxs[1]):
                r.grid = (F(0), nv.grid[0], nv.grid[2])          # row: a[newaxis, :]
        if fancy is None and r.is_array:
            r.view_of = nv.view_of          # basic slicing returns a view
            self.share(r, v, whole=False)
            if len(idxs) == 1 and isinstance(idxs[0], SliceV) and idxs[0].step is not None and _asint(idxs[0].step) is not None \
                    and _asint(idxs[0].step).a is not None and _asint(idxs[0].step).a == Aff(-1):
                r.rev_of = nv.mid if isinstance(v, Num) and v.mid is not None else getattr(v, 'uid', None)      # a reversed view of that array
                r.rev_org = nv.org
        if fancy is not None:
            r.org = None if fancy == 'none' else fancy
        elif any(isinstance(ix, SliceV) for ix in idxs):
            r.org = None
        if nv.seg is not None and len(shape) == 1 and len(idxs) == 1:
            from . import segmap
            ix = idxs[0]
            if isinstance(ix, SliceV):
                def b(x):
                    if x is None:
                        return None
                    from .prims import _int_aff
                    return _int_aff(x)
                lo, hi, stp = b(ix.lo), b(ix.hi), b(ix.step)
                ok = (ix.lo is None or lo is not None) and (ix.hi is None or hi is not None) and \
                    (ix.step is None or (stp is not None and stp.is_const() and int(stp.c) in (1, -1)))
                if ok:
                    r.seg = segmap.slice_(nv.seg, lo, hi, None if ix.step is None else int(stp.c))
                    if r.seg is not None:
                        r.shape = (segmap.length(r.seg),)
            else:
                ia = _asint(ix)
                if ia is not None and ia.a is not None:
                    r.seg = segmap.getitem(nv.seg, ia.a)
        return r
    if isinstance(v, Opaque) and v.what == 'globals':
        # globals()[name]: the same look-up eval(name) performs for a plain identifier
        return do_eval(self, [idx], None, node)
    if isinstance(v, Opaque):
        return TopV('subscript of opaque', taint_of(v))
    if isinstance(v, TopV):
        return TopV('subscript of top', v.taint | taint_of(idx))
    if isinstance(v, ExtV) and v.dotted == 'numpy.r_':
        # np.r_[a, b, lo:hi:step, ...]: the concatenation of its items, a slice standing for arange(lo, hi, step)
        from .prims import PRIMS
        items = idx.items if isinstance(idx, Tup) else [idx]
        parts = []
        for it in items:
            if isinstance(it, SliceV):
                if it.hi is None:
                    return TopV('subscript of ext')
                a_ = [it.lo if it.lo is not None else Const(0), it.hi] + ([it.step] if it.step is not None else [])
                parts.append(PRIMS['numpy.arange'](self, 'numpy.arange', a_, {}, node, None))
            else:
                parts.append(it)
        if len(parts) == 1 and isinstance(items[0], SliceV):
            return parts[0]
        return PRIMS['numpy.concatenate'](self, 'numpy.concatenate', [Tup(parts)], {}, node, None)
    if isinstance(v, ExtV):
        return TopV('subscript of ext')
    self.unsupported('subscript of %s' % type(v).__name__, node)
    return TopV('subscript')


def amap_fliplr(blocks, ncols):
    """block map of M[:, ::-1]: entry (i,k) holds what M had at (i, ncols-1-k)"""
    if not isinstance(blocks, list):
        return blocks
    out = []
    for (r0, r1, k0, k1, ai, ak, c, src, cj) in blocks:
        out.append((r0, r1, ncols - k1, ncols - k0, ai, -ak, c + (ncols - 1).scale(ak), src, cj))
    return out


def amap_reduce(blocks):
    """drop blocks that another block with the same map covers (single rows peeled off a loop)"""
    if not isinstance(blocks, list):
        return blocks
    keep = []
    for i, a in enumerate(blocks):
        covered = False
        for j, b in enumerate(blocks):
            if i == j or repr(a[2:]) != repr(b[2:]):
                continue
            peeled = a[1] == a[0] + 1 and (a[0] == b[0] or a[0] == b[0] + 1)     # first / second row of b's loop, seen concretely in the peeled passes
            if ((aff_le(b[0], a[0]) and aff_le(a[1], b[1])) or peeled) and (repr(a[:2]) != repr(b[:2]) or j < i):
                covered = True
                break
        if not covered:
            keep.append(a)
    return keep


def _axis_desc(ix, n):
    """one index of a subscript as ('int', position) or ('slice', first position, step +-1); None when not affine"""
    from . import segmap
    from .prims import _int_aff
    if isinstance(ix, SliceV):
        stp = 1
        if ix.step is not None:
            sa_ = _int_aff(ix.step)
            if sa_ is None or not sa_.is_const() or int(sa_.c) not in (1, -1):
                return None
            stp = int(sa_.c)
        if ix.lo is None:
            lo = Aff(0) if stp == 1 else ((n - 1) if n is not None else None)
        else:
            la = _int_aff(ix.lo)
            lo = segmap.norm_index(la, n) if (la is not None and n is not None) else None
            if lo is None:
                lo = la
        return ('slice', lo, stp)
    ia = _asint(ix)
    if ia is not None and ia.a is not None:
        ab = ia.a
        if n is not None:
            ab2 = segmap.norm_index(ab, n)
            ab = ab2 if ab2 is not None else ab
        return ('int', ab)
    return None


def value_key(v):
    """identity of an integer-like value for "has this index operand changed since" tests"""
    if isinstance(v, IntV):
        return ('int', repr(v.a))
    if isinstance(v, Const):
        return ('const', repr(v.v))
    return ('obj', id(v))


def view_target(self, n, st):
    """`V[e]` where V was bound by `V = A[lo::-1]` / `A[lo:hi]` / `A[::-1]` (a view of the 1-D local array A whose bounds have not
    changed since): the equivalent subscript `A[lo -+ e]`, so that loads and element stores through the view act on A itself"""
    if not (isinstance(n.value, ast.Name) and not isinstance(n.slice, (ast.Slice, ast.Tuple))):
        return None
    views = self.frames[-1].__dict__.get('slice_views') if self.frames else None
    info = views.get(n.value.id) if views else None
    if info is None:
        return None
    aname, lower, step, deps, vid = info
    cur = st.env.get(n.value.id)
    arr = st.env.get(aname)
    if not isinstance(arr, Num) or not isinstance(cur, Num) or arr.mid is None or cur.mid != arr.mid:
        return None          # the view or the array was re-bound since: no longer the same storage
    if any(value_key(st.env.get(k_)) != i_ for k_, i_ in deps.items()):
        return None
    cache = self.__dict__.setdefault('_view_nodes', {})
    key = (id(n), aname)
    if key not in cache:
        e = n.slice
        if step == 1:
            ix = e if lower is None else ast.BinOp(left=lower, op=ast.Add(), right=e)
        else:
            first = lower if lower is not None else ast.BinOp(
                left=ast.Call(func=ast.Name(id='len', ctx=ast.Load()), args=[ast.Name(id=aname, ctx=ast.Load())], keywords=[]),
                op=ast.Sub(), right=ast.Constant(1))
            ix = ast.BinOp(left=first, op=ast.Sub(), right=e)
        t2 = ast.Subscript(value=ast.Name(id=aname, ctx=ast.Load()), slice=ix, ctx=n.ctx)
        ast.copy_location(t2, n)
        ast.fix_missing_locations(t2)
        cache[key] = t2
    return cache[key]


def e_Subscript(self, n, st):
    t2 = view_target(self, n, st)
    if t2 is not None:
        return self.e_Subscript(t2, st)
    v = self.eval(n.value, st)
    idx = self.eval(n.slice, st)
    r = self.index_value(v, idx, n)
    if isinstance(r, Num) and r.is_array and isinstance(v, Num) and v.shape is not None and len(v.shape) == 1 and isinstance(n.value, ast.Name) \
            and isinstance(n.slice, ast.Slice) and self.frames:
        sl = n.slice
        stp = 1 if sl.step is None else (-1 if (isinstance(sl.step, ast.UnaryOp) and isinstance(sl.step.op, ast.USub)
                                                and isinstance(sl.step.operand, ast.Constant) and sl.step.operand.value == 1) else
                                         (1 if isinstance(sl.step, ast.Constant) and sl.step.value == 1 else None))
        if stp is not None and not any(isinstance(x, ast.Call) for x in ast.walk(sl)):
            deps = {x.id: value_key(st.env.get(x.id)) for x in ast.walk(sl) if isinstance(x, ast.Name)}
            r.slice_view = (n.value.id, sl.lower, stp, deps)
    if isinstance(r, Num) and r.is_array and isinstance(v, Num) and v.shape is not None and len(v.shape) == 1 and self.frames \
            and isinstance(n.slice, ast.Slice) and n.slice.lower is None and n.slice.upper is None \
            and isinstance(n.slice.step, ast.UnaryOp) and isinstance(n.slice.step.op, ast.USub) \
            and isinstance(n.slice.step.operand, ast.Constant) and n.slice.step.operand.value == 1 \
            and isinstance(n.value, ast.Subscript) and isinstance(n.value.value, ast.Name) and isinstance(n.value.slice, ast.Slice) \
            and n.value.slice.step is None and not any(isinstance(x, ast.Call) for x in ast.walk(n.value.slice)):
        # A[lo:hi][::-1]: element j is A[hi-1-j] -- the reversed view A[hi-1::-1] as far as element access goes
        base_arr = st.env.get(n.value.value.id)
        if isinstance(base_arr, Num) and base_arr.shape is not None and len(base_arr.shape) == 1:
            hi_ = n.value.slice.upper
            low_ = None if hi_ is None else ast.BinOp(left=hi_, op=ast.Sub(), right=ast.Constant(1))
            if low_ is not None:
                ast.copy_location(low_, n)
                ast.fix_missing_locations(low_)
            deps = {x.id: value_key(st.env.get(x.id)) for x in ast.walk(n.value.slice) if isinstance(x, ast.Name)}
            r.slice_view = (n.value.value.id, low_, -1, deps)
            if r.mid is None or r.mid != base_arr.mid:
                r.mid = base_arr.mid
    if isinstance(r, Num) and isinstance(v, Num) and v.shape is not None and len(v.shape) == 2 and isinstance(n.value, ast.Name) \
            and not isinstance(idx, (Tup, SliceV)) and _asint(idx) is not None and r.shape is not None and len(r.shape) == 1:
        # row = M[e]: a view of one row of the local matrix M (stores through it land in M)
        deps = {x.id: value_key(st.env.get(x.id)) for x in ast.walk(n.slice) if isinstance(x, ast.Name)}
        r.rowview = (n.value.id, n.slice, deps)
    return r


# ----------------------------------------------------------------------------- comprehensions
def comprehension(self, n, st, elt):
    inner = St(dict(st.env), st.heap)
    count = Aff(1)
    save_pc = self.pc
    for g in n.generators:
        it = self.eval(g.iter, inner)
        el, ln = self.iter_elem(it, g.iter, g)
        self.bind(g.target, el, inner, g)
        count = count.mul(ln) if (count is not None and ln is not None) else None
        for cond in g.ifs:
            c = self.eval(cond, inner)
            if self.truth(c) is None:
                count = None
                self.pc = self.pc | taint_of(c)
    v = self.eval(elt, inner)
    st.heap = inner.heap
    self.pc = save_pc
    self._last_comp = None
    if len(n.generators) == 1 and isinstance(n.generators[0].target, ast.Name):
        tv = inner.env.get(n.generators[0].target.id)
        it0 = self.eval(n.generators[0].iter, st) if False else None
        if isinstance(tv, IntV) and tv.a is not None and len(tv.a.t) == 1 and tv.a.c == 0:
            sym = list(tv.a.t)[0]
            if sym in Aff.BOUNDS:
                self._last_comp = (sym, Aff.BOUNDS[sym][0])
    return v, count


def e_ListComp(self, n, st):
    # a comprehension over a short tuple that is known element by element (x.shape, a literal): one result per element
    if len(n.generators) == 1 and not n.generators[0].ifs:
        itv = self.eval(n.generators[0].iter, st)
        if isinstance(itv, Tup) and 0 < len(itv.items) <= 8 and all(isinstance(i, (IntV, Const)) for i in itv.items):
            out = []
            for item in itv.items:
                inner = St(dict(st.env), st.heap)
                self.bind(n.generators[0].target, item, inner, n)
                out.append(self.eval(n.elt, inner))
                st.heap = inner.heap
            return Tup(out, mutable=True)
    v, count = self.comprehension(n, st, n.elt)
    nv = tonum(v) if not isinstance(v, (Tup, SeqV, Ref, StrV)) else None
    if nv is not None and not (isinstance(v, Const) and v.v is None):
        sh = None if nv.shape is None else (count,) + tuple(nv.shape)
        r = nv.copy(shape=sh)
        r.ex = None
        r.tag_list = True
        if self.d4:
            from . import charge as Q
            q = nv.q
            if isinstance(q, Aff) and getattr(self, '_last_comp', None) and nv.shape == ():
                sym, lo = self._last_comp
                alpha = q.t.get(sym, F(0))
                if alpha != 0 and lo is not None:
                    beta = q - Aff(0, {sym: alpha}) + lo.scale(alpha)
                    r.q = Q.lin(alpha, beta)
            elif Q.is_lin(q):
                r.q = None
        return r
    return SeqV(v, count, taint_of(v))


e_GeneratorExp = e_ListComp
