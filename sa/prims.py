"""Library axioms (trusted base): transfer rules of the numpy / scipy / builtin primitives the repository calls.
Every rule is a textbook fact about the primitive; the rule layer lists the ones a check used."""
import ast
import math
from fractions import Fraction as F

import sympy as sp

from .values import *      # noqa
from .core import PathEnd, join
from .interp_expr import num_add, num_mul, num_pow, _asint, _isnumconst

PRIMS = {}
USED = set()


def prim(*names):
    def deco(fn):
        for n in names:
            PRIMS[n] = fn
        return fn
    return deco


def N(v):
    return tonum(v)


def taints(*vals):
    t = frozenset()
    for v in vals:
        if v is not None:
            t |= taint_of(v)
    return t


def arg(args, kwargs, i, name, default=None):
    if i is not None and i < len(args):
        return args[i]
    if name in kwargs:
        return kwargs[name]
    return default


def _int_aff(v):
    i = _asint(v)
    if i is not None:
        return i.a
    n = tonum(v) if v is not None and not isinstance(v, (Tup, SeqV, StrV, Opaque, TopV)) else None
    if n is not None and n.ex is not None and n.ex.is_integral() and n.shape == ():
        return n.ex
    return None


def _shape_from(v):
    """shape argument: int or tuple of ints"""
    if isinstance(v, Tup):
        return tuple(_int_aff(x) for x in v.items)
    if isinstance(v, Const) and isinstance(v.v, (tuple, list)):
        return tuple(Aff(x) for x in v.v)
    a = _int_aff(v)
    return (a,)


def _dtype_cplx(v, default=False):
    if v is None:
        return default
    if isinstance(v, ExtV):
        if v.base in ('complex', 'complex128', 'complex64', 'complexfloating'):
            return True
        if v.base in ('float', 'float64', 'int', 'int64', 'double'):
            return False
    if isinstance(v, Const) and isinstance(v.v, str):
        return v.v.startswith('c') or v.v in ('D', 'F')
    if isinstance(v, Opaque) and isinstance(v.what, str) and v.what.startswith('dtype:'):
        return {'complex': True, 'float': False}.get(v.what[6:])
    return None


def _dtype_noop(v, dt):
    """converting array v to dtype dt is the identity for some admissible input (so no copy is made)"""
    if dt is None:
        return True
    if isinstance(dt, Opaque) and isinstance(dt.what, str) and dt.what.startswith('dtype:'):
        return True
    c = _dtype_cplx(dt, None)
    if c is None:
        return False
    if isinstance(dt, ExtV) and dt.base in ('int', 'int64'):
        return False
    return (c is True and v.cplx is True) or (c is False and v.cplx is False)


def mk(itp, what, *vals):
    return TopV(what, taints(*vals))


# ----------------------------------------------------------------------------- builtins
@prim('builtins.len')
def p_len(itp, name, args, kw, node, st):
    v = args[0]
    if isinstance(v, Tup):
        return Const(len(v.items), v.taint)
    if isinstance(v, Const) and isinstance(v.v, (list, tuple, dict, str)):
        return Const(len(v.v))
    if isinstance(v, SeqV):
        return IntV(v.n, v.taint) if (v.n is None or not v.n.is_const()) else Const(int(v.n.c))
    n = N(v) if isinstance(v, (Num,)) else None
    if n is not None:
        if n.shape and n.shape[0] is not None:
            a = n.shape[0]
            return Const(int(a.c)) if a.is_const() else IntV(a, frozenset())
        return IntV(None, n.taint)
    return IntV(None, taint_of(v))


@prim('builtins.range')
def p_range(itp, name, args, kw, node, st):
    a = [_int_aff(x) for x in args]
    if len(args) == 1:
        lo, hi, step = Aff(0), a[0], 1
    elif len(args) == 2:
        lo, hi, step = a[0], a[1], 1
    else:
        lo, hi = a[0], a[1]
        step = int(a[2].c) if (a[2] is not None and a[2].is_const()) else None
    o = Opaque('range', taints(*args))
    o.args = (lo, hi, step)
    return o


@prim('builtins.enumerate', 'builtins.zip', 'builtins.reversed_iter')
def p_enum(itp, name, args, kw, node, st):
    o = Opaque(name.split('.')[-1], taints(*args))
    o.args = list(args)
    return o


def _sym_to_aff(e):
    """sympy expression, affine with rational coefficients in the size symbols -> Aff (None otherwise)"""
    try:
        e = sp.expand(e)
        syms = sorted(e.free_symbols, key=str)
        if not syms:
            return Aff(F(int(sp.Rational(e).p), int(sp.Rational(e).q)))
        poly = sp.Poly(e, *syms)
        if poly.total_degree() > 1:
            return None
        out = Aff(0)
        for mon, co in poly.terms():
            co = sp.Rational(co)
            fr = F(int(co.p), int(co.q))
            if sum(mon) == 0:
                out = out + Aff(fr)
            else:
                out = out + Aff.sym(syms[list(mon).index(1)].name).scale(fr)
        return out
    except Exception:
        return None


@prim('builtins.int', 'numpy.int64', 'numpy.int32')
def p_int(itp, name, args, kw, node, st):
    v = args[0]
    if isinstance(v, Const) and isinstance(v.v, (int, float)):
        return Const(int(v.v), v.taint)
    if isinstance(v, IntV):
        return v
    n = N(v)
    fq = getattr(v, 'fquot', None)
    if n is not None and n.ex is None and fq is not None:
        # int() of a floating-point quotient of two frequencies whose exact value is fq
        ex_ = _sym_to_aff(fq)
        if ex_ is not None:
            if ex_.is_integral():
                itp.conflict('round', 'index', 'int() truncates a floating-point quotient of two frequencies whose exact value is the '
                             'integer %s: the computed quotient can be one ulp below it (depending on the sampling rate and NFFT), and '
                             'truncation then gives %s - 1 -- a count or slice bound must come from the integer NFFT' % (ex_, ex_), node)
                return IntV(ex_, n.taint)
            r_ = _trunc_aff(itp, ex_, node, 'int()')
            if r_ is not None:
                return IntV(r_, n.taint)
    if n is not None and n.ex is not None:
        r_ = _trunc_aff(itp, n.ex, node, 'int()')
        if r_ is not None:
            if r_.is_const():
                return Const(int(r_.c), n.taint)
            return IntV(r_, n.taint)
    r = IntV(None, taint_of(v))
    _fwd_bounds(v, r, integral_only=True)
    return r


def _trunc_aff(itp, ex, node, what):
    """int(x) / astype(int) truncate TOWARD ZERO: floor for x >= 0, ceiling for x < 0.  For an exact value that is never an
    integer (a half-integer like a - N/2 with N odd) and takes both signs over its range the result is not one affine form: the
    negative half rounds up and the positive half down, so an index grid built from it has a repeated 0 and every positive entry
    one step low.  Returns the affine result, or None (after recording the conflict when the mixed case is certain)."""
    if ex.is_integral():
        return ex
    lo = ex._bound(True) if any(s_ in Aff.BOUNDS for s_ in ex.t) else ex
    hi = ex._bound(False) if any(s_ in Aff.BOUNDS for s_ in ex.t) else ex
    pos = lo is not None and lo.nonneg()
    neg = hi is not None and (-hi).nonneg()
    if pos:
        return ex.floor()
    if neg:
        return ex.ceil()
    frac_const = all(v_.denominator == 1 for v_ in ex.t.values()) and ex.c.denominator != 1
    spans = lo is not None and hi is not None and (-lo).sign() == 1 and hi.sign() == 1 and any(s_ in Aff.BOUNDS for s_ in ex.t)
    if frac_const and spans:
        itp.conflict('round', 'index', '%s of %s, which is never an integer and takes both signs over the loop: truncation toward zero rounds '
                     'the negative values up and the positive ones down, so 0 occurs twice and every positive index is one too low'
                     % (what, ex), node)
    return None


def _fwd_bounds(src, dst, integral_only=False):
    """forward the size-bound facts of a scalar (see p_log / p_round / binop): clog2 / flog2 = ceil / floor of log2 of an exact
    integer size, lb / ub = lower / upper bound.  int() keeps them only for values that are already integers."""
    for k_ in ('clog2', 'flog2', 'lb', 'ub') + (() if integral_only else ('log2of',)):
        if getattr(src, k_, None) is not None:
            setattr(dst, k_, getattr(src, k_))


@prim('builtins.float', 'builtins.complex', 'numpy.float64')
def p_float(itp, name, args, kw, node, st):
    if not args:
        return Const(0.0)
    v = args[0]
    cp = name.endswith('complex')
    if isinstance(v, Const) and isinstance(v.v, (int, float, complex)):
        try:
            return Const(complex(v.v) if cp else float(v.v), v.taint)
        except Exception:
            pass
    n = N(v)
    if n is None:
        return mk(itp, 'float', v)
    r = n.copy()
    r.fsf = n.fsf
    if cp:
        r.cplx = True
    return r


@prim('builtins.abs', 'numpy.abs', 'numpy.absolute', 'ndarray.__abs__')
def p_abs(itp, name, args, kw, node, st):
    v = args[0]
    if isinstance(v, Const) and isinstance(v.v, (int, float, complex)):
        return Const(abs(v.v), v.taint)
    if isinstance(v, IntV):
        return IntV(v.a if (v.a is not None and v.a.nonneg()) else None, v.taint, v.nfft)
    n = N(v)
    if n is None:
        return mk(itp, 'abs', v)
    r = n.copy(cplx=False, rv=True, nonneg=True)
    r.intdt = n.intdt
    if n.q is not None and n.q != 'any':
        r.q = Aff(0)
    if not n.zero and n.log is None:
        r.deg['g'] = F(0)
        r.deg['gy'] = F(0)
    if n.ex is not None and not n.ex.nonneg():
        r.ex = None
    r.conj = 'I' if n.conj in ('I', 'E') else n.conj
    if n.seg is not None:
        from .interp_expr import relabel
        r.seg = relabel(n.seg)
        r.segax = n.segax
    if not n.nonneg and not n.zero:
        # a modulus taken of values that may be negative / complex: sum(|w|) is not |sum(w)| (label ABS:n in the dependence set; the
        # square of the modulus itself is the plain square again, see num_pow)
        if not hasattr(itp, 'abs_nodes'):
            itp.abs_nodes = {}
        lab = 'ABS:%d' % len(itp.abs_nodes)
        itp.abs_nodes[lab] = (node, itp.cur.qname if itp.cur else '')
        r.taint = r.taint | frozenset([lab])
        r.abs_label = lab
    USED.add('abs: |c^p conj(c)^q v| = |c|^(p+q) |v|  (phase exponent -> 0), result real >= 0')
    return r


@prim('numpy.conj', 'numpy.conjugate', 'ndarray.conj', 'ndarray.conjugate')
def p_conj(itp, name, args, kw, node, st):
    v = args[0]
    if isinstance(v, Const) and isinstance(v.v, (int, float, complex)):
        return Const(v.v.conjugate() if isinstance(v.v, complex) else v.v, v.taint)
    n = N(v)
    if n is None:
        return mk(itp, 'conj', v)
    r = n.copy()
    from . import charge as Q
    r.q = Q.q_neg(n.q)
    r.mirror = not n.mirror
    if isinstance(v, Num) and v.seg is not None:
        r.seg = list(v.seg)
        r.segax = v.segax
    if n.amap not in (None, 'bad'):
        r.amap = [b[:8] + (not b[8],) for b in n.amap]
    if n.log is None and not n.zero:
        r.deg['g'] = dneg(n.deg['g'])
        r.deg['gy'] = dneg(n.deg['gy'])
    if isinstance(v, Num):
        r.conj_of = v.uid
    USED.add('conj: swaps the exponents of c and conj(c) (phase exponent negated)')
    if name.startswith('ndarray.') and isinstance(v, Num) and v.is_array and n.cplx is False:
        itp.share(r, v, whole=True)      # the conj method of a real array returns the array itself, not a copy
    return r


@prim('numpy.real', 'numpy.imag')
def p_real(itp, name, args, kw, node, st):
    from .interp_expr import attr_of
    return attr_of(itp, args[0] if isinstance(args[0], (Num, IntV, Const)) else (N(args[0]) or args[0]),
                   name.split('.')[-1], st, node)


@prim('builtins.sum', 'numpy.sum', 'numpy.mean', 'ndarray.sum', 'ndarray.mean')
def p_sum(itp, name, args, kw, node, st):
    v = args[0]
    if isinstance(v, SeqV):
        n = N(v.elem) if v.elem is not None else Num(zero=True)
        if n is None:
            return mk(itp, 'sum', v)
        n = n.copy(shape=(v.n,) + (tuple(n.shape) if n.shape is not None else ()), taint=n.taint | v.taint)
    else:
        n = N(v)
    if n is None:
        return mk(itp, 'sum', v)
    axis = arg(args, kw, 1, 'axis')
    if name == 'builtins.sum':
        axis = Const(0)
        if len(args) > 1:
            s0 = N(args[1])
            if s0 is not None:
                num_add(itp, n, s0, node, 'add')
    r = n.copy()
    r.ex = None
    r.intdt = n.intdt and not name.endswith('mean')
    if itp.d4:
        from . import charge as Q
        if n.shape is not None and len(n.shape) == 1:
            r.q = Q.reduce_sum(itp, n.q, n.shape[0], node)
        elif Q.is_lin(n.q):
            itp.conflict('add', 'q', 'sum over elements whose modulation charge depends on the index (%s): a missing/extra '
                         'conjugate or a wrong index in the summand' % Q.show(n.q), node)
            r.q = None
        elif isinstance(n.q, tuple):
            r.q = None
    if n.shape is None:
        r.shape = None if (axis is not None and not (isinstance(axis, Const) and axis.v is None)) else ()
    elif axis is None or (isinstance(axis, Const) and axis.v is None):
        r.shape = ()
    elif isinstance(axis, Const) and isinstance(axis.v, int):
        sh = list(n.shape)
        if -len(sh) <= axis.v < len(sh):
            itp.events.append(('reduce', node, name, axis.v % len(sh), tuple(n.shape), itp.cur.qname if itp.cur else ''))
            axn = axis.v % len(sh)
            del sh[axis.v]
            r.shape = tuple(sh)
            src = args[0] if isinstance(args[0], Num) else None
            if src is not None and src.seg is not None and axn != src.segax:
                from .interp_expr import relabel
                r.seg = relabel(src.seg)
                r.segax = src.segax - (1 if axn < src.segax else 0)
        else:
            itp.unsupported('axis out of range in %s' % name, node)
            r.shape = None
    else:
        r.shape = None
    r.taint = n.taint | taints(axis)
    if name.endswith('mean') and r.sz is not None:
        cnt = None
        if n.shape is not None and len(n.shape) >= 1:
            if axis is None or (isinstance(axis, Const) and axis.v is None):
                if all(d is not None for d in n.shape):
                    cnt = sp.Integer(1)
                    for d in n.shape:
                        cnt = cnt * d.to_sympy()
            elif isinstance(axis, Const) and isinstance(axis.v, int) and -len(n.shape) <= axis.v < len(n.shape):
                d = n.shape[axis.v]
                cnt = d.to_sympy() if d is not None else None
        r.sz = sp.cancel(r.sz / cnt) if cnt is not None else None
    USED.add('sum/mean: linear (same exponents as the summands); mean divides by the number of elements')
    return r


@prim('numpy.prod', 'numpy.product')
def p_prod(itp, name, args, kw, node, st):
    n = N(args[0])
    if n is None:
        return mk(itp, 'prod', args[0])
    r = n.copy(shape=())
    r.ex = None
    if n.log is not None:
        r.deg = top_deg()
        r.log = None
        return r
    if n.zero:
        return r
    cnt = None
    if n.shape is not None and len(n.shape) >= 1 and all(d is not None for d in n.shape):
        cnt = sp.Integer(1)
        for d in n.shape:
            cnt = cnt * d.to_sympy()
    for c in COMPS:
        if dzero(n.deg[c]) is True:
            r.deg[c] = F(0)
        elif cnt is None:
            r.deg[c] = TOP
        else:
            r.deg[c] = dmul(n.deg[c], cnt if not cnt.is_Integer else F(int(cnt)))
    # a product whose scaling degree grows with an array length: c**n leaves the floating-point range for data scales away from 1
    dg = r.deg.get('s')
    try:
        if dg is not TOP and not isinstance(dg, F) and getattr(dg, 'free_symbols', None):
            num_, den_ = sp.fraction(sp.together(dg))
            if any(sp.degree(num_, s_) > sp.degree(den_, s_) for s_ in dg.free_symbols):
                itp.events.append(('unbounded-degree', node, str(dg), itp.cur.qname if itp.cur else ''))
    except Exception:
        pass
    USED.add('prod over n elements of degree d has degree n*d')
    return r


@prim('builtins.max', 'builtins.min', 'numpy.max', 'numpy.min', 'ndarray.max', 'ndarray.min', 'numpy.amax', 'numpy.amin')
def p_maxmin(itp, name, args, kw, node, st):
    ismax = name.endswith('max')
    if len(args) >= 2 and name.startswith('builtins'):
        ints = [_asint(a) for a in args]
        if all(i is not None for i in ints):
            r = ints[0]
            for i in ints[1:]:
                a = (aff_max if ismax else aff_min)(r.a, i.a) if (r.a is not None and i.a is not None) else None
                if a is None and r.a is not None and i.a is not None:
                    # the order of the two sizes is not known: a named integer (>= / <= both) stands for the result
                    nm = '%s(%s,%s)' % ('max' if ismax else 'min', r.a, i.a)
                    Aff.SYM_MIN[nm] = 1
                    a = Aff.sym(nm)
                r = IntV(a, r.taint | i.taint)
            if r.a is not None and r.a.is_const():
                return Const(int(r.a.c), r.taint)
            return r
        r = N(args[0])
        for a in args[1:]:
            b = N(a)
            if r is None or b is None:
                return mk(itp, 'max', *args)
            r = num_add(itp, r, b, node, 'compare')
        r.ex = None
        return r
    v = args[0]
    if isinstance(v, SeqV):
        n = N(v.elem) if v.elem is not None else None
    else:
        n = N(v)
    if n is None:
        return mk(itp, 'max', v)
    r = n.copy(shape=())
    r.ex = None
    return r


@prim('numpy.argmin', 'numpy.argmax', 'ndarray.argmin', 'ndarray.argmax')
def p_argmin(itp, name, args, kw, node, st):
    v = args[0]
    el = v.elem if isinstance(v, SeqV) else v
    n = N(el) if el is not None else None
    variant = False
    if n is not None:
        # invariant decision iff all elements share one type (they do: single abstract element) and that type is
        # known; an element type that is TOP in a data component means elements may scale differently
        comps = ('s', 'g', 'sy', 'gy')
        if n.log is not None:
            variant = any(n.log.get(c, F(0)) is TOP for c in comps)
        else:
            variant = any(n.deg[c] is TOP for c in comps)
    if n is not None and not variant:
        vals = list(n.log.values()) if n.log is not None else [n.deg[c] for c in comps]
        for x in vals:
            if isinstance(x, sp.Basic) and any(str(fs) in Aff.BOUNDS for fs in x.free_symbols):
                variant = True      # the scaling type depends on the element index
    t = taint_of(v)
    if variant and not itp.in_assert:
        t = t | frozenset([itp.new_variant('s', 'argmin/argmax over values that do not share one scaling type', node)])
    USED.add('argmin/argmax over elements sharing one scaling type is scale-invariant')
    return IntV(None, t)


@prim('builtins.list', 'builtins.tuple', 'builtins.sorted', 'builtins.reversed', 'numpy.flipud', 'numpy.fliplr',
      'numpy.flip', 'ndarray.flatten', 'ndarray.tolist', 'ndarray.squeeze', 'numpy.squeeze',
      'numpy.sort', 'ndarray.copy', 'numpy.copy', 'collections.deque', 'list.copy')
def p_same(itp, name, args, kw, node, st):
    if not args:
        return Tup([], mutable=True)
    v = args[0]
    if isinstance(v, Opaque) and v.what == 'range' and name == 'builtins.reversed' and v.args[2] in (1, -1) \
            and v.args[0] is not None and v.args[1] is not None:
        lo, hi, step = v.args
        o = Opaque('range', v.taint)
        o.args = (hi - step, lo - step, -step)          # the same integers, visited in the opposite order
        return o
    if isinstance(v, Opaque) and v.what == 'range':
        lo, hi, step = v.args
        n = (hi - lo) if (lo is not None and hi is not None and step == 1) else None
        return Num(zero_deg(), (n,), False, taint=v.taint)
    if isinstance(v, Const) and isinstance(v.v, dict):
        return Const(list(v.v.keys()), v.taint)
    if isinstance(v, (Tup, SeqV, Const, StrV)) and not isinstance(v, Num):
        if isinstance(v, Tup) and name == 'builtins.reversed':
            return Tup(list(reversed(v.items)), v.taint, v.mutable)
        if isinstance(v, Opaque):
            return v
        return v
    n = N(v) if isinstance(v, (Num, IntV)) else None
    if n is None:
        if isinstance(v, (Opaque, ExtV)):
            return Opaque('list')
        return mk(itp, name, v)
    r = n.copy()
    if name in ('numpy.sort', 'builtins.sorted'):
        itp.events.append(('sort', node, n.taint, itp.cur.qname if itp.cur else ''))
    if name in ('numpy.sort', 'builtins.sorted') and n.cplx is True and not n.rv:
        # numpy / python order complex numbers lexicographically (real part first), not by angle or modulus
        itp.events.append(('complex-sort', node, itp.cur.qname if itp.cur else ''))
    if itp.d4 and name in ('builtins.reversed', 'numpy.flipud', 'numpy.flip'):
        from . import charge as Q
        if Q.is_lin(n.q):
            ln = n.shape[0] if (n.shape and len(n.shape) == 1) else None
            r.q = Q.q_slice(n.q, ln - 1, -1) if ln is not None else None
    if n.seg is not None and (n.shape is None or len(n.shape) == 1):
        from . import segmap
        if name in ('builtins.reversed', 'numpy.flipud', 'numpy.flip'):
            r.seg = segmap.reverse(n.seg)
        elif name in ('builtins.list', 'builtins.tuple', 'ndarray.copy', 'numpy.copy', 'ndarray.tolist', 'collections.deque',
                      'ndarray.flatten', 'list.copy'):
            r.seg = list(n.seg)
    if name in ('ndarray.flatten',):
        r.shape = (None,) if n.shape is None or any(d is None for d in n.shape) else (_prod(n.shape),)
    if name == 'numpy.fliplr' and n.shape is not None and len(n.shape) == 2 and n.shape[1] is not None:
        from .interp_expr import amap_fliplr
        r.amap = amap_fliplr(n.amap, n.shape[1])
        if itp.d4:
            from . import charge as Q
            if Q.is_lin2(n.q):
                r.q = Q.lin2(n.q[1], -n.q[2], n.q[3] + (n.shape[1] - 1).scale(n.q[2]))
            elif not (isinstance(n.q, Aff) or n.q == 'any'):
                r.q = None
    if name in ('numpy.flipud', 'numpy.fliplr', 'numpy.flip', 'ndarray.squeeze', 'numpy.squeeze') and isinstance(v, Num):
        itp.share(r, v, whole=False)     # views
    return r


def _prod(sh):
    a = Aff(1)
    for d in sh:
        a = a.mul(d) if a is not None else None
    return a


@prim('builtins.isinstance')
def p_isinstance(itp, name, args, kw, node, st):
    v, T = args[0], args[1]
    types = T.items if isinstance(T, Tup) else [T]
    names = []
    for t in types:
        if isinstance(t, ExtV):
            names.append(t.base)
        elif isinstance(t, ClsV):
            names.append(t.cls)
        else:
            return BoolV(False, taint_of(v))

    def kind(v):
        if isinstance(v, Const) and getattr(v, 'npint', False):
            return 'int64'          # a numpy integer scalar (argmin()+1, mask.sum()): not an instance of the builtin int
        if isinstance(v, Const):
            return type(v.v).__name__
        if isinstance(v, IntV):
            return 'int'
        if isinstance(v, Num):
            return 'ndarray' if v.is_array else ('complex' if v.cplx else 'float')
        if isinstance(v, (Tup, SeqV)):
            return 'list' if getattr(v, 'mutable', True) else 'tuple'
        if isinstance(v, StrV):
            return 'str'
        if isinstance(v, BoolV):
            return 'bool'
        return None
    k = kind(v)
    if isinstance(v, Ref):
        for t in names:
            if not isinstance(t, str) and v.cls is not None and v.cls.is_subclass_of(t):
                return Const(True)
        return Const(False)
    if k is None:
        return BoolV(False, taint_of(v))
    ok = any(isinstance(t, str) and (t == k or (t == 'int' and k == 'bool') or
                                     (k == 'int64' and t in ('integer', 'signedinteger', 'number', 'generic', 'Integral', 'Number', 'int_', 'intp')))
             for t in names)
    return Const(ok, taint_of(v))


@prim('builtins.type')
def p_type(itp, name, args, kw, node, st):
    v = args[0]
    if isinstance(v, Const):
        return Opaque('type:' + type(v.v).__name__)
    if isinstance(v, IntV):
        return Opaque('type:int')
    if isinstance(v, Num):
        return Opaque('type:ndarray' if v.is_array else ('type:complex' if v.cplx else 'type:float'))
    if isinstance(v, (Tup, SeqV)):
        return Opaque('type:list')
    if isinstance(v, StrV):
        return Opaque('type:str')
    return Opaque('type:?')


@prim('builtins.hasattr', 'builtins.callable', 'builtins.any', 'builtins.all', 'ndarray.any', 'ndarray.all',
      'numpy.issubdtype', 'numpy.any', 'numpy.all', 'builtins.bool')
def p_bool(itp, name, args, kw, node, st):
    if name.split('.')[-1] in ('all', 'any') and args and isinstance(args[0], Num) and getattr(args[0], 'alltrue', False):
        return Const(True, args[0].taint)
    variant = any(getattr(a, 'variant', False) for a in args)
    return BoolV(variant, taints(*args))


@prim('builtins.getattr')
def p_getattr(itp, name, args, kw, node, st):
    from .interp_expr import attr_of
    if isinstance(args[1], Const) and isinstance(args[1].v, str):
        o = args[0]
        if isinstance(o, Ref) and o.cls is not None:
            h = st.heap.get(o.oid)
            a = args[1].v
            if h is not None and (a in h.f or o.cls.find_prop(a) or o.cls.find_method(a) or o.cls.find_attr(a)):
                return attr_of(itp, o, a, st, node)
            if len(args) > 2:
                return args[2]
        return attr_of(itp, o, args[1].v, st, node)
    return mk(itp, 'getattr', *args)


@prim('builtins.str', 'str.format', 'str.lower', 'str.upper', 'str.capitalize', 'str.strip', 'builtins.repr',
      'str.join', 'str.replace')
def p_str(itp, name, args, kw, node, st):
    v = args[0] if args else None
    if name == 'str.lower' and isinstance(v, Const):
        return Const(v.v.lower(), v.taint)
    if name == 'str.lower' and isinstance(v, StrV):
        return v
    return StrV('str', taints(*args))


@prim('str.startswith', 'str.endswith')
def p_strtest(itp, name, args, kw, node, st):
    return BoolV(False, taints(*args))


@prim('builtins.print', 'logging.debug', 'logging.info', 'logging.warning', 'logging.error', 'numpy.seterr',
      'logging.getLogger', 'builtins.ValueError', 'builtins.TypeError', 'builtins.AssertionError',
      'builtins.NotImplementedError', 'builtins.Exception', 'builtins.ImportError', 'builtins.ModuleNotFoundError',
      'builtins.id', 'builtins.open')
def p_none(itp, name, args, kw, node, st):
    return Const(None) if not name.startswith('builtins.') or name == 'builtins.print' else Opaque('exception')


@prim('builtins.round', 'numpy.ceil', 'numpy.floor', 'numpy.round', 'math.ceil', 'math.floor', 'numpy.rint')
def p_round(itp, name, args, kw, node, st):
    v = args[0]
    if isinstance(v, Const) and isinstance(v.v, (int, float)):
        f = {'ceil': math.ceil, 'floor': math.floor}.get(name.split('.')[-1], round)
        r = f(v.v)
        return Const(r if name.startswith(('builtins', 'math')) else float(r), v.taint)
    if isinstance(v, IntV):
        return v
    n = N(v)
    if n is None:
        return mk(itp, name, v)
    r = n.copy()
    if n.ex is not None and name.split('.')[-1] in ('round', 'rint') and not n.ex.is_integral():
        fr = n.ex.c - (n.ex.c.numerator // n.ex.c.denominator)
        if fr == F(1, 2) and all(c_.denominator == 1 for c_ in n.ex.t.values()) and n.ex.t:
            # exactly half-way for every admissible size: Python / numpy round half to even, so the result is the floor for
            # one parity of the size symbol and the ceiling for the other
            itp.conflict('round', 'index', 'round() of the exact half-integer %s: rounding half to even gives floor and ceiling '
                         'alternately as the size grows (e.g. 21.5 -> 22, 22.5 -> 22), so an index derived from it is off by one for '
                         'every other size' % n.ex, node)
    if n.ex is not None:
        b = name.split('.')[-1]
        r.ex = n.ex.ceil() if b == 'ceil' else (n.ex.floor() if b == 'floor' else (n.ex if n.ex.is_integral() else None))
    l2 = getattr(v, 'log2of', None)
    kind = {'ceil': 'clog2', 'floor': 'flog2'}.get(name.split('.')[-1])
    if name.startswith(('builtins', 'math')) and r.shape == ():
        if r.ex is not None:
            return Const(int(r.ex.c), r.taint) if r.ex.is_const() else IntV(r.ex, r.taint)
        r = IntV(None, r.taint)
    if l2 is not None and kind is not None:
        setattr(r, kind, l2)          # ceil / floor of log2(<exact integer size>)
    return r


@prim('builtins.pow')
def p_pow(itp, name, args, kw, node, st):
    return itp.binop(ast.Pow(), args[0], args[1], node)


@prim('builtins.globals', 'builtins.vars', 'builtins.locals')
def p_globals(itp, name, args, kw, node, st):
    if name.endswith('globals') and not args:
        return Opaque('globals')
    return Opaque('namespace')


@prim('builtins.dir')
def p_dir(itp, name, args, kw, node, st):
    return Opaque('dir')


@prim('builtins.dict')
def p_dict(itp, name, args, kw, node, st):
    return Const(dict(kw)) if not args else Opaque('dict')


@prim('dict.keys', 'dict.values', 'dict.items')
def p_dictkeys(itp, name, args, kw, node, st):
    d = args[0]
    if isinstance(d, Const) and isinstance(d.v, dict):
        if name.endswith('keys'):
            return Const(list(d.v.keys()), d.taint)
        if name.endswith('values'):
            vals = list(d.v.values())
            if all(not isinstance(x, Val) for x in vals):
                return Const(vals, d.taint)
            return Tup([x if isinstance(x, Val) else Const(x) for x in vals])
    return Opaque('dictview')


@prim('dict.get', 'dict.pop')
def p_dictget(itp, name, args, kw, node, st):
    d, k = args[0], args[1]
    dflt = args[2] if len(args) > 2 else Const(None)
    if isinstance(d, Const) and isinstance(d.v, dict) and isinstance(k, Const):
        if k.v in d.v:
            r = d.v[k.v]
            return r if isinstance(r, Val) else Const(r)
        return dflt
    if isinstance(d, Tup) and not d.items:
        return dflt
    return mk(itp, 'dict.get', *args)


@prim('list.index', 'list.count')
def p_listidx(itp, name, args, kw, node, st):
    return IntV(None, taints(*args))


@prim('opaque.get', 'opaque.pop')
def p_opaqueget(itp, name, args, kw, node, st):
    return args[2] if len(args) > 2 else TopV('kwargs.get')


# ----------------------------------------------------------------------------- array construction
@prim('numpy.zeros', 'numpy.ones', 'numpy.empty', 'numpy.zeros_like', 'numpy.ones_like')
def p_zeros(itp, name, args, kw, node, st):
    base = name.split('.')[-1]
    if base.endswith('_like'):
        n0 = N(args[0])
        shape = n0.shape if n0 is not None else None
        cplx = n0.cplx if n0 is not None else None
    else:
        shape = _shape_from(args[0])
        dt = arg(args, kw, 1, 'dtype')
        cplx = _dtype_cplx(dt, False)
    # the *contents* of a fresh buffer depend on nothing; a dependence on its size is carried by the shape itself
    r = Num(zero_deg(), shape, cplx, zero=base.startswith(('zeros', 'empty')), taint=frozenset())
    r.fill = 0 if base.startswith('zeros') else (1 if base.startswith('ones') else None)
    r.uninit = base.startswith('empty')
    if base.startswith('zeros') and shape is not None and len(shape) == 1 and shape[0] is not None:
        from . import cover as CV
        r.cover = CV.whole(shape[0], 'zero')
    r.q = 'any' if r.zero else Aff(0)
    if base.startswith('ones'):
        r.role = 'ones'
    r.nonneg = True
    itp.events.append(('alloc', node, base, shape, taints(args[0])))
    return r


@prim('numpy.arange')
def p_arange(itp, name, args, kw, node, st):
    a = [_int_aff(x) for x in args]
    if len(args) == 2 and None in a:
        # exact non-integral bounds (arange(-N/2, N/2) with N odd): the values are lo + i, lo + hi - lo of them when that is integral
        ex = [getattr(N(x), 'ex', None) if N(x) is not None else None for x in args]
        if all(e_ is not None for e_ in ex) and (ex[1] - ex[0]).is_integral():
            r = Num(zero_deg(), (ex[1] - ex[0],), False, taint=taints(*args))
            r.q = Aff(0)
            r.fracgrid = (ex[0], ex[1] - ex[0])          # first value (not an integer) and count
            return r
    if len(args) == 1:
        lo, hi = Aff(0), a[0]
    else:
        lo, hi = a[0], a[1]
    n = (hi - lo) if (lo is not None and hi is not None and len(args) <= 2) else None
    step = 1
    if len(args) == 3 and a[2] is not None and a[2].is_const() and int(a[2].c) in (1, -1) and lo is not None and hi is not None:
        step = int(a[2].c)
        n = (hi - lo) if step == 1 else (lo - hi)
    r = Num(zero_deg(), (n,), False, taint=taints(*args))
    r.q = Aff(0)
    r.nonneg = lo is not None and bool(lo.nonneg()) and step == 1
    if lo is not None and (len(args) <= 2):
        r.org = -lo          # index of the element whose value is 0 (value = lo + index)
        r.idx = True
        r.grid = (F(1), F(0), lo)
    if lo is not None and n is not None and (len(args) <= 2 or step == -1 or len(args) == 3 and step == 1):
        r.idxseg = [(n, lo, step)]
        if step == -1:
            r.grid = (F(-1), F(0), lo)
    return r


@prim('numpy.linspace')
def p_linspace(itp, name, args, kw, node, st):
    a, b = N(args[0]), N(args[1])
    n = _int_aff(arg(args, kw, 2, 'num', Const(50)))
    if a is None or b is None:
        return mk(itp, 'linspace', *args)
    r = num_add(itp, a, b, node, 'add')
    r.shape = (n,)
    r.ex = None
    r.zero = False
    r.nonneg = False
    r.taint = taints(*args)
    # frequency grids: both end points exact multiples of the sampling rate -> element i = lo + i*(hi-lo)/(num-1)
    def frac(v, nv):
        if nv.fsf is not None:
            return nv.fsf
        if nv.zero or (isinstance(v, Const) and v.v == 0):
            return sp.Integer(0)
        return None
    fa, fb = frac(args[0], a), frac(args[1], b)
    ep = arg(args, kw, 3, 'endpoint', Const(True))
    if fa is not None and fb is not None and n is not None and isinstance(ep, Const) and isinstance(ep.v, bool):
        cnt = n.to_sympy()
        r.fgrid = (fa, sp.cancel((fb - fa) / ((cnt - 1) if ep.v else cnt)))
    return r


@prim('numpy.array', 'numpy.asarray', 'numpy.asanyarray', 'numpy.atleast_1d', 'numpy.ascontiguousarray', 'numpy.asfortranarray')
def p_array(itp, name, args, kw, node, st):
    v = args[0]
    dt = arg(args, kw, 1, 'dtype')
    if isinstance(v, SeqV):
        e = N(v.elem) if v.elem is not None else Num(zero=True)
        if e is None:
            return mk(itp, 'array', v)
        r = e.copy(shape=(v.n,) + tuple(e.shape) if e.shape is not None else None, taint=e.taint | v.taint)
    else:
        n = N(v)
        if n is None:
            if isinstance(v, TopV):
                return Num(top_deg(), None, None, taint=v.taint)
            return mk(itp, 'array', v)
        r = n.copy()
        if dt is None or (isinstance(dt, Const) and dt.v is None):
            r.intdt = n.intdt          # np.array / asarray keep an integer dtype
    if r.shape == () and isinstance(v, (Tup, SeqV)):
        r.shape = (Aff(len(v.items)),) if isinstance(v, Tup) else (None,)
    if itp.d4 and isinstance(v, Tup) and v.items:
        from . import charge as Q
        qs = [getattr(N(it), 'q', None) for it in v.items]
        if all(isinstance(q_, Aff) or q_ == 'any' for q_ in qs):
            known = [(i, q_) for i, q_ in enumerate(qs) if q_ != 'any']
            if not known:
                r.q = 'any'
            elif len(known) == 1:
                r.q = ('partial', {Aff(known[0][0]): known[0][1]}) if len(qs) > 1 else known[0][1]
            else:
                (i0, q0), (i1, q1) = known[0], known[1]
                alpha = (q1 - q0).scale(F(1, i1 - i0))
                if alpha.is_const() and all(Q.q_eq(q_, q0 + Aff(alpha.c * (i - i0))) for i, q_ in known):
                    r.q = Q.lin(alpha.c, q0 - Aff(alpha.c * i0))
                else:
                    r.q = None
    c = _dtype_cplx(dt, None)
    if c is not None:
        r.cplx = c
    r.ex = None if r.shape != () else r.ex
    if isinstance(v, Num) and v.seg is not None:
        r.seg = list(v.seg)
    nocopy = name.split('.')[-1] in ('asarray', 'asanyarray', 'atleast_1d', 'ascontiguousarray', 'asfortranarray')
    cp = kw.get('copy')
    if isinstance(cp, Const) and cp.v is False:
        nocopy = True
    if isinstance(v, Num) and v.is_array and nocopy and _dtype_noop(v, dt):
        itp.share(r, v, whole=True)      # the argument itself comes back when no conversion is needed
    return r


@prim('ndarray.astype')
def p_astype(itp, name, args, kw, node, st):
    n = N(args[0])
    t = args[1] if len(args) > 1 else None
    if n is None:
        return mk(itp, 'astype', *args)
    if (isinstance(t, Const) and t.v in ('int', 'i', 'int64')) or (isinstance(t, ExtV) and t.base in ('int', 'int64')):
        if n.shape == ():
            if n.ex is not None and n.ex.is_integral():
                return IntV(n.ex, n.taint)
            r_ = IntV(None, n.taint)
            _fwd_bounds(args[0], r_, integral_only=True)
            return r_
        fg = getattr(args[0], 'fracgrid', None)
        if fg is not None:
            lo_, cnt_ = fg
            hi_ = lo_ + cnt_ - 1
            frac_const = all(v_.denominator == 1 for v_ in lo_.t.values()) and lo_.c.denominator != 1
            if frac_const and (-lo_).sign() == 1 and hi_.sign() == 1:
                itp.conflict('round', 'index', 'astype(int) of the values %s, %s+1, ... which are never integers and take both signs: '
                             'truncation toward zero rounds the negative ones up and the positive ones down, so 0 occurs twice and every '
                             'positive index is one too low' % (lo_, lo_), node)
        return n.copy(cplx=False)
    c = _dtype_cplx(t, None)
    r = n.copy()
    if c is False and n.cplx is True and not n.rv and not n.zero:
        itp.conflict('store', 'dtype', 'a complex array is cast to a real dtype: its imaginary part is discarded', node)
    if c is not None:
        r.cplx = c
        if c is False:
            r.rv = True
        if c is True:
            r.c64 = False
    src_ = args[0] if isinstance(args[0], Num) else None
    if src_ is not None and (c is None or c is True or src_.cplx is False):
        # an element-wise cast keeps every value where it is: index maps / block maps survive
        r.seg, r.segax, r.amap = src_.seg, src_.segax, src_.amap
    cp = kw.get('copy')
    if isinstance(cp, Const) and cp.v is False and isinstance(args[0], Num) and args[0].is_array and _dtype_noop(args[0], t):
        itp.share(r, args[0], whole=True)     # astype(copy=False) hands back the array itself when the dtype already matches
    return r


@prim('ndarray.transpose', 'numpy.transpose')
def p_transpose(itp, name, args, kw, node, st):
    n = N(args[0])
    if n is None:
        return mk(itp, 'transpose', args[0])
    r = n.copy(shape=tuple(reversed(n.shape)) if n.shape is not None else None)
    itp.events.append(('transpose', node, n.shape))
    if n.seg is not None and n.shape is not None and len(n.shape) in (1, 2):
        r.seg = list(n.seg)
        r.segax = len(n.shape) - 1 - n.segax
    r.view_of = n.view_of
    if n.shape is not None and len(n.shape) == 2 and isinstance(n.q, tuple):
        from . import charge as Q
        r.q = Q.lin2(n.q[2], n.q[1], n.q[3]) if Q.is_lin2(n.q) else None
    if isinstance(args[0], Num):
        itp.share(r, args[0], whole=False)
    if n.shape is not None and len(n.shape) == 2:
        r.tr = not n.tr
    return r


@prim('ndarray.reshape', 'numpy.reshape')
def p_reshape(itp, name, args, kw, node, st):
    n = N(args[0])
    if n is None:
        return mk(itp, 'reshape', args[0])
    rest = args[1:]
    if len(rest) == 1 and isinstance(rest[0], (Tup, Const)):
        shape = _shape_from(rest[0])
    else:
        shape = tuple(_int_aff(x) for x in rest)
    itp.events.append(('reshape', node, n.shape, shape))
    r = n.copy(shape=shape, taint=n.taint | taints(*rest))
    if n.grid is not None and n.shape is not None and len(n.shape) == 1 and shape is not None and len(shape) == 2:
        # an index vector turned into a column (n,1) or a row (1,n) of a broadcast index grid
        if shape[1] == Aff(1) and shape[0] == n.shape[0]:
            r.grid = (n.grid[0], F(0), n.grid[2])
        elif shape[0] == Aff(1) and shape[1] == n.shape[0]:
            r.grid = (F(0), n.grid[0], n.grid[2])
    if isinstance(args[0], Num) and args[0].is_array:
        itp.share(r, args[0], whole=False)    # reshape returns a view whenever it can
    return r


@prim('ndarray.resize')
def p_resize(itp, name, args, kw, node, st):
    # in-place resize on a non-local receiver: not modelled
    itp.unsupported('resize on a non-local array', node)
    return Const(None)


@prim('collections.namedtuple')
def p_namedtuple(itp, name, args, kw, node, st):
    tn = arg(args, kw, 0, 'typename')
    fl = arg(args, kw, 1, 'field_names')
    fields = None
    if isinstance(fl, Const) and isinstance(fl.v, str):
        fields = fl.v.replace(',', ' ').split()
    elif isinstance(fl, Const) and isinstance(fl.v, (list, tuple)) and all(isinstance(x, str) for x in fl.v):
        fields = list(fl.v)
    elif isinstance(fl, Tup) and all(isinstance(x, Const) and isinstance(x.v, str) for x in fl.items):
        fields = [x.v for x in fl.items]
    if fields is None or not isinstance(tn, Const):
        return mk(itp, name, *args)
    return NamedTupleV(tn.v, fields)


@prim('numpy.finfo', 'numpy.iinfo')
def p_finfo(itp, name, args, kw, node, st):
    """machine limits of a dtype: an object whose attributes are plain constants (see e_Attribute)"""
    return Opaque('finfo:' + name.split('.')[-1])


@prim('numpy.result_type', 'numpy.promote_types', 'numpy.find_common_type')
def p_result_type(itp, name, args, kw, node, st):
    """the promoted dtype: complex as soon as one operand is complex"""
    kinds = []
    for a in args:
        n = N(a) if isinstance(a, (Num, IntV, Const)) and not (isinstance(a, Const) and isinstance(a.v, str)) else None
        if n is not None:
            kinds.append(n.cplx)
        else:
            kinds.append(_dtype_cplx(a, None))
    if any(k is True for k in kinds):
        return Opaque('dtype:complex')
    if all(k is False for k in kinds):
        return Opaque('dtype:float')
    return Opaque('dtype:?')


@prim('scipy.fft.next_fast_len', 'scipy.fftpack.next_fast_len', 'scipy.fftpack.helper.next_fast_len', 'scipy.signal.next_fast_len')
def p_next_fast_len(itp, name, args, kw, node, st):
    """the smallest 5-/11-smooth size >= n: a different number for every awkward n"""
    Aff.SYM_MIN.setdefault('fastlen', 1)
    USED.add('next_fast_len(n) >= n is a size of its own (not n) whenever n has a large prime factor')
    r = IntV(Aff.sym('fastlen'), taints(*args), name='fastlen')
    a0 = _int_aff(args[0]) if args else None
    if a0 is not None:
        r.lb = a0
    return r


def _const_list(v):
    """a literal list / tuple of numbers as a python tuple (None otherwise)"""
    if isinstance(v, Const) and isinstance(v.v, (list, tuple)) and all(isinstance(x, (int, float)) for x in v.v):
        return tuple(v.v)
    if isinstance(v, Tup) and v.items and all(isinstance(i, Const) and isinstance(i.v, (int, float)) for i in v.items):
        return tuple(i.v for i in v.items)
    return None


@prim('scipy.signal.deconvolve')
def p_deconvolve(itp, name, args, kw, node, st):
    """polynomial division: (quotient, remainder)"""
    itp.events.append(('deconvolve', node, _const_list(args[0]), _const_list(args[1]) if len(args) > 1 else None,
                       itp.cur.qname if itp.cur else ''))
    a = N(args[0])
    if a is None:
        return Tup([mk(itp, 'deconvolve', *args), mk(itp, 'deconvolve', *args)])
    q = a.copy(shape=(None,))
    q.ex = None
    q.q = None
    return Tup([q, q.copy()])


@prim('numpy.pad')
def p_pad(itp, name, args, kw, node, st):
    """1-D numpy.pad(a, (before, after), mode): lengths add; reflect / symmetric modes are exact on index maps"""
    n = N(args[0])
    pw = arg(args, kw, 1, 'pad_width')
    mode = arg(args, kw, 2, 'mode', Const('constant'))
    if n is None or n.shape is None or len(n.shape) != 1:
        return mk(itp, 'pad', *args)
    if isinstance(pw, Tup) and len(pw.items) == 2:
        b, a = _int_aff(pw.items[0]), _int_aff(pw.items[1])
    else:
        b = a = _int_aff(pw) if pw is not None else None
    ln = n.shape[0]
    total = (ln + b + a) if (ln is not None and a is not None and b is not None) else None
    r = n.copy(shape=(total,), taint=n.taint | taints(pw))
    r.ex = None
    r.org = None
    if itp.d4 and not (isinstance(n.q, Aff) or n.q == 'any'):
        r.q = None
    m = mode.v if isinstance(mode, Const) else None
    src = args[0] if isinstance(args[0], Num) else None
    if src is not None and src.seg is not None and total is not None and m == 'constant' \
            and arg(args, kw, 3, 'constant_values') in (None,) :
        from . import segmap
        r.seg = segmap.normalise([segmap.Seg(b, '0', 0, 1)] + list(src.seg) + [segmap.Seg(a, '0', 0, 1)])
    if src is not None and src.seg is not None and total is not None and m in ('reflect', 'symmetric'):
        from . import segmap
        off = 1 if m == 'reflect' else 0        # reflect does not repeat the edge sample
        parts = []
        if not (b.is_const() and b.c == 0):
            p0 = segmap.take(src.seg, Aff(off), b + off)
            parts.append(segmap.reverse(p0) if p0 is not None else None)
        parts.append(list(src.seg))
        if not (a.is_const() and a.c == 0):
            p1 = segmap.take(src.seg, ln - a - off, ln - off)
            parts.append(segmap.reverse(p1) if p1 is not None else None)
        if all(p_ is not None for p_ in parts):
            r.seg = segmap.concat(parts)
    USED.add('numpy.pad(a, (b, a), mode=reflect|symmetric): mirrored copies of the edge samples (reflect skips the edge itself)')
    itp.events.append(('padded', node, r, itp.cur.qname if itp.cur else ''))
    return r


@prim('numpy.resize')
def p_npresize(itp, name, args, kw, node, st):
    """numpy.resize(a, n): a new array filled with REPEATED copies of a (unlike ndarray.resize, which pads with zeros)"""
    n = N(args[0])
    if n is None or len(args) < 2:
        return mk(itp, 'resize', *args)
    ln = _int_aff(args[1])
    r = n.copy(shape=(ln,), taint=n.taint | taints(args[1]))
    r.ex = None
    r.org = None
    if itp.d4 and not (isinstance(n.q, Aff) or n.q == 'any'):
        r.q = None
    itp.events.append(('resize-repeat', node, itp.cur.qname if itp.cur else ''))
    USED.add('numpy.resize(a, n) repeats a to fill n entries; ndarray.resize(n) pads with zeros')
    return r


@prim('numpy.insert')
def p_insert(itp, name, args, kw, node, st):
    a, v = N(args[0]), N(args[2])
    if a is None or v is None:
        return mk(itp, 'insert', *args)
    if itp.d4:
        a0, v0 = a, v
        a, v = a.copy(), v.copy()
        a.q = v.q = 'any'           # the charges are combined entry by entry below
    r = num_add(itp, a, v, node, 'concat')
    if itp.d4:
        a, v = a0, v0
    n0 = a.shape[0] if (a.shape and a.shape[0] is not None) else None
    add = Aff(1) if v.shape == () else (v.shape[0] if v.shape else None)
    r.shape = ((n0 + add) if (n0 is not None and add is not None) else None,)
    r.zero = False if not (a.zero and v.zero) else True
    r.ex = None
    r.taint = taints(*args)
    r.cplx = None if (a.cplx is None or v.cplx is None) else (a.cplx or v.cplx)
    if itp.d4:
        from . import charge as Q
        r.q = None
        pos = _int_aff(args[1])
        if a.q is not None and v.q is not None and v.shape == () and pos is not None and pos.is_const() and pos.c == 0:
            if Q.is_lin(a.q):
                new = Q.lin(a.q[1], a.q[2] - Aff(a.q[1]))
                if Q.q_same(itp, Q.q_index(new, Aff(0)), v.q, node, 'concat') is not None or v.q == 'any':
                    r.q = new
            elif a.q == 'any':
                r.q = None
            elif Q.is_partial(a.q) and n0 is not None and isinstance(v.q, Aff):
                d = {k + 1: val for k, val in a.q[1].items()}
                d[Aff(0)] = v.q
                r.q = Q.from_partial(d, n0 + 1)
            else:
                r.q = Q.q_same(itp, a.q, v.q, node, 'concat')
        elif a.q is not None and v.q is not None and v.shape == () and pos is not None and n0 is not None and pos == n0 \
                and isinstance(v.q, Aff):
            # appended at the end
            d = Q.to_partial(a.q, n0)
            if d is not None:
                d = dict(d)
                d[n0] = v.q
                r.q = Q.from_partial(d, n0 + 1)
    itp.events.append(('insert', node, args[1], a.shape, v, a, itp.cur.qname if itp.cur else '', args[2]))
    return r


@prim('numpy.append', 'numpy.concatenate', 'numpy.hstack', 'numpy.r_')
def p_concat(itp, name, args, kw, node, st):
    if name.endswith('append'):
        parts = [args[0], args[1]]
    else:
        v = args[0]
        if isinstance(v, Tup):
            parts = v.items
        else:
            return mk(itp, 'concatenate', *args)
    raw_parts = list(parts)
    itp.events.append(('concat', node, raw_parts, itp.cur.qname if itp.cur else ''))
    r = None
    total = Aff(0)
    parts = [_seq_as_num(p) for p in parts]
    for p in parts:
        n = N(p)
        if n is None:
            return mk(itp, 'concatenate', *args)
        ln = Aff(1) if n.shape == () else (n.shape[0] if n.shape else None)
        total = (total + ln) if (total is not None and ln is not None) else None
        r = n.copy() if r is None else num_add(itp, r, n, node, 'concat')
    r = r.copy(shape=(total,), taint=taints(*parts))
    r.ex = None
    if itp.d4:
        from . import charge as Q
        off = Aff(0)
        cur = 'any'
        for p in parts:
            n = N(p)
            pq = n.q
            ln = Aff(1) if n.shape == () else (n.shape[0] if n.shape else None)
            if pq is None or off is None:
                cur = None
                break
            if pq != 'any':
                single = ln is not None and ln == Aff(1) and isinstance(pq, Aff)
                if single:
                    piece = ('partial', {off: pq})
                elif Q.is_lin(pq):
                    piece = Q.lin(pq[1], pq[2] - off.scale(pq[1]))
                else:
                    piece = pq
                if cur == 'any':
                    cur = piece
                else:
                    before = len(itp.conflicts)
                    cur = Q.q_same(itp, cur, piece, node, 'concat')
                    if cur is None:
                        if len(itp.conflicts) == before and (isinstance(piece, tuple) and piece[0] == 'partial' or
                                                             isinstance(cur, tuple)):
                            itp.conflict('concat', 'q', 'parts of the concatenation carry inconsistent modulation charges', node)
                        break
            off = (off + ln) if ln is not None else None
        r.q = cur
    if all(isinstance(p, Num) and p.idxseg is not None for p in parts):
        r.idxseg = [piece for p in parts for piece in p.idxseg]
        if len(r.idxseg) == 2:
            # a tent c - |i - o| (ascending run continued by a descending one) or a V |i - o|: its origin is the index of the turn
            (n1, f1, s1), (n2, f2, s2) = r.idxseg
            if n1 is not None and f1 is not None and f2 is not None and s1 == -s2 and f2 == f1 + n1.scale(s1):
                r.org = n1
    segs = [p.seg if isinstance(p, Num) else None for p in parts]
    if all(sg is not None for sg in segs):
        from . import segmap
        r.seg = segmap.concat(segs)
        r.shape = (segmap.length(r.seg),)
    r.zero = all((N(p).zero for p in parts))
    cs = [N(p).cplx for p in parts]
    r.cplx = None if any(c is None for c in cs) else any(cs)
    USED.add('concatenate/append/insert: parts must share one scaling type; lengths add')
    return r


def _seq_as_num(p):
    """[0]*n and short literal lists of numbers as arrays"""
    if isinstance(p, SeqV) and p.elem is not None and p.n is not None:
        e = N(p.elem)
        if e is not None and e.shape == ():
            r = e.copy(shape=(p.n,))
            r.ex = None
            if e.zero or (isinstance(p.elem, Const) and p.elem.v == 0):
                r.zero = True
                r.q = 'any'
            return r
    if isinstance(p, Tup) and p.items and all(isinstance(i, Const) and isinstance(i.v, (int, float)) for i in p.items):
        z = all(i.v == 0 for i in p.items)
        r = Num(zero_deg(), (Aff(len(p.items)),), False, zero=z)
        r.q = 'any' if z else Aff(0)
        return r
    return p


@prim('numpy.where')
def p_where(itp, name, args, kw, node, st):
    m = N(args[0])
    if len(args) == 3:
        a, b = N(args[1]), N(args[2])
        if a is None or b is None:
            return mk(itp, 'where', *args)
        r = num_add(itp, a, b, node, 'concat')
        r.taint = r.taint | taints(args[0])
        return r
    idx = Num(zero_deg(), (None,), False, taint=taints(args[0]))
    idx.role = 'mask'
    return Tup([idx])


@prim('numpy.isrealobj', 'numpy.isreal', 'numpy.iscomplexobj')
def p_isreal(itp, name, args, kw, node, st):
    v = args[0]
    if isinstance(v, Const) and isinstance(v.v, (int, float, complex)):
        r = not isinstance(v.v, complex)
    else:
        n = N(v)
        if n is None or n.cplx is None:
            return BoolV(False, taint_of(v))
        if name == 'numpy.isreal' and n.is_array:
            # element-wise test of the VALUES: all true for a real dtype, data dependent for a complex dtype
            m = Num(zero_deg(), n.shape, False, taint=n.taint)
            m.role = 'mask'
            m.alltrue = (n.cplx is False)
            return m
        r = not n.cplx
    if name.endswith('iscomplexobj'):
        r = not r
    return Const(r)


# ----------------------------------------------------------------------------- elementwise maths
@prim('numpy.sqrt', 'math.sqrt')
def p_sqrt(itp, name, args, kw, node, st):
    v = args[0]
    if isinstance(v, Const) and isinstance(v.v, (int, float)) and v.v >= 0:
        return Const(math.sqrt(v.v), v.taint)
    n = N(v)
    if n is None:
        return mk(itp, 'sqrt', v)
    return num_pow(itp, n, N(Const(0.5)), node)


@prim('numpy.exp', 'math.exp')
def p_exp(itp, name, args, kw, node, st):
    n = N(args[0])
    if n is None:
        return mk(itp, 'exp', args[0])
    r = Num(zero_deg(), n.shape, n.cplx, taint=n.taint)
    if n.log is not None:
        r.deg = {c: n.log.get(c, F(0)) for c in COMPS}
        r.nonneg = True
        return r
    if any(dzero(n.deg[c]) is not True for c in COMPS if c != 'nfft') and not n.zero:
        r.deg = top_deg()
    r.rv = True if n.rv else None
    r.nonneg = bool(n.rv)
    return r


@prim('numpy.log', 'numpy.log10', 'numpy.log2', 'math.log', 'math.log10', 'math.log2')
def p_log(itp, name, args, kw, node, st):
    v = args[0]
    b = name.split('.')[-1]
    if isinstance(v, Const) and isinstance(v.v, (int, float)) and v.v > 0:
        return Const({'log': math.log, 'log10': math.log10, 'log2': math.log2}[b](v.v), v.taint)
    n = N(v)
    if n is None:
        return mk(itp, 'log', v)
    r = Num(zero_deg(), n.shape, False, taint=n.taint)
    if b == 'log2' and n.shape == () and n.ex is not None and n.ex.is_integral():
        r.log2of = n.ex           # log2 of an exact integer size (FFT lengths: 2 ** ceil(log2(n)))
    if n.log is not None:
        r.deg = top_deg()
        return r
    if all(dzero(n.deg[c]) is True for c in COMPS):
        return r
    for c in ('g', 'gy'):
        if dzero(n.deg[c]) is False:
            itp.conflict('phase', c, 'log of a phase-carrying value', node)
    scale = {'log': F(1), 'log10': 1 / sp.log(10), 'log2': 1 / sp.log(2)}[b]
    r.log = {c: dmul(n.deg[c], scale) for c in COMPS}
    USED.add('log of a positive value of degree d is an additive type: it shifts by d*log(scale)')
    return r


@prim('numpy.sin', 'numpy.cos', 'numpy.tan', 'numpy.tanh', 'numpy.arctanh', 'numpy.arcsin', 'numpy.arccos',
      'numpy.arctan', 'numpy.sinc', 'numpy.sinh', 'numpy.cosh', 'scipy.special.iv', 'numpy.angle', 'math.sin', 'math.cos')
def p_trig(itp, name, args, kw, node, st):
    v = args[-1] if name.endswith('.iv') else args[0]
    n = N(v)
    if n is None:
        return mk(itp, name, v)
    r = Num(zero_deg(), n.shape, n.cplx if not name.endswith('angle') else False, taint=taints(*args))
    if n.log is not None or (any(dzero(n.deg[c]) is not True for c in COMPS if c != 'nfft') and not n.zero):
        r.deg = top_deg()
    r.rv = True if n.rv or name.endswith('angle') else None
    return r


def p_multiply(itp, name, args, kw, node, st):
    a, b = N(args[0]), N(args[1])
    if a is None or b is None:
        return mk(itp, 'multiply', *args)
    return num_mul(itp, a, b, node)


@prim('numpy.dot', 'numpy.vdot', 'numpy.inner', 'numpy.convolve', 'scipy.signal.correlate', 'numpy.correlate',
      'numpy.outer', 'scipy.signal.fftconvolve', 'scipy.signal.convolve')
def p_bilinear(itp, name, args, kw, node, st):
    base = name.split('.')[-1]
    if base == 'convolve':
        itp.events.append(('convolve', node, _const_list(args[0]), _const_list(args[1]), itp.cur.qname if itp.cur else ''))
    a, b = N(args[0]), N(args[1])
    if a is None or b is None:
        return mk(itp, name, *args)
    rows_ = getattr(args[0], 'stack', None)
    if base == 'dot' and rows_ and b.shape is not None and len(b.shape) == 1:
        # (rows stacked by vstack) . v  ==  array([dot(row, v) for each row])
        outs = [p_bilinear(itp, name, [r_, args[1]], kw, node, st) for r_ in rows_]
        return p_array(itp, 'numpy.array', [Tup(outs)], {}, node, st)
    if base == 'vdot':
        a = p_conj(itp, 'numpy.conj', [a], {}, node, st)
    if base == 'correlate':
        b = p_conj(itp, 'numpy.conj', [b], {}, node, st)
    r = num_mul(itp, a, b, node)
    r.ex = None
    if base in ('dot', 'vdot', 'inner') and a.shape is not None and b.shape is not None and len(a.shape) == 1 and len(b.shape) == 1:
        # inner product of two vectors: the number of products summed (rules compare it with the definition's count)
        itp.events.append(('contract', node, a.shape[0], b.shape[0], itp.cur.qname if itp.cur else ''))
    if itp.d4:
        from . import charge as Q
        if base in ('dot', 'vdot', 'inner') and a.shape is not None and b.shape is not None and len(a.shape) == 1 and len(b.shape) == 1:
            r.q = Q.reduce_sum(itp, r.q, a.shape[0] if a.shape[0] is not None else b.shape[0], node, 'inner product')
        elif base in ('dot', 'vdot', 'inner') and (a.shape == () or b.shape == ()):
            pass            # scalar times array: plain product
        elif base == 'dot' and a.shape is not None and b.shape is not None and (len(a.shape), len(b.shape)) in ((1, 2), (2, 1), (2, 2)):
            r.q = Q.contract(itp, a.q, b.q, node)
        elif base == 'outer':
            # outer(a, b)[i, j] = a[i] * b[j]: the charge of the entry is the sum of the two element charges
            def ab_(q_):
                if isinstance(q_, Aff):
                    return F(0), q_
                if Q.is_lin(q_):
                    return q_[1], q_[2]
                return None
            if a.q == 'any' or b.q == 'any':
                r.q = 'any'
            else:
                pa_, pb_ = ab_(a.q), ab_(b.q)
                r.q = Q.lin2(pa_[0], pb_[0], pa_[1] + pb_[1]) if (pa_ is not None and pb_ is not None) else None
        elif base not in ('multiply',):
            r.q = None
    sa, sb = a.shape, b.shape
    if base in ('dot', 'inner', 'vdot'):
        if sa is None or sb is None:
            r.shape = None
        elif len(sa) == 0 or len(sb) == 0:
            r.shape = broadcast(sa, sb)
        elif len(sa) == 1 and len(sb) == 1:
            r.shape = ()
        elif len(sa) == 2 and len(sb) == 1:
            r.shape = (sa[0],)
        elif len(sa) == 1 and len(sb) == 2:
            r.shape = (sb[1],)
        elif len(sa) == 2 and len(sb) == 2:
            r.shape = (sa[0], sb[1])
        else:
            r.shape = None
        if base == 'vdot':
            r.shape = ()
    elif base in ('convolve', 'correlate', 'fftconvolve'):
        if sa and sb and len(sa) == 1 and len(sb) == 1 and sa[0] is not None and sb[0] is not None:
            r.shape = (sa[0] + sb[0] - 1,)
            mode = kw.get('mode', args[2] if len(args) > 2 else Const('full' if base == 'convolve' or name.startswith('scipy') else 'valid'))
            if base == 'correlate' and isinstance(mode, Const) and mode.v == 'full':
                r.org = sb[0] - 1          # correlate(x, y, 'full'): lag 0 at index len(y)-1
                USED.add("correlate(x, y, 'full') has 2N-1 values with lag 0 at index len(y)-1")
        else:
            r.shape = (None,)
    elif base == 'outer':
        # outer flattens both operands: one row per element of the first, one column per element of the second
        def flat_len(sh):
            if sh is not None and len(sh) == 1:
                return sh[0]
            return None
        r.shape = (flat_len(sa), flat_len(sb))
    else:
        r.shape = None
    r.nonneg = False
    r.rv = True if (a.rv and b.rv) else None
    USED.add('dot/multiply/convolve are bilinear without conjugation; vdot conjugates its first, correlate its second argument')
    return r


@prim('numpy.fft.fft', 'numpy.fft.rfft', 'numpy.fft.ifft', 'scipy.fftpack.fft', 'scipy.fftpack.ifft', 'numpy.fft.irfft')
def p_fft(itp, name, args, kw, node, st):
    a = N(args[0])
    nlen = arg(args, kw, 1, 'n')
    axis = arg(args, kw, 2, 'axis', Const(-1))
    if a is None:
        return mk(itp, 'fft', *args)
    base = name.split('.')[-1]
    r = a.copy(cplx=True, rv=None, nonneg=False)
    r.ex = None
    r.zero = a.zero
    n = _int_aff(nlen) if (nlen is not None and not (isinstance(nlen, Const) and nlen.v is None)) else None
    ax = axis.v if isinstance(axis, Const) and isinstance(axis.v, int) else None
    if a.shape is not None and len(a.shape) >= 1 and ax is not None and -len(a.shape) <= ax < len(a.shape):
        sh = list(a.shape)
        i = ax % len(sh)
        ln = n if (nlen is not None and not (isinstance(nlen, Const) and nlen.v is None)) else sh[i]
        if base == 'rfft' and ln is not None:
            half = ln.scale(F(1, 2)).floor()
            if half is None:
                # floor(ln/2) is not affine in the size symbols: name it (a fixed but unknown integer)
                nm = 'floor(%s/2)' % ln
                Aff.SYM_MIN[nm] = 1
                half = Aff.sym(nm)
            ln = half + 1
        sh[i] = ln
        r.shape = tuple(sh)
    else:
        r.shape = None
    r.taint = a.taint | taints(nlen, axis)
    itp.events.append(('fft', node, base, a.shape, nlen, ax, a))
    from . import cover as CV
    src_ = args[0] if isinstance(args[0], Num) else a
    for alt_ in CV.mixed(src_.cover):
        itp.events.append(('fft-stale-input', node, CV.show(alt_), itp.cur.qname if itp.cur else ''))
    if getattr(src_, 'uninit', False):
        itp.events.append(('fft-uninit-input', node, itp.cur.qname if itp.cur else ''))
    itp.events.append(('fft-out', node, r.shape, itp.cur.qname if itp.cur else ''))
    if itp.d4:
        itp.events.append(('fft-q', node, a.q, itp.cur.qname if itp.cur else ''))
    r.q = None
    if r.shape is not None and ax is not None and len(r.shape) >= 1 and base in ('fft', 'rfft'):
        from . import segmap
        i = ax % len(r.shape)
        if r.shape[i] is not None:
            # slot k of fft / rfft output is bin k of the n-point DFT (frequency k*fs/n); the transform of a
            # conjugated vector conj(v) is the mirrored, conjugated transform of v: slot k holds frequency -k
            if a.mirror and base == 'fft':
                L = r.shape[i]
                r.seg = segmap.normalise([segmap.Seg(1, 'F', 0, 1), segmap.Seg(L - 1, 'F', L - 1, -1)])
            else:
                r.seg = segmap.identity('F', r.shape[i])
            r.segax = i
    r.mirror = False
    if r.shape is not None and len(r.shape) == 1 and r.shape[0] is not None:
        r.cover = CV.whole(r.shape[0], 'spec')
    if a.conj == 'E':
        r.conj = 'M'
    USED.add('fft/rfft/ifft(a, n, axis): linear; output length n (rfft: n//2+1) along axis; zero-pads when n >= len')
    return r


@prim('numpy.linalg.svd')
def p_svd(itp, name, args, kw, node, st):
    a = N(args[0])
    if a is None:
        return mk(itp, 'svd', *args)
    m = n = None
    if a.shape is not None and len(a.shape) == 2:
        m, n = a.shape
    U = Num(zero_deg(), (m, m), True, taint=a.taint)
    U.deg['g'] = TOP
    k = aff_min(m, n) if (m is not None and n is not None) else None
    if k is None:
        Aff.SYM_MIN['r@svd'] = 2
        k = Aff.sym('r@svd')
    S = Num(zero_deg(), (k,), False, taint=a.taint)
    for c in ('s', 'sy', 'hz', 'nfft', 'win'):
        S.deg[c] = a.deg[c]
    S.nonneg = True
    S.role = 'singular'
    Vh = Num(zero_deg(), (n, n), True, taint=a.taint)
    Vh.mirror = True        # rows of Vh are the *conjugated* right singular vectors
    Vh.role = 'svd-Vh'
    USED.add('svd(A): singular values real >= 0, non-increasing, homogeneous of the magnitude degree of A and '
             'invariant under a unitary diagonal acting on the rows; singular vectors are degree 0')
    itp.events.append(('svd', node, a, S, Vh))
    return Tup([U, S, Vh])


@prim('numpy.linalg.pinv', 'scipy.linalg.pinv', 'scipy.linalg.pinvh')
def p_pinv(itp, name, args, kw, node, st):
    """pinv(A): Moore-Penrose inverse through an svd with a RELATIVE cutoff (rcond ~ 1e-15 * max(M, N)): singular values below it are
    treated as zero.  Exponents are those of 1/A, shape transposed."""
    a = N(args[0])
    if a is None:
        return mk(itp, 'pinv', *args)
    one = Num(zero_deg(), (), False)
    r = num_mul(itp, one, a, node, div=True)
    r.shape = (a.shape[1], a.shape[0]) if (a.shape is not None and len(a.shape) == 2) else a.shape
    r.ex = None
    r.nonneg = False
    r.cplx = a.cplx
    r.taint = a.taint
    r.q = None
    itp.events.append(('pinv', node, a, itp.cur.qname if itp.cur else ''))
    USED.add('pinv(A): exponents of 1/A, transposed shape; singular values below a relative cutoff are dropped')
    return r


@prim('numpy.linalg.eigh', 'scipy.linalg.eigh')
def p_eigh(itp, name, args, kw, node, st):
    """eigh(A) -> (w, V): real eigenvalues in ASCENDING order, eigenvectors in the columns.  The eigenvalues of a Gram matrix
    A^H A are the squared singular values of A only in exact arithmetic: computed, the null ones come out as +-round-off"""
    a = N(args[0])
    if a is None:
        return mk(itp, 'eigh', *args)
    n = a.shape[0] if (a.shape is not None and len(a.shape) == 2) else None
    w = Num(dict(a.deg), (n,), False, taint=a.taint | frozenset(['EIG:%d' % getattr(node, 'lineno', 0)]))
    w.deg['g'] = F(0)
    w.nonneg = False
    w.role = 'eigenvalues'
    V = Num(zero_deg(), (n, n), a.cplx, taint=a.taint)
    V.deg['g'] = TOP
    V.role = 'eigenvectors'
    itp.events.append(('eigh', node, a, w, V, itp.cur.qname if itp.cur else ''))
    USED.add('eigh(A): real eigenvalues ascending with the degrees of A, eigenvectors (columns) of degree 0')
    return Tup([w, V])


@prim('scipy.linalg.lstsq', 'numpy.linalg.lstsq')
def p_lstsq(itp, name, args, kw, node, st):
    A, b = N(args[0]), N(args[1])
    if A is None or b is None:
        return mk(itp, 'lstsq', *args)
    x = num_mul(itp, b, A, node, div=True)
    x.shape = (A.shape[1],) if (A.shape is not None and len(A.shape) == 2) else (None,)
    x.ex = None
    x.nonneg = False
    x.neg = bool(A.neg) != bool(b.neg)          # the minimiser of |(-A) x - b| is minus the minimiser of |A x - b|
    if itp.d4:
        from . import charge as Q
        x.q = Q.lstsq_q(itp, A.q, b.q, node) if Q.is_lin2(A.q) else (x.q if isinstance(x.q, Aff) or x.q == 'any' else None)
    # extra arguments (cond / rcond / lapack_driver ...): a truncation threshold changes what is solved
    extra = dict(kw)
    for i_, a_ in enumerate(args[2:]):
        extra['<positional %d>' % (i_ + 2)] = a_
    itp.events.append(('lstsq', node, A, b, x, extra))
    USED.add('lstsq(A,b): the minimiser has exponents deg(b)-deg(A) and one entry per column of A')
    return Tup([x, Num(top_deg(), None, taint=x.taint), IntV(None, x.taint), Num(top_deg(), (None,), taint=x.taint)])


@prim('numpy.linalg.solve', 'scipy.linalg.solve', 'scipy.linalg.cho_solve')
def p_solve(itp, name, args, kw, node, st):
    A = args[0]
    if name.endswith('cho_solve'):
        A = A.items[0] if isinstance(A, Tup) else A
        itp.events.append(('cho_solve', node, args[0], A.uid if isinstance(A, Num) else None))
    A, b = N(A), N(args[1])
    if A is None or b is None:
        return mk(itp, 'solve', *args)
    x = num_mul(itp, b, A, node, div=True)
    itp.events.append(('solve', node, name, A.base_uid if A.base_uid is not None else A.uid, A.tr, A.mirror, b.uid, x))
    if name.endswith('cho_solve'):
        x = num_mul(itp, x, A, node, div=True)
    x.shape = b.shape
    x.ex = None
    return x


@prim('numpy.linalg.cholesky', 'scipy.linalg.cholesky')
def p_cholesky(itp, name, args, kw, node, st):
    A = N(args[0])
    if A is None:
        return mk(itp, 'cholesky', *args)
    r = num_pow(itp, A, N(Const(0.5)), node)
    r.shape = A.shape
    r.base_uid = None
    r.tr = False
    r.mirror = False
    itp.events.append(('cholesky', node, name, kw.get('lower'), r))
    return r


@prim('scipy.linalg.toeplitz')
def p_toeplitz(itp, name, args, kw, node, st):
    c = N(args[0])
    r_ = N(args[1]) if len(args) > 1 else None
    if c is None or (len(args) > 1 and r_ is None):
        return mk(itp, 'toeplitz', *args)
    cq, rq = c.q, (r_.q if r_ is not None else None)
    if itp.d4 and r_ is not None:
        c, r_ = c.copy(), r_.copy()
        c.q = r_.q = 'any'
    r = c.copy() if r_ is None else num_add(itp, c, r_, node, 'concat')
    if itp.d4:
        from . import charge as Q
        if r_ is None:
            r.q = cq if (isinstance(cq, Aff) or cq == 'any') else None
        elif cq == 'any' and rq == 'any':
            r.q = 'any'
        elif isinstance(cq, Aff) and isinstance(rq, Aff) and Q.q_eq(cq, rq):
            r.q = cq
        else:
            r.q = Q.toeplitz_q(cq, rq)       # entry (i,j) = c[i-j] / r[j-i]
    n0 = c.shape[0] if c.shape else None
    n1 = (r_.shape[0] if r_.shape else None) if r_ is not None else n0
    r.shape = (n0, n1)
    r.ex = None
    r.zero = False
    r.cplx = None if (c.cplx is None or (r_ is not None and r_.cplx is None)) else (c.cplx or (r_.cplx if r_ is not None else False))
    r.amap = _toeplitz_map(args[0], args[1] if len(args) > 1 else None, 'toeplitz', n0, n1)
    return r


def _toeplitz_map(c, r, kind, n0, n1):
    """toeplitz(c, r)[i,k] = c[i-k] (i>=k) / r[k-i];  hankel(c, r)[i,k] = c[i+k] / r[i+k-len(c)+1]: one affine map of the
    source iff first column and first/last row are one contiguous run of the same source"""
    from . import segmap
    if not (isinstance(c, Num) and isinstance(r, Num) and c.seg is not None and r.seg is not None):
        return None
    cs, rs = segmap.normalise(c.seg), segmap.normalise(r.seg)
    if len(cs) != 1 or len(rs) != 1 or cs[0].src != rs[0].src or bool(c.mirror) != bool(r.mirror) or n0 is None or n1 is None:
        return 'bad'
    a, b = cs[0], rs[0]
    one_c = a.n == Aff(1)
    one_r = b.n == Aff(1)
    if kind == 'toeplitz':
        ok = (one_c or a.stride == 1) and (one_r or b.stride == -1) and a.start == b.start
        return [(Aff(0), n0, Aff(0), n1, F(1), F(-1), a.start, a.src, bool(c.mirror))] if ok else 'bad'
    ok = (one_c or a.stride == 1) and (one_r or b.stride == 1) and b.start == a.start + a.n - 1
    return [(Aff(0), n0, Aff(0), n1, F(1), F(1), a.start, a.src, bool(c.mirror))] if ok else 'bad'


@prim('numpy.kaiser', 'numpy.hamming', 'numpy.hanning', 'numpy.bartlett', 'numpy.blackman', 'scipy.signal.chebwin',
      'scipy.signal.windows.chebwin')
def p_npwindow(itp, name, args, kw, node, st):
    n = _int_aff(args[0])
    r = Num(zero_deg(), (n,), False, taint=taints(*args))
    r.role = 'libwindow:' + name.split('.')[-1]
    USED.add('numpy/scipy window generators return N real symmetric samples with maximum <= 1')
    return r


@prim('numpy.std', 'numpy.var')
def p_std(itp, name, args, kw, node, st):
    n = N(args[0])
    if n is None:
        return mk(itp, name, *args)
    r = n.copy(shape=(), cplx=False, nonneg=True)
    if name.endswith('var'):
        r = num_mul(itp, r, r, node)
    if not n.zero:
        r.deg['g'] = F(0)
        r.deg['gy'] = F(0)
    if not hasattr(itp, 'cen_nodes'):
        itp.cen_nodes = {}
    lab = 'CEN:%d' % len(itp.cen_nodes)
    itp.cen_nodes[lab] = (node, itp.cur.qname if itp.cur else '')
    r.taint = r.taint | frozenset([lab])          # a moment about the mean: unchanged when a constant is added to the data
    return r


@prim('numpy.fft.fftshift', 'numpy.fft.ifftshift')
def p_fftshift(itp, name, args, kw, node, st):
    """fftshift(x)[i] = x[(i - n//2) mod n]  =  x[n - n//2:] ++ x[:n - n//2] ;  ifftshift = x[n//2:] ++ x[:n//2]"""
    n = N(args[0])
    if n is None:
        return mk(itp, name, args[0])
    r = n.copy()
    src = args[0] if isinstance(args[0], Num) else n
    if getattr(src, 'seg', None) is not None and n.shape is not None and len(n.shape) == 1 and n.shape[0] is not None:
        from . import segmap
        ln = n.shape[0]
        half = ln.scale(F(1, 2)).floor()
        if half is not None:
            cut = (ln - half) if name.endswith('.fftshift') else half
            a = segmap.split_at(src.seg, cut)
            if a is not None:
                r.seg = segmap.normalise(a[1] + a[0])
    USED.add('fftshift(x) = x[n-n//2:] ++ x[:n-n//2]; ifftshift(x) = x[n//2:] ++ x[:n//2]')
    return r


@prim('numpy.roll')
def p_roll(itp, name, args, kw, node, st):
    """roll(x, s)[i] = x[(i - s) mod n]: for s > 0 the last s entries move to the front (1-D; one shift per axis otherwise)"""
    n = N(args[0])
    if n is None:
        return mk(itp, name, *args)
    r = n.copy()
    r.org = None
    if itp.d4 and not (isinstance(n.q, Aff) or n.q == 'any'):
        r.q = None
    sh = arg(args, kw, 1, 'shift')
    if isinstance(sh, Tup) and len(sh.items) == 1:
        sh = sh.items[0]
    s = _int_aff(sh) if sh is not None and not isinstance(sh, (Tup, SeqV)) else None
    src = args[0] if isinstance(args[0], Num) else n
    if getattr(src, 'seg', None) is not None and n.shape is not None and len(n.shape) == 1 and n.shape[0] is not None and s is not None:
        from . import segmap
        ln = n.shape[0]
        sg = s.sign() if not s.is_const() else ((s.c > 0) - (s.c < 0))
        cut = None
        if sg == 0:
            r.seg = list(src.seg)
        elif sg is not None:
            cut = (ln - s) if sg > 0 else -s
            a = segmap.split_at(src.seg, cut)
            if a is not None:
                r.seg = segmap.normalise(a[1] + a[0])
    USED.add('numpy.roll(x, s) = x[n-s:] ++ x[:n-s] for 0 < s < n')
    return r


@prim('numpy.fft.hfft', 'numpy.fft.irfft')
def p_hfft(itp, name, args, kw, node, st):
    """hfft(a, n): real output of length n (default 2*(len(a)-1)): the transform of the Hermitian extension of a"""
    a = N(args[0])
    if a is None:
        return mk(itp, name, *args)
    nlen = arg(args, kw, 1, 'n')
    r = a.copy(cplx=False, rv=True, nonneg=False)
    r.ex = None
    ln = None
    if nlen is not None and not (isinstance(nlen, Const) and nlen.v is None):
        ln = _int_aff(nlen)
    elif a.shape is not None and len(a.shape) == 1 and a.shape[0] is not None:
        ln = (a.shape[0] - 1).scale(2)
    r.shape = (ln,) if (a.shape is None or len(a.shape) == 1) else None
    r.taint = a.taint | taints(nlen)
    r.q = None
    if ln is not None:
        from . import segmap
        r.seg = segmap.identity('F', ln)
    itp.events.append(('fft', node, name.split('.')[-1], a.shape, nlen, -1, a))
    itp.events.append(('fft-out', node, r.shape, itp.cur.qname if itp.cur else ''))
    if itp.d4:
        itp.events.append(('fft-q', node, a.q, itp.cur.qname if itp.cur else ''))
    return r


@prim('scipy.linalg.hankel')
def p_hankel(itp, name, args, kw, node, st):
    c = N(args[0])
    r_ = N(args[1]) if len(args) > 1 else None
    if c is None or (len(args) > 1 and r_ is None):
        return mk(itp, 'hankel', *args)
    r = c.copy() if r_ is None else num_add(itp, c, r_, node, 'concat')
    n0 = c.shape[0] if c.shape else None
    n1 = (r_.shape[0] if r_.shape else None) if r_ is not None else n0
    r.shape = (n0, n1)
    r.ex = None
    r.zero = False
    r.q = None
    r.amap = _toeplitz_map(args[0], args[1] if len(args) > 1 else None, 'hankel', n0, n1)
    return r


# ----------------------------------------------------------------------------- function forms of operators and other
# common numpy spellings (so that an equivalent re-spelling of an expression is analysed like the operator form)
def _binop_prim(opcls):
    def h(itp, name, args, kw, node, st):
        if len(args) < 2:
            return mk(itp, name, *args)
        from .interp_expr import elementwise_seg, origin_of, grid_of
        op = opcls()
        wh = kw.get('where')
        if wh is not None and not (isinstance(wh, Const) and wh.v is True):
            # masked ufunc: entries where the mask is false keep the value of `out` (uninitialised without one)
            o = kw.get('out')
            fill = getattr(o, 'fill', None) if isinstance(o, Num) else None
            itp.events.append(('masked-ufunc', node, name, fill, itp.cur.qname if itp.cur else ''))
        r = itp.binop(op, args[0], args[1], node)
        elementwise_seg(op, args[0], args[1], r)
        origin_of(args[0], args[1], r, op)
        grid_of(args[0], args[1], r, op)
        _ufunc_out(itp, node, kw, args, r, st)
        return r
    return h


def _ufunc_out(itp, node, kw, args, r, st):
    """ufunc(..., out=name) (or a third positional argument): the result is written into that array in place"""
    o = kw.get('out') if 'out' in kw else (args[2] if len(args) > 2 else None)
    if o is None or (isinstance(o, Const) and o.v is None) or st is None or not isinstance(node, ast.Call):
        return
    onode = None
    for k_ in node.keywords:
        if k_.arg == 'out':
            onode = k_.value
    if onode is None and len(node.args) > 2:
        onode = node.args[2]
    if isinstance(onode, ast.Name) and isinstance(o, Num) and isinstance(r, Num) and onode.id in st.env:
        fn = itp.cur.qname if itp.cur else ''
        itp.events.append(('store-aug', node, o.shape, taint_of(r) | itp.pc, frozenset(), fn))
        if o.view_of:
            itp.events.append(('inplace', node, o.view_of, fn))
        itp.written(onode.id, o, r, st, node)
        st.env[onode.id] = r


PRIMS['numpy.add'] = _binop_prim(ast.Add)
PRIMS['numpy.multiply'] = _binop_prim(ast.Mult)
PRIMS['numpy.subtract'] = _binop_prim(ast.Sub)
PRIMS['numpy.divide'] = PRIMS['numpy.true_divide'] = _binop_prim(ast.Div)
PRIMS['numpy.floor_divide'] = _binop_prim(ast.FloorDiv)
PRIMS['numpy.power'] = PRIMS['numpy.float_power'] = _binop_prim(ast.Pow)
PRIMS['numpy.mod'] = PRIMS['numpy.remainder'] = _binop_prim(ast.Mod)


@prim('numpy.negative', 'numpy.positive')
def p_negative(itp, name, args, kw, node, st):
    e = ast.UnaryOp(op=ast.USub() if name.endswith('negative') else ast.UAdd(), operand=ast.Constant(0))
    v = args[0]
    if isinstance(v, Const) and isinstance(v.v, (int, float, complex)):
        return Const(-v.v if name.endswith('negative') else v.v, v.taint)
    n = N(v)
    if n is None:
        return mk(itp, name, v)
    from .interp_expr import unary_value
    r = unary_value(itp, ast.UAdd() if name.endswith('positive') else ast.USub(), v, node)
    _ufunc_out(itp, node, kw, [args[0], None] + list(args[1:]), r, st)
    return r


@prim('numpy.square')
def p_square(itp, name, args, kw, node, st):
    from .interp_expr import elementwise_seg
    r = itp.binop(ast.Mult(), args[0], args[0], node)
    elementwise_seg(ast.Mult(), args[0], args[0], r)
    _ufunc_out(itp, node, kw, [args[0], None] + list(args[1:]), r, st)
    return r


@prim('numpy.reciprocal')
def p_reciprocal(itp, name, args, kw, node, st):
    from .interp_expr import elementwise_seg
    r = itp.binop(ast.Div(), Const(1.0), args[0], node)
    elementwise_seg(ast.Div(), Const(1.0), args[0], r)
    return r


@prim('numpy.maximum', 'numpy.minimum', 'numpy.fmax', 'numpy.fmin')
def p_maximum(itp, name, args, kw, node, st):
    a, b = N(args[0]), N(args[1])
    if a is None or b is None:
        return mk(itp, name, *args)
    r = num_add(itp, a, b, node, 'concat')
    r.ex = None
    # a bound applied element by element: (kind, the constant bound if one operand is a literal)
    lit = [x.v for x in args[:2] if isinstance(x, Const) and isinstance(x.v, (int, float))]
    itp.events.append(('clip', node, 'upper' if name.split('.')[-1] in ('minimum', 'fmin') else 'lower', lit[0] if lit else None,
                       a.taint | b.taint, itp.cur.qname if itp.cur else ''))
    return r


@prim('numpy.clip', 'ndarray.clip')
def p_clip(itp, name, args, kw, node, st):
    a = N(args[0])
    if a is None:
        return mk(itp, name, *args)
    lo_ = arg(args, kw, 1, 'a_min', kw.get('min'))
    hi_ = arg(args, kw, 2, 'a_max', kw.get('max'))
    for kind_, b_ in (('lower', lo_), ('upper', hi_)):
        if b_ is not None and not (isinstance(b_, Const) and b_.v is None):
            itp.events.append(('clip', node, kind_, b_.v if isinstance(b_, Const) and isinstance(b_.v, (int, float)) else None,
                               a.taint | taint_of(b_), itp.cur.qname if itp.cur else ''))
    r = a.copy()
    r.ex = None
    for b in list(args[1:3]) + [kw.get('a_min'), kw.get('a_max'), kw.get('min'), kw.get('max')]:
        nb = N(b) if b is not None and not (isinstance(b, Const) and b.v is None) else None
        if nb is not None:
            r = num_add(itp, r, nb, node, 'concat')
    r.shape = a.shape
    return r


@prim('numpy.full', 'numpy.full_like')
def p_full(itp, name, args, kw, node, st):
    if name.endswith('_like'):
        n0 = N(args[0])
        shape = n0.shape if n0 is not None else None
    else:
        shape = _shape_from(args[0])
    fv = arg(args, kw, 1, 'fill_value')
    f = N(fv) if fv is not None else None
    if f is None:
        return mk(itp, name, *args)
    r = f.copy(shape=shape)
    r.ex = None
    r.fill = fv.v if isinstance(fv, Const) else ('inf' if (isinstance(fv, ExtV) and fv.base in ('inf', 'Inf', 'infty')) else None)
    itp.events.append(('alloc', node, 'full', shape, taints(args[0])))
    return r


PRIMS['numpy.empty_like'] = PRIMS['numpy.zeros_like']


@prim('numpy.isclose', 'numpy.allclose', 'numpy.array_equal', 'numpy.isnan', 'numpy.isinf', 'numpy.isfinite', 'numpy.iscomplex')
def p_predicate(itp, name, args, kw, node, st):
    return BoolV(False, taints(*args))


@prim('numpy.complex128', 'numpy.complex64', 'numpy.float32', 'numpy.complex_', 'numpy.float_')
def p_npscalar(itp, name, args, kw, node, st):
    return p_float(itp, 'builtins.complex' if 'complex' in name else 'builtins.float', args, kw, node, st)


@prim('numpy.linalg.norm', 'scipy.linalg.norm')
def p_norm(itp, name, args, kw, node, st):
    a = N(args[0])
    if a is None or len(args) > 1 or kw:
        return mk(itp, name, *args)
    r = p_abs(itp, 'numpy.abs', [a], {}, node, st)
    r = N(r)
    r = r.copy(shape=())
    r.nonneg = True
    r.ex = None
    r.sz = None if a.shape != () else r.sz
    return r


@prim('ndarray.dot')
def p_ndarray_dot(itp, name, args, kw, node, st):
    return p_bilinear(itp, 'numpy.dot', args, kw, node, st)


@prim('numpy.ravel', 'ndarray.ravel')
def p_ravel(itp, name, args, kw, node, st):
    r = p_same(itp, 'ndarray.flatten', args, kw, node, st)
    if isinstance(r, Num) and isinstance(args[0], Num):
        itp.share(r, args[0], whole=False)      # ravel returns a view whenever it can
    return r


@prim('numpy.cumsum', 'ndarray.cumsum')
def p_cumsum(itp, name, args, kw, node, st):
    a = N(args[0])
    if a is None:
        return mk(itp, name, *args)
    r = a.copy()
    r.ex = None
    r.org = None
    if itp.d4 and not (isinstance(a.q, Aff) or a.q == 'any'):
        if a.q is not None:
            itp.conflict('add', 'q', 'cumulative sum over elements whose modulation charge depends on the index', node)
        r.q = None
    return r


PRIMS['ndarray.prod'] = PRIMS['numpy.prod']
PRIMS['ndarray.std'] = PRIMS['ndarray.var'] = PRIMS['numpy.std']
PRIMS['ndarray.round'] = PRIMS['numpy.round']
for _n in ('fft', 'ifft', 'rfft', 'irfft'):
    PRIMS['scipy.fft.' + _n] = PRIMS['numpy.fft.' + _n]
PRIMS['scipy.fft.fftshift'] = PRIMS['numpy.fft.fftshift']
PRIMS['scipy.fft.ifftshift'] = PRIMS['numpy.fft.ifftshift']
PRIMS['scipy.fftpack.fftshift'] = PRIMS['numpy.fft.fftshift']
PRIMS['scipy.fftpack.ifftshift'] = PRIMS['numpy.fft.ifftshift']
PRIMS['scipy.linalg.svd'] = PRIMS['numpy.linalg.svd']


@prim('numpy.fromiter')
def p_fromiter(itp, name, args, kw, node, st):
    return p_array(itp, 'numpy.array', [args[0]], {}, node, st)


PRIMS['numpy.matmul'] = lambda itp, name, args, kw, node, st: p_bilinear(itp, 'numpy.dot', args, kw, node, st)


@prim('numpy.real_if_close')
def p_real_if_close(itp, name, args, kw, node, st):
    """complex input comes back REAL when all imaginary parts are tiny: the dtype of the result depends on the values"""
    n = N(args[0])
    if n is None:
        return mk(itp, name, *args)
    r = n.copy()
    if n.cplx is not False:
        r.cplx = None
        itp.events.append(('dtype-by-value', node, name, itp.cur.qname if itp.cur else ''))
    if isinstance(args[0], Num) and args[0].seg is not None:
        r.seg = list(args[0].seg)
        r.segax = args[0].segax
    return r


@prim('functools.partial')
def p_partial(itp, name, args, kw, node, st):
    if not args:
        return mk(itp, name)
    return PartialV(args[0], args[1:], kw)


PRIMS['operator.mul'] = _binop_prim(ast.Mult)
PRIMS['operator.add'] = _binop_prim(ast.Add)
PRIMS['operator.sub'] = _binop_prim(ast.Sub)
PRIMS['operator.truediv'] = _binop_prim(ast.Div)


@prim('builtins.dict.fromkeys', 'dict.fromkeys')
def p_fromkeys(itp, name, args, kw, node, st):
    a = list(args)
    if a and isinstance(a[0], Const) and isinstance(a[0].v, dict) and len(a) == 3:
        a = a[1:]           # called on an instance
    if not a:
        return mk(itp, name, *args)
    keys = a[0]
    val = a[1] if len(a) > 1 else Const(None)
    ks = None
    if isinstance(keys, Const) and isinstance(keys.v, (list, tuple)):
        ks = list(keys.v)
    elif isinstance(keys, Tup) and all(isinstance(i, Const) for i in keys.items):
        ks = [i.v for i in keys.items]
    if ks is None:
        return mk(itp, name, *args)
    return Const({k_: val for k_ in ks})


@prim('ndarray.__getitem__', 'list.__getitem__')
def p_getitem(itp, name, args, kw, node, st):
    if len(args) != 2:
        return mk(itp, name, *args)
    return itp.index_value(args[0], args[1], node)


@prim('numpy.allclose', 'numpy.isclose')
def p_allclose(itp, name, args, kw, node, st):
    """allclose(a, b, rtol=1e-5, atol=1e-8) tests |a - b| <= atol + rtol*|b|: unless atol is 0 the test compares a quantity that
    scales with the data against an absolute constant, so the decision depends on the amplitude (a scale-variant decision)"""
    if len(args) < 2:
        return mk(itp, name, *args)
    a, b = args[0], args[1]
    rtol = arg(args, kw, 2, 'rtol', Const(1e-5))
    atol = arg(args, kw, 3, 'atol', Const(1e-8))
    cap = []
    save = itp._capture
    itp._capture = cap
    try:
        d = itp.binop(ast.Sub(), a, b, node)
        left = p_abs(itp, 'numpy.abs', [d], {}, node, st)
        right = itp.binop(ast.Mult(), rtol, p_abs(itp, 'numpy.abs', [b], {}, node, st), node)
        nl, nr, na = N(left), N(right), N(atol)
        if nl is not None and nr is not None:
            num_add(itp, nl, nr, node, 'compare')
        if na is not None and not na.zero and nl is not None:
            num_add(itp, nl, na, node, 'compare')          # the absolute term
    finally:
        itp._capture = save
    labels = frozenset(itp.new_variant(c.comp, 'comparison is not invariant (%s has an absolute tolerance atol=%s): %s'
                                       % (name.split('.')[-1], getattr(atol, 'v', '?'), c.msg), node) for c in cap)
    t = taints(a, b, rtol, atol) | labels
    if name.endswith('allclose'):
        return BoolV(bool(labels), t)
    nl = N(left)
    m = Num(zero_deg(), nl.shape if nl is not None else None, False, taint=t)
    m.role = 'mask'
    return m


@prim('numpy.count_nonzero')
def p_count_nonzero(itp, name, args, kw, node, st):
    """the number of true / non-zero entries: an integer decided by the values (the mask keeps its scale-variance labels)"""
    return IntV(None, taints(*args))


@prim('numpy.shape')
def p_npshape(itp, name, args, kw, node, st):
    from .interp_expr import attr_of
    return attr_of(itp, args[0], 'shape', st, node) if args else mk(itp, name)


@prim('numpy.size', 'numpy.ndim')
def p_npsize(itp, name, args, kw, node, st):
    from .interp_expr import attr_of
    return attr_of(itp, args[0], name.split('.')[-1], st, node) if len(args) == 1 else mk(itp, name, *args)


@prim('list.pop')
def p_list_pop(itp, name, args, kw, node, st):
    """seq.pop([i]): one item of the sequence (the last by default); the abstract sequence keeps its element type"""
    v = args[0] if args else None
    if isinstance(v, SeqV) and v.elem is not None:
        return v.elem
    if isinstance(v, Tup) and v.items:
        if len(args) == 1:
            return v.items[-1]
        e = None
        for it_ in v.items:
            e = it_ if e is None else join(e, it_)
        return e
    if isinstance(v, Num) and v.is_array:
        return itp.index_value(v, Const(-1) if len(args) == 1 else args[1], node)
    return mk(itp, name, *args)


@prim('itertools.islice')
def p_islice(itp, name, args, kw, node, st):
    """islice(seq, stop) / islice(seq, start, stop[, step]) of an array or list: the slice seq[start:stop:step]"""
    if len(args) == 2 and isinstance(args[0], Opaque) and args[0].what in ('range', 'enumerate'):
        # the first n items of a range (or of an enumerated range): the range cut after n steps
        src = args[0]
        rng = src if src.what == 'range' else (src.args[0] if len(src.args) == 1 else None)
        if isinstance(rng, Opaque) and rng.what == 'range' and rng.args[0] is not None and rng.args[2] in (1, -1):
            lo, hi, step = rng.args
            n_ = _int_aff(args[1])
            cut = Opaque('range', rng.taint | taints(args[1]))
            new_hi = (lo + n_.scale(step)) if n_ is not None else None
            if new_hi is not None and hi is not None:
                # never beyond the original end
                ok = aff_le(new_hi, hi) if step == 1 else aff_le(hi, new_hi)
                new_hi = new_hi if ok else None
            cut.args = (lo, new_hi, step)
            if src.what == 'range':
                return cut
            o = Opaque('enumerate', src.taint)
            o.args = [cut]
            return o
    if len(args) < 2 or not isinstance(args[0], (Num, Tup, SeqV)):
        return mk(itp, name, *args)
    none = Const(None)
    if len(args) == 2:
        sl = SliceV(None, args[1], None)
    else:
        sl = SliceV(args[1], args[2], args[3] if len(args) > 3 else None)
    for f_ in ('lo', 'hi', 'step'):
        v_ = getattr(sl, f_)
        if isinstance(v_, Const) and v_.v is None:
            setattr(sl, f_, None)
    return itp.index_value(args[0], sl, node)


@prim('builtins.slice')
def p_slice(itp, name, args, kw, node, st):
    a = [None if (isinstance(x, Const) and x.v is None) else x for x in args]
    if len(a) == 1:
        return SliceV(None, a[0], None)
    if len(a) == 2:
        return SliceV(a[0], a[1], None)
    if len(a) == 3:
        return SliceV(a[0], a[1], a[2])
    return mk(itp, name, *args)


@prim('itertools.chain')
def p_chain(itp, name, args, kw, node, st):
    """chain(a, b, ..): the items of a, then of b, ...: a sequence whose element is the join of the parts"""
    e = None
    n = Aff(0)
    t = frozenset()
    for a in args:
        el, ln = itp.iter_elem(a, node, None)
        e = el if e is None else join(e, el)
        n = (n + ln) if (n is not None and ln is not None) else None
        t |= taint_of(a)
    return SeqV(e, n, t)


@prim('itertools.accumulate')
def p_accumulate(itp, name, args, kw, node, st):
    """accumulate(seq[, func][, initial=]): the running fold; every item has the type of the fold (a sum by default)"""
    if not args:
        return mk(itp, name)
    f = args[1] if len(args) > 1 else kw.get('func')
    init = kw.get('initial')
    if init is not None and isinstance(init, Const) and init.v is None:
        init = None
    el, n = itp.iter_elem(args[0], node, None)
    if f is None or (isinstance(f, ExtV) and f.dotted in ('operator.add', 'operator.iadd')):
        tot = p_sum(itp, 'builtins.sum', [args[0]] + ([init] if init is not None else []), {}, node, st)
    else:
        tot = init if init is not None else el
        for _ in range(2):
            tot = join(tot, itp.call(f, [tot, el], {}, node, st))
    cnt = (n + 1) if (n is not None and init is not None) else n
    return SeqV(tot, cnt, taint_of(tot))


@prim('itertools.product')
def p_product(itp, name, args, kw, node, st):
    o = Opaque('product', taints(*args))
    o.args = list(args)
    return o


@prim('numpy.add.reduce', 'numpy.multiply.reduce')
def p_ufunc_reduce(itp, name, args, kw, node, st):
    """np.add.reduce(a, axis=0) is np.sum(a, axis=0) (default axis 0, not None); multiply.reduce is np.prod"""
    k2 = dict(kw)
    if 'axis' not in k2 and len(args) < 2:
        k2['axis'] = Const(0)
    return (p_sum if 'add' in name else PRIMS['numpy.prod'])(itp, 'numpy.sum' if 'add' in name else 'numpy.prod', list(args), k2, node, st)


@prim('builtins.setattr')
def p_setattr(itp, name, args, kw, node, st):
    if len(args) == 3 and isinstance(args[0], Ref) and args[0].cls is not None and isinstance(args[1], Const) and isinstance(args[1].v, str):
        defcls = itp.cur.cls if itp.cur is not None else None
        itp.setattr_ref(args[0], args[1].v, args[2], st, node, defcls)
        return Const(None)
    return mk(itp, name, *args)


@prim('builtins.frozenset', 'builtins.set')
def p_frozenset(itp, name, args, kw, node, st):
    if not args:
        return Const(())
    v = args[0]
    if isinstance(v, Const) and isinstance(v.v, (list, tuple, str)):
        return Const(tuple(v.v), v.taint)
    if isinstance(v, Tup) and all(isinstance(i, Const) for i in v.items):
        return Const(tuple(i.v for i in v.items), v.taint)
    return mk(itp, name, *args)


@prim('functools.reduce')
def p_reduce(itp, name, args, kw, node, st):
    """reduce(f, seq[, init]): the left fold; with operator.add it is sum(seq, init) term by term"""
    if len(args) < 2:
        return mk(itp, name, *args)
    f, seq = args[0], args[1]
    init = args[2] if len(args) > 2 else None
    if isinstance(f, ExtV) and f.dotted in ('operator.add', 'operator.iadd'):
        return p_sum(itp, 'builtins.sum', [seq] + ([init] if init is not None else []), {}, node, st)
    el, n = itp.iter_elem(seq, node, None)
    r = init if init is not None else el
    for _ in range(2):
        r = join(r, itp.call(f, [r, el], {}, node, st))
    return r


@prim('builtins.divmod')
def p_divmod(itp, name, args, kw, node, st):
    if len(args) != 2:
        return mk(itp, name, *args)
    return Tup([itp.binop(ast.FloorDiv(), args[0], args[1], node), itp.binop(ast.Mod(), args[0], args[1], node)])


@prim('numpy.subtract.outer', 'numpy.add.outer', 'numpy.multiply.outer')
def p_ufunc_outer(itp, name, args, kw, node, st):
    """ufunc.outer(a, b)[i, j] = a[i] op b[j]: the broadcast a[:, newaxis] op b[newaxis, :]"""
    if len(args) != 2:
        return mk(itp, name, *args)
    a, b = N(args[0]), N(args[1])
    if a is None or b is None or a.shape is None or b.shape is None or len(a.shape) != 1 or len(b.shape) != 1:
        return mk(itp, name, *args)
    col = itp.index_value(args[0], Tup([SliceV(None, None, None), Const(None)]), node)
    row = itp.index_value(args[1], Tup([Const(None), SliceV(None, None, None)]), node)
    op = {'subtract': ast.Sub, 'add': ast.Add, 'multiply': ast.Mult}[name.split('.')[1]]()
    from .interp_expr import grid_of
    r = itp.binop(op, col, row, node)
    grid_of(col, row, r, op)
    return r


@prim('builtins.map')
def p_map(itp, name, args, kw, node, st):
    """map(f, a, b, ...): f applied to corresponding elements; the result is a sequence as long as the shortest argument"""
    if len(args) < 2:
        return mk(itp, name, *args)
    zo = Opaque('zip', taints(*args[1:]))
    zo.args = list(args[1:])
    tup, n0 = itp.iter_elem(zo, node, node)            # lock step: one position symbol for all the arguments
    els = list(tup.items) if isinstance(tup, Tup) else [tup]
    r = itp.call(args[0], els, {}, node, st)
    out = SeqV(r, n0, taint_of(r))
    # the position symbol the items are written in (if the lock-step form applied): a later map / zip over this sequence and
    # arrays keeps using it, so products of corresponding items stay typed by position
    key = (itp.cur.qname if itp.cur else '', getattr(node, 'lineno', 0), getattr(node, 'col_offset', 0), 'zip')
    sym = itp.loopsyms.get(key)
    ps = set(getattr(a, 'possym', None) for a in args[1:] if isinstance(a, SeqV))
    if len(ps) == 1 and None not in ps:
        out.possym = list(ps)[0]
    elif sym is not None and not ps:
        out.possym = sym
    return out


@prim('numpy.take')
def p_take(itp, name, args, kw, node, st):
    if len(args) < 2 or kw.get('axis') is not None or len(args) > 2:
        return mk(itp, name, *args)
    return itp.index_value(args[0], args[1], node)


@prim('numpy.einsum')
def p_einsum(itp, name, args, kw, node, st):
    """single-operand reductions only ('ab->b', 'ab->a', 'a->'): a sum over the dropped axes"""
    spec = args[0].v if args and isinstance(args[0], Const) and isinstance(args[0].v, str) else None
    if spec is not None and ',' in spec:
        return _einsum_multi(itp, name, spec.replace(' ', ''), args, kw, node, st)
    if spec is None or len(args) != 2 or '->' not in spec or ',' in spec:
        return mk(itp, name, *args)
    lhs, rhs = spec.replace(' ', '').split('->')
    if len(set(lhs)) != len(lhs) or not set(rhs) <= set(lhs) or list(rhs) != [c for c in lhs if c in rhs]:
        return mk(itp, name, *args)
    r = args[1]
    drop = [i for i, c in enumerate(lhs) if c not in rhs]
    for ax in sorted(drop, reverse=True):
        r = p_sum(itp, 'numpy.sum', [r], {'axis': Const(ax)}, node, st)
    return r


def _einsum_multi(itp, name, spec, args, kw, node, st):
    """several operands: (a) identical subscripts -> elementwise product, then a sum over the dropped axes; (b) the two-operand
    matrix / inner products -> numpy.dot; (c) otherwise the product typed on exponents only (shape from the subscripts)"""
    ops = [N(a) for a in args[1:]]
    if any(o is None for o in ops) or kw:
        return mk(itp, name, *args)
    if '->' in spec:
        lhs, rhs = spec.split('->')
    else:
        lhs = spec
        flat = lhs.replace(',', '')
        rhs = ''.join(sorted(c for c in set(flat) if flat.count(c) == 1))
    subs = lhs.split(',')
    if len(subs) != len(ops) or any(len(set(x)) != len(x) for x in subs) or len(set(rhs)) != len(rhs):
        return mk(itp, name, *args)
    if all(x == subs[0] for x in subs) and set(rhs) <= set(subs[0]) and list(rhs) == [c for c in subs[0] if c in rhs]:
        r = args[1]
        for o in args[2:]:
            r = itp.binop(ast.Mult(), r, o, node)
        for ax in sorted([i for i, c in enumerate(subs[0]) if c not in rhs], reverse=True):
            r = p_sum(itp, 'numpy.sum', [r], {'axis': Const(ax)}, node, st)
        return r
    if len(ops) == 2 and (subs[0], subs[1], rhs) in (('ij', 'j', 'i'), ('ij', 'jk', 'ik'), ('i', 'ij', 'j')):
        return p_bilinear(itp, 'numpy.dot', [args[1], args[2]], {}, node, st)
    dims = {}
    for x, o in zip(subs, ops):
        if o.shape is None or len(o.shape) != len(x):
            return mk(itp, name, *args)
        for c, d in zip(x, o.shape):
            dims.setdefault(c, d)
    r = ops[0].copy(shape=())
    for o in ops[1:]:
        r = num_mul(itp, r, o.copy(shape=()), node)
    r = r.copy(shape=tuple(dims.get(c) for c in rhs), taint=taints(*args[1:]))
    r.ex = None
    r.q = None
    r.nonneg = False
    r.sz = r.sz if all(o.sz is not None for o in ops) else None
    return r


@prim('numpy.vstack', 'numpy.row_stack', 'numpy.column_stack')
def p_stack2(itp, name, args, kw, node, st):
    """vstack((r0, r1, ..)): equal-length vectors as the rows of a matrix (2-D parts keep their rows);
    column_stack((c0, c1, ..)): vectors as columns next to 2-D blocks with the same number of rows"""
    v = args[0] if args else None
    if not isinstance(v, Tup) or not v.items:
        return mk(itp, name, *args)
    parts = [N(_seq_as_num(p_)) for p_ in v.items]
    if any(p_ is None or p_.shape is None or len(p_.shape) not in (1, 2) for p_ in parts):
        return mk(itp, name, *args)
    cols = name.endswith('column_stack')
    r = None
    cnt = Aff(0)
    other = None
    for p_ in parts:
        if len(p_.shape) == 1:
            cnt = (cnt + 1) if cnt is not None else None
            o_ = p_.shape[0]
        else:
            k_ = p_.shape[1] if cols else p_.shape[0]
            cnt = (cnt + k_) if (cnt is not None and k_ is not None) else None
            o_ = p_.shape[0] if cols else p_.shape[1]
        other = o_ if other is None else other
        r = p_.copy() if r is None else num_add(itp, r, p_, node, 'concat')
    r = r.copy(shape=((other, cnt) if cols else (cnt, other)), taint=taints(*v.items))
    r.ex = None
    if itp.d4:
        qs = [p_.q for p_ in parts]
        same = all(isinstance(q_, Aff) for q_ in qs) and all(q_ == qs[0] for q_ in qs)
        r.q = qs[0] if same else ('any' if all(q_ == 'any' for q_ in qs) else None)
    if not cols and all(len(p_.shape) == 1 for p_ in parts) and len(parts) <= 4:
        r.stack = list(v.items)          # the rows, for a following matrix-vector product (see numpy.dot)
    return r


@prim('numpy.trace', 'ndarray.trace')
def p_trace(itp, name, args, kw, node, st):
    """trace(M, offset=k): the sum of the entries of one diagonal"""
    n = N(args[0])
    if n is None or n.shape is None or len(n.shape) != 2:
        return mk(itp, name, *args)
    r = n.copy(shape=(), taint=n.taint | taints(*args[1:]) | taints(*kw.values()))
    r.ex = None
    r.intdt = n.intdt
    if itp.d4 and not (isinstance(n.q, Aff) or n.q == 'any'):
        from . import charge as Q
        r.q = None
        off = arg(args, kw, 1, 'offset', Const(0))
        k = _int_aff(off)
        if Q.is_lin2(n.q) and k is not None:
            # entries (i, i+k): charge (ar+ac)*i + ac*k + b -- one charge for the whole diagonal iff ar + ac == 0
            if n.q[1] + n.q[2] == 0:
                r.q = n.q[3] + k.scale(n.q[2])
            else:
                itp.conflict('add', 'q', 'trace of a matrix whose diagonal entries carry different modulation charges (%s)' % Q.show(n.q), node)
    return r


@prim('numpy.copyto')
def p_copyto(itp, name, args, kw, node, st):
    """copyto(dst, src): dst[...] = src"""
    if len(args) >= 2 and isinstance(node, ast.Call) and node.args and isinstance(node.args[0], ast.Name) and isinstance(args[0], Num):
        t = ast.Subscript(value=ast.Name(id=node.args[0].id, ctx=ast.Load()), slice=ast.Slice(lower=None, upper=None, step=None), ctx=ast.Store())
        ast.copy_location(t, node)
        ast.fix_missing_locations(t)
        itp.store_subscript(t, args[1], st, node)
        return Const(None)
    return mk(itp, name, *args)


@prim('numpy.put')
def p_put(itp, name, args, kw, node, st):
    """put(a, ind, v): a.flat[ind] = v -- positions given by an index array: a weak update of the target"""
    if len(args) >= 3 and isinstance(node, ast.Call) and node.args and isinstance(node.args[0], ast.Name) and isinstance(args[0], Num) \
            and node.args[0].id in st.env:
        a, v = args[0], N(args[2])
        if v is None:
            return mk(itp, name, *args)
        new = num_add(itp, a, v, node, 'store')
        new = new.copy(shape=a.shape, cplx=a.cplx, taint=a.taint | v.taint | taints(args[1]))
        new.ex = None
        fn = itp.cur.qname if itp.cur else ''
        itp.events.append(('store', node, a.shape, taint_of(v) | itp.pc, taints(args[1]), fn))
        if a.view_of:
            itp.events.append(('inplace', node, a.view_of, fn))
        itp.written(node.args[0].id, a, new, st, node)
        st.env[node.args[0].id] = new
        return Const(None)
    return mk(itp, name, *args)
