"""Semantics-preserving canonicalisation applied before abstract evaluation:
inside an additive chain  E.real**2 + E.imag**2  (same side-effect-free E, equal signs) is read as abs(E)**2."""
import ast
import copy


def _sq(node, attr):
    if isinstance(node, ast.BinOp) and isinstance(node.op, ast.Pow) and isinstance(node.right, ast.Constant) \
            and node.right.value in (2, 2.0):
        b = node.left
        if isinstance(b, ast.Attribute) and b.attr == attr:
            return ast.dump(b.value), b.value
    return None


def _pure(e):
    return not any(isinstance(n, ast.Call) for n in ast.walk(e))


class ModIdiom(ast.NodeTransformer):
    def visit_BinOp(self, node):
        self.generic_visit(node)
        if not isinstance(node.op, (ast.Add, ast.Sub)):
            return node
        terms = []

        def flat(n, sign):
            if isinstance(n, ast.BinOp) and isinstance(n.op, (ast.Add, ast.Sub)):
                flat(n.left, sign)
                flat(n.right, sign if isinstance(n.op, ast.Add) else -sign)
            else:
                terms.append([sign, n])
        flat(node, 1)
        changed = False
        for i, (s1, t1) in enumerate(terms):
            if t1 is None:
                continue
            m = _sq(t1, 'real')
            if not m or not _pure(m[1]):
                continue
            for j, (s2, t2) in enumerate(terms):
                if t2 is None or i == j:
                    continue
                m2 = _sq(t2, 'imag')
                if m2 and m2[0] == m[0] and s1 == s2:
                    new = ast.BinOp(ast.Call(ast.Name('abs', ast.Load()), [m[1]], []), ast.Pow(), ast.Constant(2))
                    terms[i][1] = ast.copy_location(new, t1)
                    terms[j][1] = None
                    changed = True
                    break
        if not changed:
            return node
        terms = [t for t in terms if t[1] is not None]
        out = None
        for s_, t in terms:
            if out is None:
                out = t if s_ > 0 else ast.UnaryOp(ast.USub(), t)
            else:
                out = ast.BinOp(out, ast.Add() if s_ > 0 else ast.Sub(), t)
        return ast.fix_missing_locations(ast.copy_location(out, node))


def canonicalise(fnode):
    return ModIdiom().visit(copy.deepcopy(fnode))
