"""statement execution (methods of Interp)"""
import ast
from fractions import Fraction as F

from .frontend import FuncSym, normalise
from .values import *      # noqa
from .core import PathEnd, St, Frame, join, join_st, join_heap
from .interp_expr import num_add, _asint

LOOP_PASSES = 3


def _full_overwrite(self, stmts, i, st):
    """`X[0:a] = v ; X[a:n] = w` with n == len(X): the two slice stores overwrite the whole buffer, so its old
    contents (and their type) are dead.  Returns the name X or None."""
    if i + 1 >= len(stmts):
        return None
    a, b = stmts[i], stmts[i + 1]
    for x in (a, b):
        if not (isinstance(x, ast.Assign) and len(x.targets) == 1 and isinstance(x.targets[0], ast.Subscript)
                and isinstance(x.targets[0].value, ast.Name) and isinstance(x.targets[0].slice, (ast.Slice, ast.Name))):
            return None
    ta, tb = a.targets[0], b.targets[0]
    if ta.value.id != tb.value.id:
        return None
    name = ta.value.id
    arr = st.env.get(name)
    if not isinstance(arr, Num) or arr.shape is None or len(arr.shape) != 1 or arr.shape[0] is None:
        return None
    # the two slices by value (literal `lo:hi` or a name bound to slice(lo, hi)): [0, a) then [a, len)
    try:
        sa, sb = self.eval(ta.slice, st), self.eval(tb.slice, st)
    except PathEnd:
        return None
    if not isinstance(sa, SliceV) or not isinstance(sb, SliceV) or sa.step is not None or sb.step is not None:
        return None

    def bound(v):
        if v is None:
            return None
        iv = _asint(v)
        return iv.a if (iv is not None and iv.a is not None) else False
    la, ha, lb, hb = bound(sa.lo), bound(sa.hi), bound(sb.lo), bound(sb.hi)
    if False in (la, ha, lb, hb):
        return None
    if not (la is None or la == Aff(0)) or ha is None or lb is None or not (ha == lb):
        return None
    if hb is not None and hb != arr.shape[0]:
        return None
    # the right-hand sides must not read the buffer
    for x in (a, b):
        if any(isinstance(n, ast.Name) and n.id == name for n in ast.walk(x.value)):
            return None
    return name


def _keep_identity(new, old):
    """a buffer whose contents are declared dead keeps its storage identity (it is still the same array / view)"""
    new.mid, new.whole, new.view_of, new.rowview = old.mid, old.whole, old.view_of, old.rowview


def exec_block(self, stmts, st, frame):
    pair = None
    for i, s in enumerate(stmts):
        if st is None:
            return None
        if isinstance(s, ast.Assign):
            name = _full_overwrite(self, stmts, i, st)
            if name is not None:
                arr = st.env[name]
                st.env[name] = Num(zero=True, shape=arr.shape, cplx=arr.cplx, taint=frozenset())
                st.env[name].q = 'any'
                _keep_identity(st.env[name], arr)
                if arr.cover is not None and arr.shape is not None and len(arr.shape) == 1 and arr.shape[0] is not None:
                    from . import cover as CV
                    st.env[name].cover = CV.whole(arr.shape[0], 'zero')     # every piece is rewritten by the statements that follow
                pair = (name, i + 1, [])
        self.last_rhs = None
        st = self.exec_stmt(s, st, frame)
        if pair is not None and st is not None and i <= pair[1]:
            pair[2].append(getattr(self, 'last_rhs', None))
            if i == pair[1]:
                # the buffer now is the concatenation of the two stored vectors: so is its index map
                va, vb = pair[2] if len(pair[2]) == 2 else (None, None)
                cur = st.env.get(pair[0])
                if isinstance(cur, Num) and isinstance(va, Num) and isinstance(vb, Num) and va.seg is not None and vb.seg is not None \
                        and va.shape is not None and vb.shape is not None and len(va.shape) == 1 and len(vb.shape) == 1 \
                        and va.segax == 0 and vb.segax == 0:
                    from . import segmap
                    try:
                        sg = segmap.concat([list(va.seg), list(vb.seg)])
                    except Exception:
                        sg = None
                    if sg is not None and cur.shape is not None and len(cur.shape) == 1 and segmap.length(sg) == cur.shape[0]:
                        nw = cur.copy(seg=sg, segax=0)
                        _keep_identity(nw, cur)
                        nw.cover, nw.uninit, nw.c64 = cur.cover, cur.uninit, cur.c64
                        nw.mirror = va.mirror and vb.mirror
                        st.env[pair[0]] = nw
                pair = None
    return st


def exec_stmt(self, s, st, frame):
    try:
        return _exec(self, s, st, frame)
    except PathEnd:
        frame.last_end = 'raise'
        return None


def _exec(self, s, st, frame):
    if isinstance(s, ast.Expr):
        if isinstance(s.value, ast.Constant):
            return st
        self.eval(s.value, st)
        return st
    if isinstance(s, ast.Assign):
        v = self.eval(s.value, st)
        self.last_rhs = v
        for t in s.targets:
            self.bind(t, v, st, s)
        return st
    if isinstance(s, ast.AugAssign) and isinstance(s.target, ast.Subscript):
        # a[[i, j]] op= v : the same update applied to each listed element
        try:
            ixv = self.eval(s.target.slice, st)
        except PathEnd:
            ixv = None
        items = None
        if isinstance(ixv, Tup) and ixv.mutable and 0 < len(ixv.items) <= 4 and all(_asint(i_) is not None for i_ in ixv.items):
            items = list(ixv.items)
        elif isinstance(ixv, Const) and isinstance(ixv.v, list) and 0 < len(ixv.v) <= 4 and all(isinstance(i_, int) for i_ in ixv.v):
            items = [Const(i_) for i_ in ixv.v]
        if items is not None:
            for k_, item in enumerate(items):
                tmp = '__fancy_index_%d' % k_
                st.env[tmp] = item
                s2 = ast.AugAssign(target=ast.Subscript(value=s.target.value, slice=ast.Name(id=tmp, ctx=ast.Load()), ctx=ast.Store()),
                                   op=s.op, value=s.value)
                ast.copy_location(s2, s)
                ast.fix_missing_locations(s2)
                st = _exec(self, s2, st, frame)
                if st is None:
                    return None
                st.env.pop(tmp, None)
            return st
    if isinstance(s, ast.AugAssign):
        load = ast.copy_location(_as_load(s.target), s.target)
        ast.fix_missing_locations(load)
        cur = self.eval(load, st)
        rhs = self.eval(s.value, st)
        v = self.binop(s.op, cur, rhs, s)
        if isinstance(s.target, ast.Name) and isinstance(cur, Num) and cur.is_array and cur.view_of:
            # numpy augmented assignment on an array works in place: the caller's data changes
            self.events.append(('inplace', s, cur.view_of, self.cur.qname if self.cur else ''))
            if isinstance(v, Num):
                v.view_of = cur.view_of
        if isinstance(s.target, ast.Name) and isinstance(cur, Num) and cur.is_array and isinstance(v, Num):
            self.events.append(('store-aug', s, cur.shape, taint_of(v) | self.pc, frozenset(), self.cur.qname if self.cur else ''))
            self.written(s.target.id, cur, v, st, s)
        from .interp_expr import elementwise_seg
        elementwise_seg(s.op, cur, rhs, v)
        self.bind(s.target, v, st, s)
        return st
    if isinstance(s, ast.Return):
        v = self.eval(s.value, st) if s.value is not None else Const(None)
        v = v.with_taint(self.pc) if self.pc else v
        frame.rets.append((v, st.heap))
        if getattr(frame, 'exit_envs', None) is not None:
            frame.exit_envs.append(dict(st.env))
        frame.last_end = 'return'
        want = self.capture_locals.get(frame.fsym.qname)
        if want:
            self.captured.setdefault(frame.fsym.qname, []).append(dict(st.env) if want == '*' else {k: st.env.get(k) for k in want})
        return None
    if isinstance(s, ast.Raise):
        frame.last_end = 'raise'
        return None
    if isinstance(s, ast.If):
        return self.s_If(s, st, frame)
    if isinstance(s, ast.For):
        return self.s_For(s, st, frame)
    if isinstance(s, ast.While):
        return self.s_While(s, st, frame)
    if isinstance(s, ast.Break):
        if frame.loops:
            frame.loops[-1]['breaks'].append(st)
        frame.last_break_hit = True
        frame.last_end = 'break'
        return None
    if isinstance(s, ast.Continue):
        if frame.loops:
            frame.loops[-1]['conts'].append(st)
        frame.last_end = 'continue'
        return None
    if isinstance(s, ast.Assert):
        self.in_assert += 1
        try:
            c = self.eval(s.test, st)
        finally:
            self.in_assert -= 1
        if self.truth(c) is False:
            return None
        if self.truth(c) is None:
            # `assert t` read as `if t: pass else: raise` for the admission rule
            cm = {id(x_): self.cmp_affs[id(x_)] for x_ in ast.walk(s.test) if id(x_) in self.cmp_affs}
            if cm:
                fake = ast.If(test=s.test, body=[ast.Pass()], orelse=[ast.Raise(exc=None, cause=None)])
                ast.copy_location(fake, s)
                self.events.append(('guard-raise', fake, 'orelse', cm, self.cur.qname if self.cur else ''))
        return st
    if isinstance(s, (ast.Pass, ast.Global, ast.Nonlocal, ast.Delete)):
        return st
    if isinstance(s, ast.Import):
        for a in s.names:
            from .frontend import ModSym, PKG
            name = a.name
            im = self.prog._internal(name)
            sym = self.prog._module_sym(name if a.asname else name.split('.')[0])
            st.env[a.asname or name.split('.')[0]] = ModV(sym)
        return st
    if isinstance(s, ast.ImportFrom):
        from .frontend import Module, PKG, ExtSym
        base = (PKG + ('.' + s.module if s.module else '')) if s.level else (s.module or '')
        im = self.prog._internal(base)
        for a in s.names:
            nm = a.name
            val = None
            if im == '__init__':
                if nm in self.prog.modules and nm != '__init__' and nm not in self.prog.pkg_namespace():
                    from .frontend import ModSym
                    val = ModV(ModSym(PKG + '.' + nm, nm))
                else:
                    ns = self.prog.pkg_namespace()
                    if nm in ns:
                        tm, tn = ns[nm]
                        from .interp_expr import sym_to_val
                        if tm == '__init__':
                            from .frontend import ConstSym
                            init = self.prog.modules['__init__']
                            if tn in init.consts:
                                val = sym_to_val(self, ConstSym('__init__', tn, init.consts[tn]))
                        else:
                            val = sym_to_val(self, self.prog.resolve(tm, tn))
                    elif nm in self.prog.modules:
                        from .frontend import ModSym
                        val = ModV(ModSym(PKG + '.' + nm, nm))
            elif im is not None:
                from .interp_expr import sym_to_val
                val = sym_to_val(self, self.prog.resolve(im, nm))
            else:
                from .interp_expr import sym_to_val
                val = sym_to_val(self, ExtSym(base + '.' + nm))
            if val is None:
                self.unsupported('unresolved import %s from %s' % (nm, base), s)
                val = TopV('import')
            st.env[a.asname or nm] = val
        return st
    if isinstance(s, ast.FunctionDef):
        st.env[s.name] = FuncV(FuncSym(self.cur.mod, s, None), closure=st.env)
        return st
    if isinstance(s, ast.Try):
        return self.s_Try(s, st, frame)
    if isinstance(s, ast.With):
        return self.exec_block(s.body, st, frame)
    self.unsupported('statement %s' % type(s).__name__, s)
    return st


def _as_load(t):
    return ast.parse(ast.unparse(t), mode='eval').body


# ----------------------------------------------------------------------------- binding
def bind(self, t, v, st, node):
    if self.pc and v is not None:
        v = v.with_taint(self.pc) if not isinstance(v, (Ref, FuncV, ClsV, ModV, ExtV, BoundMethod)) else v
    if isinstance(t, ast.Name):
        if isinstance(v, Num) and v.is_array and v.mid is None:
            v.mid = self.fresh_mid()
        st.env[t.id] = v
        views = self.frames[-1].__dict__.setdefault('slice_views', {}) if self.frames else None
        if views is not None:
            sv = getattr(v, 'slice_view', None) if isinstance(v, Num) else None
            def acyclic(nm):
                seen_ = set()
                while nm in views:
                    if nm == t.id or nm in seen_:
                        return False
                    seen_.add(nm)
                    nm = views[nm][0]
                return nm != t.id
            if sv is not None and isinstance(node, ast.Assign) and isinstance(node.value, ast.Subscript) and sv[0] != t.id \
                    and acyclic(sv[0]):
                views[t.id] = sv + (v.uid,)          # (a view of the name itself, or a cycle of views, is not followed)
            else:
                views.pop(t.id, None)
        return
    if isinstance(t, (ast.Tuple, ast.List)):
        n = len(t.elts)
        if isinstance(v, Tup) and len(v.items) == n:
            for e, x in zip(t.elts, v.items):
                self.bind(e, x, st, node)
            return
        if isinstance(v, SeqV):
            for e in t.elts:
                self.bind(e, v.elem if v.elem is not None else TopV('unpack'), st, node)
            return
        nv = tonum(v) if isinstance(v, (Num, Const)) else None
        if nv is not None and nv.is_array:
            sub = nv.copy(shape=tuple(nv.shape[1:]) if nv.shape else None)
            sub.ex = None
            for e in t.elts:
                self.bind(e, sub, st, node)
            return
        if isinstance(v, Tup):
            self.unsupported('unpacking %d values into %d targets' % (len(v.items), n), node)
        for e in t.elts:
            self.bind(e, TopV('unpack', taint_of(v)), st, node)
        return
    if isinstance(t, ast.Attribute):
        o = self.eval(t.value, st)
        if isinstance(o, Ref) and o.cls is not None:
            defcls = self.cur.cls if self.cur is not None else None
            self.setattr_ref(o, t.attr, v, st, node, defcls)
        elif isinstance(o, (ExtV, Opaque, ModV, TopV)):
            pass
        else:
            self.unsupported('attribute store on %s' % type(o).__name__, node)
        return
    if isinstance(t, ast.Subscript):
        self.store_subscript(t, v, st, node)
        return
    if isinstance(t, ast.Starred):
        self.bind(t.value, SeqV(v), st, node)
        return
    self.unsupported('assignment target %s' % type(t).__name__, node)


def store_subscript(self, t, v, st, node):
    from .interp_expr import view_target
    t2v = view_target(self, t, st)
    if t2v is not None:
        return self.store_subscript(t2v, v, st, node)
    base = self.eval(t.value, st)
    idx = self.eval(t.slice, st)
    rv = getattr(base, 'rowview', None) if isinstance(base, Num) else None
    from .interp_expr import value_key
    if rv is not None and isinstance(t.value, ast.Name) and not isinstance(idx, Tup):
        mname, sl, deps = rv
        M = st.env.get(mname)
        if isinstance(M, Num) and M.mid is not None and M.mid == base.mid and all(value_key(st.env.get(k_)) == i_ for k_, i_ in deps.items()):
            # row[j] = v where row is the view M[e]: the same store written as M[e, j] = v
            t2 = ast.Subscript(value=ast.Name(id=mname, ctx=ast.Load()), slice=ast.Tuple(elts=[sl, t.slice], ctx=ast.Load()), ctx=ast.Store())
            ast.copy_location(t2, t)
            ast.fix_missing_locations(t2)
            return self.store_subscript(t2, v, st, node)
    if isinstance(base, Num) and base.shape is not None and len(base.shape) == 2:
        _store_2d(self, t, base, idx, v, st, node)
    if isinstance(base, Num):
        nv = tonum(v)
        self.events.append(('store', node, base.shape, taint_of(v) | self.pc, taint_of(idx), self.cur.qname if self.cur else ''))
        self.events.append(('store-mid', node, base.mid))
        if base.view_of:
            self.events.append(('inplace', node, base.view_of, self.cur.qname if self.cur else ''))
        if nv is None:
            if not isinstance(v, TopV):
                self.unsupported('store of %s into an array' % type(v).__name__, node)
            new = base.copy(deg=top_deg(), taint=base.taint | taint_of(v) | taint_of(idx) | self.pc)
        else:
            if base.cplx is False and nv.cplx is True and not nv.rv and not nv.zero:
                self.conflict('store', 'dtype', 'a complex value is stored into a real array: its imaginary part is discarded', node)
            if base.intdt and getattr(nv, 'divd', False):
                self.events.append(('int-store', node, self.cur.qname if self.cur else ''))
            if getattr(nv, 'rev_of', None) is not None and nv.rev_of in (base.mid, base.uid) and base.org is not None:
                # a correlation sequence overwritten with its own mirror image: r[-k] = conj(r[k]) needs the conjugate for complex data
                self.events.append(('self-mirror', node, bool(base.cplx), nv.conj_of is not None or bool(nv.rv),
                                    self.cur.qname if self.cur else ''))
            key = normalise(t.value)
            # A[:] = v overwrites every element (numpy raises unless v has the same length or broadcasts)
            whole_ = isinstance(idx, SliceV) and idx.lo is None and idx.hi is None and idx.step is None
            if self.frames[-1].strong.get(key) or whole_:
                # covering loop / first full overwrite: the old element type is dead
                b0 = Num(zero=True, shape=base.shape, cplx=base.cplx, taint=frozenset())
                b0.q = 'any'
            else:
                b0 = base
            r = num_add(self, b0, nv, node, 'store')
            new = r.copy(shape=base.shape, cplx=base.cplx if base.cplx is not None else nv.cplx,
                         taint=b0.taint | nv.taint | taint_of(idx) | self.pc)
            new.ex = None
            new.rv = True if (b0.rv and nv.rv) or (b0.zero and nv.rv and base.cplx is False) else (True if base.cplx is False else None)
            if base.cplx is True and not (b0.rv and nv.rv):
                new.rv = None
            if b0.zero and base.cplx is True:
                new.rv = True if nv.rv and False else None
            new.nonneg = (b0.nonneg or b0.zero) and nv.nonneg
            new.role = base.role
            # numpy.empty: the buffer is initialised only once a covering loop / a full slice store has written every element
            new.uninit = bool(base.uninit) and not (self.frames[-1].strong.get(key) or whole_)
            if base.cover is not None and base.shape is not None and len(base.shape) == 1 and base.shape[0] is not None:
                # what the buffer holds piece by piece (cover.py): slice stores with affine bounds, unit step
                from . import cover as CV
                from .prims import _int_aff as _ia
                kind_ = 'zero' if (nv.zero or (isinstance(v, Const) and v.v == 0)) else 'val'
                if whole_:
                    new.cover = CV.whole(base.shape[0], kind_)
                elif isinstance(idx, SliceV) and idx.step is None:
                    lo_ = Aff(0) if idx.lo is None else _ia(idx.lo)
                    hi_ = base.shape[0] if idx.hi is None else _ia(idx.hi)
                    ok_ = lo_ is not None and hi_ is not None and lo_.nonneg() and hi_.nonneg()
                    new.cover = CV.store(base.cover, lo_, hi_, kind_, base.shape[0]) if ok_ else None
                elif not isinstance(idx, (SliceV, Tup)) and _asint(idx) is not None and _asint(idx).a is not None and _asint(idx).a.nonneg():
                    new.cover = CV.store(base.cover, _asint(idx).a, _asint(idx).a + 1, kind_, base.shape[0])
                else:
                    new.cover = None
            if self.d4:
                from . import charge as Q
                from . import segmap
                from .prims import _int_aff
                new.q = None
                bq = 'any' if (b0.zero and base.q in (None, 'any')) else b0.q
                shp = base.shape
                if shp is not None and len(shp) == 1:
                    if isinstance(idx, SliceV):
                        stp = 1
                        okq = True
                        if idx.step is not None:
                            sa_ = _int_aff(idx.step)
                            if sa_ is not None and sa_.is_const() and int(sa_.c) in (1, -1):
                                stp = int(sa_.c)
                            else:
                                okq = False
                        lo_abs = None
                        if okq and shp[0] is not None:
                            if idx.lo is None:
                                lo_abs = Aff(0) if stp == 1 else shp[0] - 1
                            else:
                                la = _int_aff(idx.lo)
                                lo_abs = segmap.norm_index(la, shp[0]) if la is not None else None
                        if okq:
                            new.q = Q.q_store_slice(self, bq, lo_abs, stp, nv.q, node)
                    else:
                        ia_ = _asint(idx)
                        ab = ia_.a if ia_ is not None else None
                        if ab is not None and shp[0] is not None:
                            ab2 = segmap.norm_index(ab, shp[0])
                            ab = ab2 if ab2 is not None else ab
                        new.q = Q.q_store_scalar(self, bq, ab, nv.q, node)
                elif shp is not None and len(shp) == 2 and isinstance(idx, Tup) and len(idx.items) == 2:
                    from .interp_expr import _axis_desc
                    rd, cd = _axis_desc(idx.items[0], shp[0]), _axis_desc(idx.items[1], shp[1])
                    full_r = isinstance(idx.items[0], SliceV) and idx.items[0].lo is None and idx.items[0].hi is None \
                        and idx.items[0].step is None
                    if rd is not None and cd is not None and rd[0] == 'int' and cd[0] == 'int':
                        new.q = Q.store_elem2(self, bq, rd[1], cd[1], nv.q, node)
                    elif full_r and cd is not None and cd[0] == 'int':
                        new.q = Q.store_column(self, bq, cd[1], nv.q, node)
                    elif rd is not None and rd[0] == 'slice' and rd[2] == 1 and rd[1] is not None and cd is not None and cd[0] == 'int' \
                            and (bq == 'any' or (Q.is_cols(bq) and not any(c_ == cd[1] for c_, _a, _b in bq[1])
                                                 and not any(j_ == cd[1] for (_i, j_) in bq[2]))):
                        # M[lo:hi, col] = vec into a column of a fresh (zero) buffer not written before: the rows outside lo:hi keep
                        # their zeros, which carry any charge -- the column is typed by the vector, shifted to start at row lo
                        vq_ = nv.q
                        if Q.is_lin(vq_):
                            vq_ = Q.lin(vq_[1], vq_[2] - rd[1].scale(vq_[1]))
                        new.q = Q.store_column(self, bq, cd[1], vq_, node)
            new.view_of = base.view_of
            new.mirror = nv.mirror if (b0.zero or b0.mirror == nv.mirror) else False
            if nv.zero:
                new.mirror = b0.mirror
            if base.seg is not None and len(base.shape or ()) == 1:
                from . import segmap
                ia = _asint(idx)
                vs = nv.seg
                if vs is None and nv.shape == () and not nv.is_array and isinstance(v, Num):
                    vs = None
                if ia is not None and ia.a is not None and vs is not None:
                    new.seg = segmap.setitem(base.seg, ia.a, vs)
                elif isinstance(idx, SliceV) and idx.step is None and vs is not None and base.shape[0] is not None \
                        and nv.shape is not None and len(nv.shape) == 1:
                    # B[lo:hi] = V on a re-arrangement B: the pieces before lo and after hi stay, V's map sits between them
                    from .prims import _int_aff
                    lo_ = Aff(0) if idx.lo is None else _int_aff(idx.lo)
                    hi_ = base.shape[0] if idx.hi is None else _int_aff(idx.hi)
                    lo_ = segmap.norm_index(lo_, base.shape[0]) if lo_ is not None else None
                    hi_ = hi_ if (hi_ is None or idx.hi is None) else segmap.norm_index(hi_, base.shape[0])
                    if lo_ is not None and hi_ is not None and segmap.length(vs) == hi_ - lo_:
                        try:
                            head = segmap.take(base.seg, Aff(0), lo_)
                            tail = segmap.take(base.seg, hi_, base.shape[0])
                            if head is not None and tail is not None:
                                new.seg = segmap.concat([head, list(vs), tail])
                        except Exception:
                            pass
            if base.shape is not None and len(base.shape) == 2 and nv.seg is not None and nv.shape is not None and len(nv.shape) == 1 \
                    and not isinstance(idx, (Tup, SliceV)) and _asint(idx) is not None:
                # M[i] = row: every row written carries the same index map along the second axis
                from . import segmap
                from .interp_expr import relabel, seg_structure
                if base.seg is None and (b0.zero or base.zero):
                    new.seg, new.segax = relabel(segmap.normalise(nv.seg)), 1
                elif base.seg is not None and base.segax == 1 and seg_structure(base.seg) == seg_structure(nv.seg):
                    new.seg, new.segax = base.seg, 1
        # write back
        tv = t.value
        if isinstance(tv, ast.Name):
            pend = self.frames[-1].__dict__.get('amap_pending', {})
            if tv.id in pend:
                new.amap = pend[tv.id]
            self.written(tv.id, base, new, st, node)
            st.env[tv.id] = new
        elif isinstance(tv, ast.Attribute):
            self.bind(tv, new, st, node)
        elif isinstance(tv, ast.Subscript):
            # A[i][j] = v : weak update of the outer array
            self.store_subscript(tv, new, st, node)
        return
    if isinstance(base, (Tup, SeqV)):
        tv = t.value
        e = base.elem if isinstance(base, SeqV) else None
        if isinstance(base, Tup):
            if isinstance(idx, Const) and isinstance(idx.v, int) and -len(base.items) <= idx.v < len(base.items):
                items = list(base.items)
                items[idx.v] = v
                new = Tup(items, base.taint, base.mutable)
                if isinstance(tv, ast.Name):
                    st.env[tv.id] = new
                return
            for i in base.items:
                e = join(e, i)
        new = SeqV(join(e, v), base.n if isinstance(base, SeqV) else Aff(len(base.items)), taint_of(base) | taint_of(v))
        if self.d4:
            # charges by position of a list that is filled item by item: lst[k] = v solves / checks the position law like an array
            from . import charge as Q
            ia_ = _asint(idx)
            vq_ = tonum(v).q if tonum(v) is not None else None
            old_q = getattr(base, 'qarr', None)
            if old_q is None:
                en = tonum(e) if e is not None and not isinstance(e, (Tup, SeqV, TopV)) else None
                old_q = 'any' if (en is not None and en.zero) else None
            if old_q is not None and ia_ is not None and ia_.a is not None and vq_ is not None:
                new.qarr = Q.q_store_scalar(self, old_q, ia_.a, vq_, node)
        if isinstance(tv, ast.Name):
            st.env[tv.id] = new
        return
    if isinstance(base, Const) and isinstance(base.v, dict):
        if isinstance(idx, Const) and isinstance(t.value, ast.Name):
            d = dict(base.v)
            d[idx.v] = v
            st.env[t.value.id] = Const(d, base.taint)
            return
        if isinstance(t.value, ast.Name):
            d = dict(base.v)
            d['<dyn>'] = v
            st.env[t.value.id] = Const(d, base.taint | taint_of(idx))
            return
    if isinstance(base, (TopV, Opaque)):
        return
    if isinstance(base, Const) and isinstance(base.v, list) and isinstance(t.value, ast.Name):
        # a literal list ([None, None], [0, 0]) used as a small table: continue as a list of its items
        as_list = Tup([x_ if isinstance(x_, Val) else Const(x_) for x_ in base.v], base.taint, mutable=True)
        st.env[t.value.id] = as_list
        return self.store_subscript(t, v, st, node)
    self.unsupported('element store into %s' % type(base).__name__, node)


def _store_2d(self, t, base, idx, v, st, node):
    """affine block maps of data matrices filled element by element or by 2-D slice stores (see values.Num.amap)"""
    if not isinstance(t.value, ast.Name):
        return
    name = t.value.id
    pend = self.frames[-1].__dict__.setdefault('amap_pending', {})
    cur = pend.get(name, base.amap)
    if cur == 'bad':
        return
    cur = list(cur or [])
    from .prims import _int_aff
    from . import segmap
    new = None
    if isinstance(idx, Tup) and len(idx.items) == 2 and isinstance(v, Num):
        i0, i1 = idx.items
        if _asint(i0) is not None and _asint(i1) is not None and v.shape == () and v.seg is not None and len(v.seg) == 1:
            e1, e2, sg = _asint(i0).a, _asint(i1).a, v.seg[0]
            if e1 is not None and e2 is not None:
                s1 = [x for x in e1.t if x in Aff.BOUNDS]
                s2 = [x for x in e2.t if x in Aff.BOUNDS]
                if len(s1) == 1 and len(s2) == 1 and e1.t[s1[0]] == 1 and e2.t[s2[0]] == 1 and s1[0] != s2[0]:
                    I, K = s1[0], s2[0]
                    rho, kap = e1 - Aff.sym(I), e2 - Aff.sym(K)
                    src = sg.start
                    ai, ak = src.t.get(I, F(0)), src.t.get(K, F(0))
                    c = src - Aff(0, {I: ai}) - Aff(0, {K: ak}) - rho.scale(ai) - kap.scale(ak)
                    if not any(x in Aff.BOUNDS for x in c.t):
                        loI, hiI = Aff.BOUNDS[I]
                        loK, hiK = Aff.BOUNDS[K]
                        if hiI is not None and hiK is not None:
                            new = (loI + rho, hiI + rho, loK + kap, hiK + kap, ai, ak, c, sg.src, bool(v.mirror))
        elif isinstance(i0, SliceV) and isinstance(i1, SliceV) and v.amap not in (None, 'bad') and i1.lo is None and i1.hi is None:
            lo = _int_aff(i0.lo) if i0.lo is not None else Aff(0)
            if lo is not None and len(v.amap) == 1:
                r0, r1, k0, k1, ai, ak, c, src, cj = v.amap[0]
                new = (r0 + lo, r1 + lo, k0, k1, ai, ak, c - lo.scale(ai), src, cj)
        elif isinstance(i0, SliceV) and isinstance(i1, SliceV) and v.amap == 'bad':
            pend[name] = 'bad'
            return
    elif isinstance(idx, SliceV) and isinstance(v, Num) and idx.step is None and v.shape is not None and len(v.shape) == 2:
        # C[a:b] = M  /  C[:] = M : the rows of M land at rows a.. of C
        if v.amap == 'bad':
            pend[name] = 'bad'
            return
        lo = _int_aff(idx.lo) if idx.lo is not None else Aff(0)
        if lo is not None and base.shape[0] is not None:
            lo2 = segmap.norm_index(lo, base.shape[0])
            lo = lo2 if lo2 is not None else lo
        if lo is not None and isinstance(v.amap, list) and v.amap:
            full = idx.lo is None and idx.hi is None
            news = [(r0 + lo, r1 + lo, k0, k1, ai, ak, c - lo.scale(ai), src, cj) for (r0, r1, k0, k1, ai, ak, c, src, cj) in v.amap]
            if full:
                cur = []            # the whole matrix is overwritten
            for nb in news:
                if repr(nb) not in [repr(b) for b in cur]:
                    cur.append(nb)
            pend[name] = cur
            return
    elif not isinstance(idx, (Tup, SliceV)) and _asint(idx) is not None and _asint(idx).a is not None and isinstance(v, Num) \
            and v.rowof is not None and isinstance(v.rowof[0], list) and len(v.rowof[0]) == 1:
        # C[e1] = M[e]: one row of a single-block matrix
        blocks, e = v.rowof
        e1 = _asint(idx).a
        if base.shape[0] is not None:
            e1n = segmap.norm_index(e1, base.shape[0])
            e1 = e1n if e1n is not None else e1
        r0, r1, k0, k1, ai, ak, c, src, cj = blocks[0]
        s1 = [x for x in e1.t if x in Aff.BOUNDS]
        s2 = [x for x in e.t if x in Aff.BOUNDS]
        if not s1 and not s2:
            new = (e1, e1 + 1, k0, k1, ai, ak, c + (e - e1).scale(ai), src, cj)
        elif len(s1) == 1 and s1 == s2 and e1.t[s1[0]] == 1 and e.t[s1[0]] == 1:
            I = s1[0]
            loI, hiI = Aff.BOUNDS[I]
            if loI is not None and hiI is not None:
                rho = e1 - Aff.sym(I)
                new = (loI + rho, hiI + rho, k0, k1, ai, ak, c + (e - e1).scale(ai), src, cj)
    if new is None:
        if isinstance(v, Num) and (v.zero or (isinstance(idx, Tup) and False)):
            return
        pend[name] = 'bad' if cur else None
        return
    key = tuple(repr(x) for x in new)
    if key not in [tuple(repr(x) for x in b) for b in cur]:
        cur.append(new)
    pend[name] = cur


# ----------------------------------------------------------------------------- control flow
def s_If(self, s, st, frame):
    c = self.eval(s.test, st)
    t = self.truth(c, s.test)
    if t is True:
        return self.exec_block(s.body, st, frame)
    if t is False:
        return self.exec_block(s.orelse, st, frame)
    save = self.pc
    self.pc = self.pc | taint_of(c)
    abrupt = False
    raised = False
    sta, stb = st.fork(), st.fork()
    refine = _refine_equal(self, s.test, sta, stb)
    # `if k == lo` on a loop symbol with range [lo, hi): in the other arm the symbol ranges over [lo+1, hi) (same for hi-1)
    tight = None
    if refine is not None:
        sym_r = list(refine[0])[0]
        if sym_r in Aff.BOUNDS:
            lo_r, hi_r = Aff.BOUNDS[sym_r]
            v_r = refine[0][sym_r]
            if lo_r is not None and v_r == lo_r:
                tight = (sym_r, (lo_r, hi_r), (lo_r + 1, hi_r))
            elif hi_r is not None and v_r == hi_r - 1:
                tight = (sym_r, (lo_r, hi_r), (lo_r, hi_r - 1))

    # parity of an iteration: `if a != 2*h` / `if a == 2*h` / `if a % 2` with h = floor(a/2) recorded in Aff.HALF -- in the odd arm
    # h is (a-1)/2, in the even arm a/2 (only integer names bound to an affine form in h are rewritten)
    pars = _parity_test(self, s.test, st)
    for par in pars:
        h_, a_, odd_is_body = par
        for arm_state, odd in ((sta, odd_is_body), (stb, not odd_is_body)):
            val = (a_ - 1).scale(F(1, 2)) if odd else a_.scale(F(1, 2))
            for k_, v_ in list(arm_state.env.items()):
                if isinstance(v_, IntV) and v_.a is not None and h_ in v_.a.t:
                    arm_state.env[k_] = IntV(v_.a.subs({h_: val}), v_.taint)
    if pars:
        refine = None
        tight = None
    # path facts: inside the arms of `if e1 <op> e2` on affine integers the comparison (or its negation) is known
    facts_t, facts_f = [], []
    if isinstance(s.test, ast.Compare) and len(s.test.ops) == 1 and id(s.test) in self.cmp_affs:
        op_, l_, r_ = self.cmp_affs[id(s.test)][0]
        if isinstance(op_, ast.GtE):
            facts_t, facts_f = [l_ - r_], [r_ - l_ - 1]
        elif isinstance(op_, ast.Gt):
            facts_t, facts_f = [l_ - r_ - 1], [r_ - l_]
        elif isinstance(op_, ast.LtE):
            facts_t, facts_f = [r_ - l_], [l_ - r_ - 1]
        elif isinstance(op_, ast.Lt):
            facts_t, facts_f = [r_ - l_ - 1], [l_ - r_]

    def arm(block, state, general, facts=()):
        Aff.FACTS.extend(facts)
        try:
            if tight is not None and general:
                Aff.BOUNDS[tight[0]] = tight[2]
                try:
                    return self.exec_block(block, state, frame)
                finally:
                    Aff.BOUNDS[tight[0]] = tight[1]
            return self.exec_block(block, state, frame)
        finally:
            if facts:
                del Aff.FACTS[-len(facts):]
    try:
        frame.last_end = None
        frame.last_break_hit = False
        a = arm(s.body, sta, refine is not None and not refine[1], facts_t)
        if a is None and frame.last_end in ('break', 'return') and frame.loops:
            # leaving a loop early under a test that could not be decided: which data the decision depends on
            self.events.append(('guard-break', s, frame.last_end, taint_of(c) | self.pc, self.cur.qname if self.cur else ''))
        if a is None and frame.last_end in ('break', 'continue', 'return'):
            abrupt = True
        if a is None and frame.last_end == 'raise':
            raised = True
        frame.last_end = None
        b = arm(s.orelse, stb, refine is not None and refine[1], facts_f)
        if b is None and frame.last_end in ('break', 'return') and frame.loops:
            self.events.append(('guard-break', s, frame.last_end, taint_of(c) | self.pc, self.cur.qname if self.cur else ''))
        if b is None and frame.last_end in ('break', 'continue', 'return'):
            abrupt = True
        if b is None and frame.last_end == 'raise':
            raised = True
        if raised:
            arm = 'body' if (a is None and b is not None) else ('orelse' if (b is None and a is not None) else None)
            if arm is not None:
                cm = {id(x_): self.cmp_affs[id(x_)] for x_ in ast.walk(s.test) if id(x_) in self.cmp_affs}
                self.events.append(('guard-raise', s, arm, cm, self.cur.qname if self.cur else ''))
    finally:
        # an arm that leaves the block (break/continue/return) makes everything that follows in the enclosing
        # loop / function control dependent on the condition; a raise does not (exception-insensitive) -- except
        # for scale-variant decisions: whether the estimator raises at all must not depend on the data scale
        if abrupt:
            self.pc = save | taint_of(c)
        elif raised:
            self.pc = save | frozenset(l for l in taint_of(c) if isinstance(l, str) and l.startswith('V:'))
        else:
            self.pc = save
    if refine is not None and frame.loops:
        # `if k == v: ... break` with v inside the range of the innermost loop: the loop always ends through this break
        m_, true_special, _nm, _kv = refine
        special_end = a if true_special else b
        sym_ = list(m_)[0]
        if special_end is None and sym_ in Aff.BOUNDS and frame.last_break_hit:
            lo_, hi_ = Aff.BOUNDS[sym_]
            v_ = m_[sym_]
            if lo_ is not None and hi_ is not None and aff_le(lo_, v_) and aff_le(v_ + 1, hi_):
                frame.loops[-1]['certain'] = True
    if refine is not None and a is not None and b is not None:
        _reconcile(refine, a, b)
    return join_st(a, b)


def _parity_test(self, test, st):
    """[(half symbol h, its argument a_h, True when the BODY is the arm in which a_h is odd)] for tests that decide the parity of
    an integer form a: `a != 2*h` / `a == 2*h` with h = floor(a/2), `a % 2 [== / != 0 / 1]`, `a & 1`, `not a % 2`.  Every half
    symbol whose argument differs from a by a constant is decided with it (an odd difference flips the parity)."""
    a = None
    odd_body = None
    if isinstance(test, ast.Compare) and len(test.ops) == 1 and isinstance(test.ops[0], (ast.Eq, ast.NotEq)) \
            and id(test) in self.cmp_affs:
        op_, l_, r_ = self.cmp_affs[id(test)][0]
        d = l_ - r_
        for h_, a_ in Aff.HALF.items():
            if h_ in d.t and abs(d.t[h_]) == 2 and (d == a_ - Aff.sym(h_).scale(2) or (-d) == a_ - Aff.sym(h_).scale(2)):
                a, odd_body = a_, isinstance(op_, ast.NotEq)
                break

    def mod2(e):
        if isinstance(e, ast.BinOp) and isinstance(e.right, ast.Constant) and \
                ((isinstance(e.op, ast.Mod) and e.right.value == 2) or (isinstance(e.op, ast.BitAnd) and e.right.value == 1)):
            return e.left
        return None
    if a is None:
        t_, flip = test, False
        if isinstance(t_, ast.UnaryOp) and isinstance(t_.op, ast.Not):
            t_, flip = t_.operand, True
        x = mod2(t_)
        want = 1
        if x is None and isinstance(t_, ast.Compare) and len(t_.ops) == 1 and isinstance(t_.ops[0], (ast.Eq, ast.NotEq)) \
                and isinstance(t_.comparators[0], ast.Constant) and t_.comparators[0].value in (0, 1):
            x = mod2(t_.left)
            want = t_.comparators[0].value
            if isinstance(t_.ops[0], ast.NotEq):
                want = 1 - want
        if x is not None:
            try:
                xv = _asint(self.eval(x, st))
            except PathEnd:
                xv = None
            if xv is not None and xv.a is not None:
                a, odd_body = xv.a, (want == 1) != flip
    if a is None:
        return []
    out = []
    for h_, a_ in Aff.HALF.items():
        dd = a_ - a
        if dd.is_const() and dd.c.denominator == 1:
            out.append((h_, a_, odd_body if int(dd.c) % 2 == 0 else not odd_body))
    return out


def _refine_equal(self, test, st_true, st_false):
    """`if <affine in one loop symbol> == <expr>` (or !=): inside the arm where equality holds every charge and size
    signature that mentions the loop symbol is evaluated at the value the equality fixes"""
    if not (isinstance(test, ast.Compare) and len(test.ops) == 1 and isinstance(test.ops[0], (ast.Eq, ast.NotEq))):
        return None
    try:
        lv = self.eval(test.left, st_true)
        rv = self.eval(test.comparators[0], st_true)
    except PathEnd:
        return None
    il, ir = _asint(lv), _asint(rv)
    if il is None or ir is None or il.a is None or ir.a is None:
        return None
    d = il.a - ir.a
    syms = [s_ for s_ in d.t if s_ in Aff.BOUNDS]
    if not syms and self.d4:
        # no loop symbol involved (a peeled iteration: `k == 0` with k = Q-1): the equality fixes a size symbol in that arm
        syms = [s_ for s_ in sorted(d.t) if abs(d.t[s_]) == 1][:1]
    if len(syms) != 1:
        return None
    sym = syms[0]
    coef = d.t[sym]
    rest = d - Aff(0, {sym: coef})
    val = (-rest).scale(1 / coef)
    if not val.is_integral() and not all(v.denominator == 1 for v in val.t.values()):
        return None
    target = st_true if isinstance(test.ops[0], ast.Eq) else st_false
    from . import charge as Q
    import sympy as sp
    m = {sym: val}
    name = None
    kval = None
    for k_, v_ in list(target.env.items()):
        if isinstance(v_, IntV) and v_.a is not None and len(v_.a.t) == 1 and v_.a.c == 0 and list(v_.a.t)[0] == sym \
                and v_.a.t[sym] == 1:
            name, kval = k_, v_
    if name is not None:
        target.env[name] = Const(int(val.c)) if val.is_const() else IntV(val, kval.taint)
    result = (m, target is st_true, name, kval)
    ssym = sp.Symbol(sym, positive=True)
    sval = val.to_sympy()
    for k_, v_ in list(target.env.items()):
        if not isinstance(v_, Num):
            continue
        nq, nsz = v_.q, v_.sz
        changed = False
        if isinstance(nq, Aff) and sym in nq.t:
            nq = nq.subs(m)
            changed = True
        elif Q.is_lin(nq) and sym in nq[2].t:
            nq = Q.lin(nq[1], nq[2].subs(m))
            changed = True
        if v_.shape == () and nsz is not None and nsz is not sp.S.One and ssym in getattr(nsz, 'free_symbols', ()):
            nsz = sp.cancel(nsz.subs(ssym, sval))
            changed = True
        if changed:
            nv = v_.copy(seg=v_.seg, segax=v_.segax)
            nv.uid = v_.uid
            nv.q = nq
            nv.sz = nsz
            target.env[k_] = nv
    return result


def _reconcile(refine, sa, sb):
    """after `if k == c: ... else: ...`: a charge computed in the special arm that is the general arm's charge
    evaluated at k = c is that general charge"""
    from . import charge as Q
    m, true_is_special, name, kval = refine
    special, general = (sa, sb) if true_is_special else (sb, sa)
    if name is not None:
        special.env[name] = kval
    for k_, va in list(special.env.items()):
        vb = general.env.get(k_)
        if not (isinstance(va, Num) and isinstance(vb, Num)):
            continue
        if va.shape == () and va.sz is not None and vb.sz is not None and va.sz is not vb.sz:
            import sympy as sp
            try:
                gen = vb.sz
                for s_, val in m.items():
                    gen = gen.subs(sp.Symbol(s_, positive=True), val.to_sympy())
                if sp.cancel(gen - va.sz) == 0:
                    nv = va.copy(seg=va.seg, segax=va.segax)
                    nv.uid = va.uid
                    nv.sz = vb.sz
                    special.env[k_] = nv
                    va = nv
            except Exception:
                pass
        qa, qb = va.q, vb.q
        if qa is None or qb is None or qa == 'any' or qb == 'any' or qa == qb:
            continue
        gen_at = None
        if isinstance(qb, Aff):
            gen_at = qb.subs(m)
        elif Q.is_lin(qb):
            gen_at = Q.lin(qb[1], qb[2].subs(m))
        if gen_at is not None and gen_at == qa:
            nv = va.copy(seg=va.seg, segax=va.segax)
            nv.uid = va.uid
            nv.q = qb
            special.env[k_] = nv


def iter_elem(self, it, node, loopnode=None):
    """(element value, length Aff|None) of an iterable"""
    if isinstance(it, Opaque) and it.what == 'range':
        lo, hi, step = it.args
        sym = None
        if loopnode is not None:
            key = (self.cur.qname if self.cur else '', getattr(loopnode, 'lineno', 0), getattr(loopnode, 'col_offset', 0))
            tname = 'i'
            tgt = getattr(loopnode, 'target', None)
            if isinstance(tgt, ast.Name):
                tname = tgt.id
            sym = self.loopsyms.setdefault(key, '%s@%s:%d' % (tname, (self.cur.name if self.cur else ''), key[1]))
            Aff.SYM_MIN[sym] = 0
            if step == 1 and lo is not None:
                Aff.BOUNDS[sym] = (lo, hi)
            elif step == -1 and lo is not None and hi is not None:
                Aff.BOUNDS[sym] = (hi + 1, lo + 1)      # range(lo, hi, -1) visits hi+1 .. lo
        n = None
        if lo is not None and hi is not None and step == 1:
            n = hi - lo
        elif lo is not None and hi is not None and step == -1:
            n = lo - hi
        t = it.taint if self.loop_taint else frozenset()
        return IntV(Aff.sym(sym) if sym else None, t), n
    if isinstance(it, Opaque) and it.what == 'enumerate':
        inner = it.args[0]
        if isinstance(inner, Opaque) and inner.what == 'range' and inner.args[0] is not None and inner.args[2] in (1, -1) and loopnode is not None:
            # enumerate(range(lo, hi[, -1])): the element keeps its loop symbol k, the counter is k - lo (lo - k when descending)
            fake = ast.copy_location(ast.For(target=ast.Name(id='k', ctx=ast.Store()), iter=ast.Constant(0), body=[], orelse=[]), loopnode)
            el, n = self.iter_elem(inner, node, fake)
            if isinstance(el, IntV) and el.a is not None:
                cnt = (el.a - inner.args[0]) if inner.args[2] == 1 else (inner.args[0] - el.a)
                return Tup([IntV(cnt, el.taint), el]), n
        if loopnode is not None and isinstance(inner, Num) and inner.shape is not None and len(inner.shape) == 1 and inner.shape[0] is not None \
                and len(it.args) == 1:
            # enumerate(array): counter and element move in lock step -- element = array[counter]
            key = (self.cur.qname if self.cur else '', getattr(loopnode, 'lineno', 0), getattr(loopnode, 'col_offset', 0), 'enum')
            sym = self.loopsyms.setdefault(key, 'pos@%s:%d' % ((self.cur.name if self.cur else ''), key[1]))
            Aff.SYM_MIN[sym] = 0
            Aff.BOUNDS[sym] = (Aff(0), inner.shape[0])
            pos = IntV(Aff.sym(sym), frozenset())
            return Tup([pos, self.index_value(inner, pos, node)]), inner.shape[0]
        el, n = self.iter_elem(it.args[0], node, None)
        Aff.SYM_MIN['enum#'] = 0
        return Tup([IntV(Aff.sym('enum#')), el]), n
    if isinstance(it, Opaque) and it.what == 'zip':
        els = [self.iter_elem(a, node, None) for a in it.args]
        lens = [n_ for _e, n_ in els if n_ is not None]
        psyms = set(getattr(a, 'possym', None) for a in it.args if isinstance(a, SeqV))
        if loopnode is not None and lens and len(psyms) <= 1 and None not in psyms and all(
                (isinstance(a, Num) and a.shape is not None and len(a.shape) == 1) or isinstance(a, SeqV) or
                (isinstance(a, Opaque) and a.what == 'range' and a.args[0] is not None and a.args[2] is not None) for a in it.args):
            # lock-step iteration: one position symbol shared by every argument -- zip(a[K:], a[:n-K], range(m, -m, -2)) is the
            # indexed loop `for i in range(n): a[K+i], a[i], m - 2*i`; a sequence produced by map() brings its own position symbol
            key = (self.cur.qname if self.cur else '', getattr(loopnode, 'lineno', 0), getattr(loopnode, 'col_offset', 0), 'zip')
            sym = list(psyms)[0] if psyms else self.loopsyms.setdefault(key, 'pos@%s:%d' % ((self.cur.name if self.cur else ''), key[1]))
            Aff.SYM_MIN[sym] = 0
            nmin = lens[0]
            for l_ in lens[1:]:
                m_ = aff_min(nmin, l_)
                nmin = m_ if m_ is not None else nmin
            Aff.BOUNDS[sym] = (Aff(0), nmin)
            pos = IntV(Aff.sym(sym), frozenset())
            items = []
            for a in it.args:
                if isinstance(a, Num):
                    items.append(self.index_value(a, pos, node))
                elif isinstance(a, SeqV):
                    items.append(a.elem)
                else:
                    lo_, _hi, st_ = a.args
                    items.append(IntV(lo_ + Aff.sym(sym).scale(st_), a.taint if self.loop_taint else frozenset()))
            return Tup(items), nmin
        return Tup([e for e, _n in els]), (els[0][1] if els else None)
    if isinstance(it, Num):
        if it.shape is None:
            r = it.copy(shape=None)
            r.ex = None
            return r, None
        if len(it.shape) == 0:
            return it, None
        r = it.copy(shape=tuple(it.shape[1:]))
        r.ex = None
        if it.fgrid is not None and loopnode is not None and len(it.shape) == 1 and it.shape[0] is not None:
            # element i of a frequency grid: the loop gets a position symbol like a range loop
            key = (self.cur.qname if self.cur else '', getattr(loopnode, 'lineno', 0), getattr(loopnode, 'col_offset', 0))
            sym = self.loopsyms.setdefault(key, 'pos@%s:%d' % ((self.cur.name if self.cur else ''), key[1]))
            Aff.SYM_MIN[sym] = 0
            Aff.BOUNDS[sym] = (Aff(0), it.shape[0])
            import sympy as _sp
            r.fsf = _sp.cancel(it.fgrid[0] + it.fgrid[1] * _sp.Symbol(sym, positive=True))
        return r, it.shape[0]
    if isinstance(it, Tup):
        e = None
        for x in it.items:
            e = join(e, x)
        return (e if e is not None else TopV('empty')), Aff(len(it.items))
    if isinstance(it, SeqV):
        return (it.elem if it.elem is not None else TopV('empty')), it.n
    if isinstance(it, Const) and isinstance(it.v, (list, tuple)):
        e = None
        for x in it.v:
            e = join(e, Const(x))
        return (e if e is not None else TopV('empty')), Aff(len(it.v))
    if isinstance(it, Const) and isinstance(it.v, dict):
        keys = list(it.v.keys())
        if keys and all(isinstance(k, str) for k in keys):
            return StrV('key', it.taint, choices=keys), Aff(len(keys))
        return TopV('dictkey'), Aff(len(keys))
    if isinstance(it, TopV):
        return TopV('iter', it.taint), None
    self.unsupported('iteration over %s' % type(it).__name__, node)
    return TopV('iter'), None


def _takes_pass(fn):
    return fn.__code__.co_argcount >= 2


def loop_fix(self, s, st, frame, head):
    """fixpoint of a loop; `head(state)` evaluates the loop head on a forked state and returns it (or None)"""
    cur = st
    exits = []
    certain = False
    skipped = None
    save_pc = self.pc
    npasses = LOOP_PASSES
    _pass = -1
    while _pass + 1 < npasses:
        _pass += 1
        frame.loops.append({'breaks': [], 'conts': [], 'certain': False, 'node': s,
                            'len0': {k_: len(v_.items) for k_, v_ in st.env.items() if isinstance(v_, Tup) and v_.mutable}})
        body_in = head(cur.fork(), _pass) if _takes_pass(head) else head(cur.fork())
        if body_in is None:
            frame.loops.pop()
            break
        out = self.exec_block(s.body, body_in, frame)
        info = frame.loops.pop()
        certain = certain or info.get('certain', False)
        for c in info['conts']:
            out = join_st(out, c)
        if isinstance(s, ast.While) and out is not None:
            # the state that really reaches the test after one pass of the body (before it is merged with the entry state)
            try:
                self.eval(s.test, out.fork())
            except PathEnd:
                pass
        exits.extend(info['breaks'])
        if _pass == 0 and info.get('peeled') and out is not None and self.d4:
            # the first iteration ran on the entry state with the concrete first index: later iterations start from what it
            # left behind, not from the entry state (a slot the first iteration overwrites no longer holds its old value)
            new = out
            skipped = None if info.get('nonempty') else cur
            npasses = LOOP_PASSES + 1        # two concrete iterations, then the symbolic passes
        else:
            new = join_st(cur, out)
        cur = new
    self.pc = save_pc
    res = cur
    if skipped is not None:
        res = join_st(res, skipped)          # the range may be empty: the entry state also reaches the exit
    if certain and exits:
        res = None           # the normal exit is infeasible: the loop always leaves through the break
    elif s.orelse:
        res = self.exec_block(s.orelse, res, frame)
    for b in exits:
        res = join_st(res, b)
    return res


def _covering_targets(self, s, st, lo, hi):
    """names whose whole extent is overwritten by `for k in range(lo,hi): ... NAME[k+off] = v` (and that the body
    does not read): their old element type is dead -> strong update"""
    out = []
    if not isinstance(s.target, ast.Name) or lo is None or hi is None:
        return out
    k = s.target.id
    for b in s.body:
        if isinstance(b, ast.Assign) and len(b.targets) == 1 and isinstance(b.targets[0], ast.Subscript) \
                and isinstance(b.targets[0].value, ast.Name):
            name = b.targets[0].value.id
            arr = st.env.get(name)
            if not isinstance(arr, Num) or arr.shape is None or len(arr.shape) != 1 or arr.shape[0] is None:
                continue
            # index = k + const ?
            ix = b.targets[0].slice
            off = None
            if isinstance(ix, ast.Name) and ix.id == k:
                off = Aff(0)
            elif isinstance(ix, ast.BinOp) and isinstance(ix.op, (ast.Add, ast.Sub)) and isinstance(ix.left, ast.Name) \
                    and ix.left.id == k:
                try:
                    o = self.eval(ix.right, st)
                except PathEnd:
                    o = None
                io = _asint(o) if o is not None else None
                if io is not None and io.a is not None:
                    off = io.a if isinstance(ix.op, ast.Add) else -io.a
            if off is None:
                continue
            if (lo + off) == Aff(0) and (hi + off) == arr.shape[0]:
                reads = [n for st_ in s.body for n in ast.walk(st_)
                         if isinstance(n, ast.Name) and n.id == name and isinstance(n.ctx, ast.Load)]
                # the store target itself is Name(ctx=Load) inside the Subscript: allow exactly that one
                if len(reads) <= 1:
                    out.append(name)
    return out


def _enumerate_range_loop(s):
    """`for j, e in enumerate(range(A, B))` / `enumerate(reversed(range(A, B)))` (A defaults to 0, no step, plain names as
    targets, A and B not re-bound in the body)  ==  `for j in range(0, B - A): e = A + j  (or B - 1 - j); body`"""
    it, tg = s.iter, s.target
    if s.orelse or not (isinstance(tg, (ast.Tuple, ast.List)) and len(tg.elts) == 2 and all(isinstance(e_, ast.Name) for e_ in tg.elts)):
        return None
    if not (isinstance(it, ast.Call) and isinstance(it.func, ast.Name) and it.func.id == 'enumerate' and len(it.args) == 1 and not it.keywords):
        return None
    x = it.args[0]
    rev = False
    if isinstance(x, ast.Call) and isinstance(x.func, ast.Name) and x.func.id == 'reversed' and len(x.args) == 1 and not x.keywords:
        rev, x = True, x.args[0]
    if not (isinstance(x, ast.Call) and isinstance(x.func, ast.Name) and x.func.id == 'range' and len(x.args) in (1, 2) and not x.keywords):
        return None
    A = x.args[0] if len(x.args) == 2 else ast.Constant(0)
    B = x.args[-1]
    used = {n_.id for e_ in (A, B) for n_ in ast.walk(e_) if isinstance(n_, ast.Name)}
    bound = {n_.id for b_ in s.body for n_ in ast.walk(b_) if isinstance(n_, ast.Name) and isinstance(n_.ctx, ast.Store)}
    if (used & bound) or any(isinstance(n_, ast.Call) for e_ in (A, B) for n_ in ast.walk(e_)):
        return None
    j, e = tg.elts[0].id, tg.elts[1].id
    if j in used or e in used:
        return None
    jl = ast.Name(id=j, ctx=ast.Load())
    if rev:
        val = ast.BinOp(left=ast.BinOp(left=B, op=ast.Sub(), right=ast.Constant(1)), op=ast.Sub(), right=jl)
    else:
        val = ast.BinOp(left=A, op=ast.Add(), right=jl)
    first = ast.Assign(targets=[ast.Name(id=e, ctx=ast.Store())], value=val)
    cnt = B if (isinstance(A, ast.Constant) and A.value == 0) else ast.BinOp(left=B, op=ast.Sub(), right=A)
    loop = ast.For(target=ast.Name(id=j, ctx=ast.Store()),
                   iter=ast.Call(func=ast.Name(id='range', ctx=ast.Load()), args=[ast.Constant(0), cnt], keywords=[]),
                   body=[first] + list(s.body), orelse=[])
    ast.copy_location(loop, s)
    ast.copy_location(first, s)
    ast.fix_missing_locations(loop)
    return loop


def s_For(self, s, st, frame):
    cache_e = self.__dict__.setdefault('_enum_loops', {})
    if id(s) not in cache_e:
        cache_e[id(s)] = _enumerate_range_loop(s)
    if cache_e[id(s)] is not None and isinstance(self.eval(ast.Name(id='enumerate', ctx=ast.Load()), st), ExtV):
        return self.s_For(cache_e[id(s)], st, frame)
    if isinstance(s.iter, ast.Call) and isinstance(s.target, (ast.Tuple, ast.List)) and not s.orelse and not s.iter.keywords \
            and len(s.iter.args) == len(s.target.elts) >= 2 and not any(isinstance(a_, ast.Starred) for a_ in s.iter.args):
        fv = None
        try:
            fv = self.eval(s.iter.func, st)
        except PathEnd:
            fv = None
        if isinstance(fv, ExtV) and fv.dotted == 'itertools.product' and \
                not any(isinstance(x_, (ast.Break, ast.Continue)) for b_ in s.body for x_ in ast.walk(b_)):
            # for a, b in product(A, B): body   ==   for a in A: for b in B: body
            cache = self.__dict__.setdefault('_product_loops', {})
            outer = cache.get(id(s))
            if outer is None:
                body = s.body
                for lvl, (tgt, itr) in reversed(list(enumerate(zip(s.target.elts, s.iter.args)))):
                    loop = ast.For(target=tgt, iter=itr, body=body, orelse=[])
                    ast.copy_location(loop, s)
                    loop.col_offset = getattr(s, 'col_offset', 0) + 1000 * lvl        # one loop symbol per level
                    body = [loop]
                outer = body[0]
                cache[id(s)] = outer
            return self.s_For(outer, st, frame)
    it = self.eval(s.iter, st)
    # a loop over a literal / fully known short sequence runs exactly once per element: unroll it
    items = None
    if isinstance(it, Const) and isinstance(it.v, (list, tuple)) and len(it.v) <= (8 if frame.loops else 24):
        items = [x if isinstance(x, Val) else Const(x, it.taint) for x in it.v]     # literal tables: one pass per row
    elif isinstance(it, Const) and isinstance(it.v, dict) and len(it.v) <= 8:
        items = [Const(k_, it.taint) for k_ in it.v.keys()]        # iterating a dict visits its keys
    elif isinstance(it, Tup) and len(it.items) <= 24 and not frame.loops:
        items = list(it.items)
    elif isinstance(it, Opaque) and it.what == 'enumerate' and len(it.args) == 1 and isinstance(it.args[0], Tup) \
            and len(it.args[0].items) <= 8 and not frame.loops:
        items = [Tup([Const(i_), x_]) for i_, x_ in enumerate(it.args[0].items)]          # enumerate over a short literal tuple
    elif getattr(self, 'unroll', False) and isinstance(it, Opaque) and it.what == 'range':
        # bounded instance analysis: a range with concrete bounds and a short trip count is executed iteration by iteration
        lo_, hi_, st_ = it.args
        if lo_ is not None and hi_ is not None and lo_.is_const() and hi_.is_const() and isinstance(st_, int) and st_ != 0:
            rng = range(int(lo_.c), int(hi_.c), st_)
            if len(rng) <= 8:
                items = [Const(i) for i in rng]
    def own_jumps(kind):
        # break / continue statements that belong to this loop (not to a loop nested in its body)
        out = []
        def walk(n_):
            for ch in ast.iter_child_nodes(n_):
                if isinstance(ch, (ast.For, ast.While, ast.FunctionDef, ast.Lambda)):
                    continue
                if isinstance(ch, kind):
                    out.append(ch)
                walk(ch)
        for b_ in s.body:
            if isinstance(b_, kind):
                out.append(b_)
            if not isinstance(b_, (ast.For, ast.While, ast.FunctionDef)):
                walk(b_)
        return out
    if items is not None and not own_jumps(ast.Break):
        cur = st
        has_cont = bool(own_jumps(ast.Continue))
        for x in items:
            if cur is None:
                return None
            self.bind(s.target, x, cur, s)
            if has_cont:
                # `continue` ends this pass only: the states that reach it flow into the next item
                frame.loops.append({'breaks': [], 'conts': [], 'certain': False, 'node': s, 'len0': {}, 'unrolled': True})
                out_ = self.exec_block(s.body, cur, frame)
                rec_ = frame.loops.pop()
                for c_ in rec_['conts']:
                    out_ = join_st(out_, c_) if out_ is not None else c_
                cur = out_
            else:
                cur = self.exec_block(s.body, cur, frame)
        if cur is not None and s.orelse:
            cur = self.exec_block(s.orelse, cur, frame)
        return cur
    strong = []
    if isinstance(it, Opaque) and it.what == 'range':
        lo, hi, step = it.args
        self.events.append(('range-loop', s, lo, hi, step, self.cur.qname if self.cur else ''))
        if step == 1:
            strong = _covering_targets(self, s, st, lo, hi)
    for name in strong:
        frame.strong[name] = True
        arr = st.env[name]
        st.env[name] = Num(zero=True, shape=arr.shape, cplx=arr.cplx, taint=frozenset())
        st.env[name].q = 'any'
        _keep_identity(st.env[name], arr)

    _el, _ln = self.iter_elem(it, s.iter, s)
    frame.loopn.append(_ln)

    def head(state, npass=1):
        el, _n = self.iter_elem(it, s.iter, s)
        if isinstance(it, Opaque) and it.what == 'range' and it.args[2] == 1 and it.args[0] is not None:
            frame.loops[-1]['range_lo'] = it.args[0]          # position of an item appended once per iteration: k - lo
        if npass in ((0, 1) if self.d4 else (0,)) and isinstance(it, Opaque) and it.what == 'range' and it.args[0] is not None and isinstance(el, IntV) \
                and not frame.loops[:-1] and it.args[2] in (1, -1):
            # peeled first two iterations of an outermost loop: the loop variable has its first / second value
            lo0 = it.args[0] + npass * it.args[2]
            el = IntV(lo0, el.taint) if not lo0.is_const() else Const(int(lo0.c), el.taint)
            hi0 = it.args[1]
            frame.loops[-1]['peeled'] = True
            frame.loops[-1]['nonempty'] = bool(npass == 0 and it.args[2] == 1 and hi0 is not None and aff_le(lo0 + 1, hi0))
        if self.loop_taint:
            self.pc = self.pc | taint_of(it)
        self.bind(s.target, el, state, s)
        return state
    try:
        return self.loop_fix(s, st, frame, head)
    finally:
        frame.loopn.pop()
        for name in strong:
            frame.strong.pop(name, None)


def _counting_while(s):
    """`while v < hi: body; v += c` (c = +-1, the increment last, v not assigned elsewhere, no continue): the equivalent
    `for v in range(v, hi, c)` -- returns (name, hi expression, step, body without the increment) or None"""
    t = s.test
    if s.orelse or not (isinstance(t, ast.Compare) and len(t.ops) == 1 and isinstance(t.left, ast.Name)):
        return None
    v = t.left.id
    if not s.body:
        return None
    last = s.body[-1]
    step = None
    if isinstance(last, ast.AugAssign) and isinstance(last.target, ast.Name) and last.target.id == v \
            and isinstance(last.value, ast.Constant) and last.value.value == 1 and isinstance(last.op, (ast.Add, ast.Sub)):
        step = 1 if isinstance(last.op, ast.Add) else -1
    elif isinstance(last, ast.Assign) and len(last.targets) == 1 and isinstance(last.targets[0], ast.Name) and last.targets[0].id == v \
            and isinstance(last.value, ast.BinOp) and isinstance(last.value.left, ast.Name) and last.value.left.id == v \
            and isinstance(last.value.right, ast.Constant) and last.value.right.value == 1 and isinstance(last.value.op, (ast.Add, ast.Sub)):
        step = 1 if isinstance(last.value.op, ast.Add) else -1
    if step is None:
        return None
    op = t.ops[0]
    hi = t.comparators[0]
    if step == 1 and isinstance(op, ast.Lt):
        hi_e = hi
    elif step == 1 and isinstance(op, ast.LtE):
        hi_e = ast.BinOp(left=hi, op=ast.Add(), right=ast.Constant(1))
    elif step == -1 and isinstance(op, ast.Gt):
        hi_e = hi
    elif step == -1 and isinstance(op, ast.GtE):
        hi_e = ast.BinOp(left=hi, op=ast.Sub(), right=ast.Constant(1))
    else:
        return None
    body = s.body[:-1]
    for b in body:
        for n in ast.walk(b):
            if isinstance(n, ast.Continue):
                return None
            if isinstance(n, ast.Name) and n.id == v and isinstance(n.ctx, ast.Store):
                return None
    # the bound must not change inside the loop
    hn = {n.id for n in ast.walk(hi) if isinstance(n, ast.Name)}
    for b in body:
        for n in ast.walk(b):
            if isinstance(n, ast.Name) and n.id in hn and isinstance(n.ctx, ast.Store):
                return None
    return v, hi_e, step, body


_WHILE_FOR = {}


def s_While(self, s, st, frame):
    cw = _counting_while(s)
    if cw is not None and isinstance(st.env.get(cw[0]), (IntV, Const)):
        v, hi_e, step, body = cw
        key = id(s)
        if key not in _WHILE_FOR:
            it = ast.Call(func=ast.Name(id='range', ctx=ast.Load()), args=[ast.Name(id=v, ctx=ast.Load()), hi_e, ast.Constant(step)], keywords=[])
            f_ = ast.For(target=ast.Name(id=v, ctx=ast.Store()), iter=it, body=body or [ast.Pass()], orelse=[])
            ast.copy_location(f_, s)
            ast.fix_missing_locations(f_)
            for n_ in ast.walk(f_):
                if not hasattr(n_, 'lineno'):
                    n_.lineno = s.lineno
                    n_.col_offset = s.col_offset
            _WHILE_FOR[key] = (s, f_)
        f_ = _WHILE_FOR[key][1]
        init = st.env.get(v)
        out = self.s_For(f_, st, frame)
        if out is not None:
            # a while loop leaves its counter at the bound (a for loop at the last value)
            try:
                hv = self.eval(hi_e, out)
            except PathEnd:
                hv = None
            ia, ha = _asint(init), (_asint(hv) if hv is not None else None)
            if ia is not None and ha is not None and ia.a is not None and ha.a is not None and \
                    (aff_le(ia.a, ha.a) if step == 1 else aff_le(ha.a, ia.a)):
                out.env[v] = hv
            else:
                out.env[v] = IntV(None, taint_of(init) | (taint_of(hv) if hv is not None else frozenset()))
        return out

    def head(state):
        c = self.eval(s.test, state)
        t = self.truth(c, s.test)
        if t is False:
            return None
        self.pc = self.pc | taint_of(c)
        return state
    return self.loop_fix(s, st, frame, head)


def s_Try(self, s, st, frame):
    before = st.fork()
    body = self.exec_block(s.body, st, frame)
    if body is not None and s.orelse:
        body = self.exec_block(s.orelse, body, frame)
    res = body
    for h in s.handlers:
        hin = join_st(before.fork(), body.fork() if body is not None else None)
        if h.name:
            hin.env[h.name] = Opaque('exception')
        hout = self.exec_block(h.body, hin, frame)
        res = join_st(res, hout)
    if s.finalbody and res is not None:
        res = self.exec_block(s.finalbody, res, frame)
    return res
