"""E2 — forward abstract interpreter over the numpy subset used by the repository.

Domains carried by every numeric value: D1 scaling exponents (values.COMPS), dtype / realness /
non-negativity, symbolic shape (affine sizes), D5 dependence set (taint, incl. control dependence).
Joins are silent (TOP); only an *operation* on two known, different types is a conflict."""
import ast
from fractions import Fraction as F

from .frontend import (AnalysisError, FuncSym, ClassInfo, ModSym, ExtSym, ConstSym, mangle, normalise)
from .values import *      # noqa
from . import values as V


from .core import *      # noqa
from .core import PathEnd, Conflict, St, Frame, join, join_heap, join_st, BUILTINS


ALL_INTERPS = []     # every interpreter created in this process (D8 reads their events after the property's rules ran)


# leading parameters of library functions that are sometimes passed by keyword (name -> parameter names in order)
PRIM_SIGS = {
    'zeros': ['shape', 'dtype'], 'ones': ['shape', 'dtype'], 'empty': ['shape', 'dtype'], 'full': ['shape', 'fill_value', 'dtype'],
    'zeros_like': ['a', 'dtype'], 'ones_like': ['a', 'dtype'], 'empty_like': ['prototype', 'dtype'],
    'insert': ['arr', 'obj', 'values', 'axis'], 'append': ['arr', 'values', 'axis'], 'concatenate': ['arrays', 'axis'],
    'fft': ['a', 'n', 'axis'], 'ifft': ['a', 'n', 'axis'], 'rfft': ['a', 'n', 'axis'], 'irfft': ['a', 'n', 'axis'],
    'array': ['object', 'dtype'], 'asarray': ['a', 'dtype'], 'arange': ['start', 'stop', 'step'],
    'dot': ['a', 'b'], 'vdot': ['a', 'b'], 'inner': ['a', 'b'], 'outer': ['a', 'b'], 'convolve': ['a', 'v', 'mode'],
    'correlate': ['a', 'v', 'mode'], 'sum': ['a', 'axis'], 'mean': ['a', 'axis'], 'prod': ['a', 'axis'], 'abs': ['x'], 'real': ['val'],
    'conj': ['x'], 'conjugate': ['x'], 'roll': ['a', 'shift', 'axis'], 'flipud': ['m'], 'fliplr': ['m'], 'flip': ['m', 'axis'],
    'reshape': ['a', 'newshape'], 'transpose': ['a', 'axes'], 'linspace': ['start', 'stop', 'num', 'endpoint'],
    'toeplitz': ['c', 'r'], 'hankel': ['c', 'r'], 'lstsq': ['a', 'b'], 'svd': ['a', 'full_matrices', 'compute_uv'],
    'where': ['condition', 'x', 'y'], 'take': ['a', 'indices', 'axis'], 'resize': ['a', 'new_shape'], 'pad': ['array', 'pad_width', 'mode'],
    'maximum': ['x1', 'x2'], 'minimum': ['x1', 'x2'], 'multiply': ['x1', 'x2'], 'add': ['x1', 'x2'], 'subtract': ['x1', 'x2'],
    'divide': ['x1', 'x2'], 'power': ['x1', 'x2'], 'sqrt': ['x'], 'log': ['x'], 'log10': ['x'], 'log2': ['x'], 'exp': ['x'],
    'cumsum': ['a', 'axis'], 'sort': ['a', 'axis'], 'argsort': ['a', 'axis'], 'clip': ['a', 'a_min', 'a_max'],
}


class Interp:
    def __init__(self, prog, loop_taint=True, summaries=None, d4=False):
        from .prims import PRIMS
        self.prog = prog
        self.prims = PRIMS
        self.conflicts = []
        self._ckeys = set()
        self.unknown = []        # unknown primitives / unsupported constructs met (=> undecided if they matter)
        self.loop_taint = loop_taint
        self.d4 = d4
        self.pc = frozenset()
        self.in_assert = 0
        self.next_oid = 1
        self.frames = []
        self.depth = 0
        self.trace = []          # call trace (function qnames) for evidence
        self.summaries = summaries or {}     # qname -> callable(interp, args, kwargs, node, st) overriding a function
        self.events = []         # rule-specific observations: (kind, data...)
        self.cmp_affs = {}       # id(Compare node) -> [(op, left Aff, right Aff)] when every operand is an affine integer
        self._idiom_cache = {}
        self.watch = {}          # qname -> list of recorded (args, kwargs, result) for rule inspection
        self.loopsyms = {}
        self.variants = {}       # label -> Conflict describing a scale-variant decision
        self._capture = None
        self.capture_locals = {}     # qname -> [local names] recorded at each return of that function
        self.captured = {}
        self.last_exit = None
        self.own_params = True   # D8: array arguments of the entry call are caller-owned storage
        ALL_INTERPS.append(self)

    # ------------------------------------------------------------------ helpers
    @property
    def cur(self):
        return self.frames[-1].fsym if self.frames else None

    def new_variant(self, comp, msg, node):
        """a data-dependent decision that is not invariant under the scaling: nothing is reported here; the
        returned label taints everything that depends on the decision and the rule layer reports it if (and only
        if) it reaches an output"""
        f = self.cur
        c = Conflict('variant-decision', comp, msg, node, f.qname if f else '<entry>', f.mod if f else '')
        for lab, old in self.variants.items():
            if old.key() == c.key():
                return lab
        lab = 'V:%d' % (len(self.variants) + 1)
        self.variants[lab] = c
        return lab

    # ---- D8: memory identity of arrays
    _mid = 0

    def fresh_mid(self):
        Interp._mid += 1
        return Interp._mid

    def share(self, dst, src, whole=True):
        """dst shares storage with src (a view, or the same object when `whole`)"""
        if not isinstance(dst, Num) or not isinstance(src, Num) or not dst.is_array:
            return dst
        if src.mid is None:
            src.mid = self.fresh_mid()
        dst.mid = src.mid
        dst.whole = bool(whole and src.whole)
        dst.view_of = dst.view_of | src.view_of
        dst.clob = src.clob
        return dst

    def written(self, name, base, new, st, node):
        """an in-place write through `name` (old value base, new value new): every other local name that shares the
        storage sees it -- the same object gets the new value, a partial view / viewed base loses what was known"""
        if not isinstance(base, Num) or not isinstance(new, Num):
            return
        new.mid, new.whole, new.view_of = base.mid, base.whole, base.view_of | new.view_of
        if base.view_of:
            pass
        if base.mid is None:
            return
        fn = self.cur.qname if self.cur else ''
        for k, v in list(st.env.items()):
            if k == name or not isinstance(v, Num) or v.mid != base.mid or v is new:
                continue
            if v.whole and base.whole:
                st.env[k] = new
                self.events.append(('alias-write', node, name, k, True, fn))
            else:
                p = v.copy(deg=top_deg())
                p.q = None
                p.amap = None
                p.mid, p.whole, p.view_of, p.rowview = v.mid, v.whole, v.view_of, v.rowview
                p.clob = '%s overwritten through %s' % (k, name)
                st.env[k] = p
                self.events.append(('alias-write', node, name, k, False, fn))

    def conflict(self, kind, comp, msg, node):
        if self.in_assert:
            return
        f = self.cur
        c = Conflict(kind, comp, msg, node, f.qname if f else '<entry>', f.mod if f else '')
        if self._capture is not None:
            self._capture.append(c)
            return
        if c.key() not in self._ckeys:
            self._ckeys.add(c.key())
            self.conflicts.append(c)

    def unsupported(self, what, node=None):
        f = self.cur
        item = (what, f.qname if f else '', getattr(node, 'lineno', 0))
        if item not in self.unknown:
            self.unknown.append(item)

    def new_obj(self, cls, st):
        oid = self.next_oid
        self.next_oid += 1
        st.heap[oid] = HObj(cls)
        return Ref(oid, cls)

    def body_of(self, fsym):
        """function body with the |z|^2 canonicalisation applied (cached)"""
        key = id(fsym.node)
        if key not in self._idiom_cache:
            from .idioms import canonicalise
            self._idiom_cache[key] = canonicalise(fsym.node)
        return self._idiom_cache[key]

    # ------------------------------------------------------------------ calls
    def call_function(self, fsym, args, kwargs, st, node=None, closure=None):
        """inline a repo function; returns its (joined) return value; st.heap is updated in place"""
        if fsym.qname in self.summaries:
            # keyword arguments that name leading positional parameters are handed to the summary positionally
            pn = [a_.arg for a_ in fsym.node.args.args]
            if pn and pn[0] == 'self' and fsym.cls is not None:
                pn = pn[1:] if len(args) == 0 or not isinstance(args[0], Ref) else pn
            args2, kw2 = list(args), dict(kwargs)
            while len(args2) < len(pn) and pn[len(args2)] in kw2:
                args2.append(kw2.pop(pn[len(args2)]))
            return self.summaries[fsym.qname](self, args2, kw2, node, st)
        fnode = self.body_of(fsym)
        a = fnode.args
        env = {}
        names = [x.arg for x in a.args]
        nd = len(a.defaults)
        kwargs = dict(kwargs)
        extra_pos = []
        for i, name in enumerate(names):
            if i < len(args):
                env[name] = args[i]
            elif name in kwargs:
                env[name] = kwargs.pop(name)
            else:
                j = i - (len(names) - nd)
                if j >= 0:
                    env[name] = self.eval_in_module(a.defaults[j], fsym.mod)
                else:
                    self.unsupported('missing argument %s of %s' % (name, fsym.qname), node)
                    env[name] = TopV('missing arg')
        if len(args) > len(names):
            extra_pos = args[len(names):]
        for i, ka in enumerate(a.kwonlyargs or []):
            if ka.arg in kwargs:
                env[ka.arg] = kwargs.pop(ka.arg)
            elif a.kw_defaults[i] is not None:
                env[ka.arg] = self.eval_in_module(a.kw_defaults[i], fsym.mod)
        if a.vararg:
            env[a.vararg.arg] = Tup(extra_pos)
        if a.kwarg:
            env[a.kwarg.arg] = Const(dict(kwargs))
        elif kwargs:
            self.unsupported('unexpected keyword(s) %s for %s' % (sorted(kwargs), fsym.qname), node)
        if self.depth == 0 and self.own_params:
            for k_, v_ in env.items():
                if isinstance(v_, Num) and v_.is_array and not v_.view_of:
                    v_.view_of = frozenset([k_])
        rec = None
        if fsym.qname in self.watch:
            rec = {'params': dict(env), 'ret': None, 'caller': self.cur.qname if self.cur else ''}
            self.watch[fsym.qname].append(rec)
        self.depth += 1
        if self.depth > 60:
            raise AnalysisError('call depth exceeded at %s' % fsym.qname)
        frame = Frame(fsym, closure)
        self.frames.append(frame)
        self.trace.append(fsym.qname)
        save_pc = self.pc
        try:
            inner = St(env, st.heap)
            passed = {v_.mid: v_ for v_ in env.values() if isinstance(v_, Num) and v_.is_array and v_.mid is not None}
            frame.exit_envs = []
            end = self.exec_block(fnode.body, inner, frame)
            if end is not None:
                frame.rets.append((Const(None), end.heap))
                frame.exit_envs.append(end.env)
            # D8: arrays the callee overwrote in place (same storage as an argument, different contents at exit)
            self.last_exit = None
            if passed and frame.exit_envs:
                out = {}
                for m_, arg_ in passed.items():
                    fin = None
                    changed = False
                    for ee in frame.exit_envs:
                        cand = [v_ for v_ in ee.values() if isinstance(v_, Num) and v_.mid == m_ and v_.whole]
                        c0 = cand[0] if cand else arg_
                        changed = changed or (c0 is not arg_)
                        fin = c0 if fin is None else join(fin, c0)
                    if changed and isinstance(fin, Num):
                        fin.mid, fin.whole = m_, True
                        out[m_] = fin
                self.last_exit = out or None
        finally:
            self.frames.pop()
            self.depth -= 1
            self.pc = save_pc
        if frame.yields is not None:
            e = None
            for y in frame.yields:
                e = y if e is None else join(e, y)
            heap = None
            for _v, h in frame.rets:
                heap = h if heap is None else join_heap(heap, h)
            if heap is not None:
                st.heap = heap
            total = Aff(0)
            for c_ in frame.ycounts.values():
                total = (total + c_) if (total is not None and c_ is not None) else None
            return SeqV(e, total, taint_of(e) if e is not None else frozenset())
        if not frame.rets:
            raise PathEnd()
        val, heap = None, None
        for v, h in frame.rets:
            val = v if val is None else join(val, v)
            heap = h if heap is None else join_heap(heap, h)
        st.heap = heap
        if rec is not None:
            rec['ret'] = val
        return val

    def eval_in_module(self, node, mod):
        st = St({}, {})
        f = Frame(FuncSym(mod, ast.FunctionDef(name='<module>', args=None, body=[], decorator_list=[])))
        self.frames.append(f)
        try:
            return self.eval(node, st)
        finally:
            self.frames.pop()

    def instantiate(self, cls, args, kwargs, st, node=None):
        ref = self.new_obj(cls, st)
        init = cls.find_method('__init__')
        if init is not None:
            self.call_function(init, [ref] + list(args), kwargs, st, node)
        return ref

    def call(self, f, args, kwargs, node, st):
        if isinstance(f, FuncV):
            return self.call_function(f.sym, args, kwargs, st, node, closure=f.closure)
        if isinstance(f, BoundMethod):
            return self.call_function(f.func, [f.ref] + list(args), kwargs, st, node)
        if isinstance(f, ClsV):
            if f.cls.qname in self.summaries:
                return self.summaries[f.cls.qname](self, args, kwargs, node, st)
            return self.instantiate(f.cls, args, kwargs, st, node)
        if isinstance(f, Ref) and f.cls is not None:
            m = f.cls.find_method('__call__')
            if m is None:
                self.unsupported('object of %s is not callable' % f.cls.name, node)
                return TopV('call')
            return self.call_function(m, [f] + list(args), kwargs, st, node)
        if isinstance(f, ExtV):
            return self.call_prim(f, args, kwargs, node, st)
        if isinstance(f, NamedTupleV):
            items = list(args) + [None] * (len(f.fields) - len(args))
            for k_, v_ in kwargs.items():
                if k_ in f.fields:
                    items[f.fields.index(k_)] = v_
            if len(items) != len(f.fields) or any(i_ is None for i_ in items):
                self.unsupported('namedtuple %s built with %d of %d fields' % (f.name, len(args) + len(kwargs), len(f.fields)), node)
                return TopV('namedtuple')
            r = Tup(items)
            r.fields = list(f.fields)
            return r
        if isinstance(f, PartialV):
            kw2 = dict(f.kwargs)
            kw2.update(kwargs)
            return self.call(f.func, list(f.args) + list(args), kw2, node, st)
        self.unsupported('unresolved call %s' % (normalise(node.func) if node is not None else f), node)
        return TopV('unresolved call')

    def call_prim(self, f, args, kwargs, node, st):
        name = f.dotted
        base = f.base
        if f.bound is not None:
            args = [f.bound] + list(args)
        h = self.prims.get(name) or self.prims.get(base)
        sig = PRIM_SIGS.get(name) or PRIM_SIGS.get(name.split('.')[-1] if name.startswith(('numpy.', 'scipy.')) else name)
        if sig and kwargs:
            # numpy / scipy calls written with keywords for their leading parameters: same call, positional
            nb = 1 if f.bound is not None else 0
            args, kwargs = list(args), dict(kwargs)
            while len(args) - nb < len(sig) and sig[len(args) - nb] in kwargs:
                args.append(kwargs.pop(sig[len(args) - nb]))
        if h is None:
            self.unsupported('unknown primitive %s' % name, node)
            t = frozenset()
            for a in list(args) + list(kwargs.values()):
                t |= taint_of(a)
                if isinstance(a, Num) and a.view_of:
                    # D8: an operation the analysis does not know receives caller-owned storage: its result may alias it
                    self.events.append(('alias-lost', node, a.view_of, name, self.cur.qname if self.cur else ''))
            return TopV('prim ' + name, t)
        return h(self, name, args, kwargs, node, st)

    # ------------------------------------------------------------------ attribute access
    def getattr_ref(self, ref, attr, st, node, defcls=None):
        cls = ref.cls
        o = st.heap.get(ref.oid)
        if o is None:
            return TopV('dangling ref')
        if attr.startswith('__') and not attr.endswith('__') and defcls is not None:
            f = mangle(defcls.name, attr)
            if f in o.f:
                return o.f[f]
            self.unsupported('read of unset field %s' % f, node)
            return TopV('unset field')
        if attr == '__class__':
            return ClsV(cls)
        pr = cls.find_prop(attr)
        if pr is not None:
            pcls, (fget, fset) = pr
            g = pcls.find_method(fget) if fget else None
            if g is None:
                self.unsupported('property %s has no getter' % attr, node)
                return TopV('prop')
            return self.call_function(g, [ref], {}, st, node)
        if attr in o.f:
            return o.f[attr]
        m = cls.find_method(attr)
        if m is not None:
            decos = [getattr(d_, 'id', getattr(d_, 'attr', None)) for d_ in getattr(m.node, 'decorator_list', [])]
            if 'staticmethod' in decos:
                return FuncV(m)                  # no implicit first argument
            if 'classmethod' in decos:
                return BoundMethod(m, ClsV(cls))
            return BoundMethod(m, ref)
        ca = cls.find_attr(attr)
        if ca is not None:
            return self.eval_in_module(ca[1], ca[0].mod)
        self.unsupported('unknown attribute %s.%s' % (cls.name, attr), node)
        return TopV('attr')

    def setattr_ref(self, ref, attr, val, st, node, defcls=None):
        cls = ref.cls
        if attr.startswith('__') and not attr.endswith('__') and defcls is not None:
            st.heap[ref.oid].f[mangle(defcls.name, attr)] = val
            return
        pr = cls.find_prop(attr)
        if pr is not None:
            pcls, (fget, fset) = pr
            s = pcls.find_method(fset) if fset else None
            if s is None:
                self.unsupported('assignment to read-only property %s' % attr, node)
                return
            self.call_function(s, [ref, val], {}, st, node)
            return
        st.heap[ref.oid].f[attr] = val

    # statements and expressions are in separate mixins to keep files small
    from .interp_expr import (eval, truth, e_Constant, e_Name, e_Attribute, e_Call, e_BinOp, e_UnaryOp, e_Compare,
                              e_BoolOp, e_IfExp, e_Subscript, e_Tuple, e_List, e_Dict, e_DictComp, e_ListComp, e_GeneratorExp,
                              e_JoinedStr, e_Lambda, e_Slice, e_Set, e_Starred, e_Yield, e_YieldFrom, lookup, index_value, binop,
                              compare_vals, comprehension)
    from .interp_stmt import (exec_block, exec_stmt, bind, store_subscript, iter_elem, s_If, s_For, s_While,
                              s_Try, loop_fix)
