"""./check <ID> [--tier quick|thorough] [--replay file] [--src dir]

exit 0: every obligation proved (known findings are printed as KNOWN-FINDING lines)
exit 1: VIOLATION property=<id> replay=<path>   (a violation not listed in known_findings.json)
exit 2: ANALYSIS-ERROR (vanished anchor, undecided obligation, instance floor not met, internal error)"""
import argparse
import importlib
import json
import os
import sys
import traceback

from .frontend import Program, AnalysisError
from .report import Report

LEVELS = {}


def rule_module(pid):
    return importlib.import_module('sa.rules.%s' % pid.lower())


def run_rules(pid, mod, prog, rep, tier):
    """the property's own rules, then the cross-cutting D8 rule over the abstract runs they performed"""
    from .interp import ALL_INTERPS
    from . import d8rules
    del ALL_INTERPS[:]
    mod.run(prog, rep, tier)
    d8rules.report(prog, rep, pid, list(ALL_INTERPS))
    del ALL_INTERPS[:]


def main(argv=None):
    ap = argparse.ArgumentParser()
    ap.add_argument('prop')
    ap.add_argument('--tier', default=os.environ.get('VERIF_TIER', 'quick'))
    ap.add_argument('--replay', default=None)
    ap.add_argument('--src', default=None, help='source directory (default /repo/src/spectrum)')
    ap.add_argument('--no-write', action='store_true')
    a = ap.parse_args(argv)
    pid = a.prop.upper()
    tier = a.tier if a.tier in ('quick', 'thorough') else 'quick'
    try:
        seed = int(os.environ.get('VERIF_SEED', '0'))
    except ValueError:
        seed = 0
    try:
        mod = rule_module(pid)
    except Exception as e:       # a broken checker must never look like a verdict
        print('ANALYSIS-ERROR property=%s cannot load the rule module: %r' % (pid, e))
        return 2
    rep = Report(pid, tier=tier, seed=seed, level=getattr(mod, 'LEVEL', 'other'))
    try:
        prog = Program.from_repo(a.src)
        rep.analysed['modules_parsed'] = sorted(prog.modules)
        run_rules(pid, mod, prog, rep, tier)
        if tier == 'thorough':
            from .selftest import selftest
            selftest(pid, rep, a.src)
    except AnalysisError as e:
        rep.error('analysis broken: %s' % e)
    except RecursionError as e:
        rep.error('analysis broken: recursion limit (%s)' % e)
    except Exception as e:       # a traceback must never look like a verdict
        tb = traceback.format_exc().strip().splitlines()
        rep.error('internal error: %r at %s' % (e, ' | '.join(tb[-4:])))
    if a.replay:
        try:
            with open(a.replay) as fh:
                want = json.load(fh)
        except Exception as e:
            print('ANALYSIS-ERROR cannot read replay file: %s' % e)
            return 2
        hits = [o for o in rep.obls if o.rule == want.get('rule') and o.function == want.get('function')
                and o.construct == want.get('construct')]
        for o in hits:
            print('REPLAY %s [%s] %s: %s -> %s %s' % (pid, o.rule, o.function, o.construct, o.status, o.detail))
            for d in o.derivation:
                print('    ', d)
        if not hits:
            print('REPLAY: obligation no longer present (construct changed)')
            return 0
        if any(o.status == 'VIOLATION' for o in hits):
            print('VIOLATION property=%s replay=%s' % (pid, a.replay))
            return 1
        return 0
    return rep.finish(write=not a.no_write)


if __name__ == '__main__':
    sys.setrecursionlimit(10000)
    try:
        code = main()
    except SystemExit:
        raise
    except BaseException as e:       # pragma: no cover
        print('ANALYSIS-ERROR internal error: %r' % (e,))
        code = 2
    sys.exit(code)
