import numpy as np
from spectrum import pburg, parma
x = np.cos(0.3*np.arange(64)) + 0.1*np.random.RandomState(0).randn(64)
p = pburg(x, 4, NFFT=64)
p()
p.sides = 'twosided'
before = np.array(p.psd)
p.ar_order = 4          # unchanged value
after = np.array(p.psd)
print(len(before), len(after), p.sides)
assert len(before) == len(after) and np.allclose(before, after), "re-assigning the unchanged ar_order altered psd"
q = parma(x, 4, 4, 20, NFFT=64); q(); q.sides = 'twosided'; b = np.array(q.psd); q.ma_order = 4; a = np.array(q.psd)
assert len(a) == len(b) and np.allclose(a, b), "re-assigning the unchanged ma_order altered psd"
print("PASS")
