#!/usr/bin/env python3
"""regenerates /verif/MANIFEST.json from the table below (run after registering a check)"""
import json, os
HERE = os.path.dirname(os.path.dirname(os.path.abspath(__file__)))
props = [json.loads(l) for l in open(os.path.join(HERE, 'properties.jsonl'))]
TECH = 'static analysis: '
CHECKS = {
 'C03': dict(cat='proof', tech=TECH + 'abstract interpretation with a scaling-dimension (homogeneity) type domain over the resolved call tree',
   text='Proves for all data vectors and all scalars c that every functional estimator and every PSD class output carries the exponent C03 states (PSD/variance 2, coefficients/weights 0, singular values 1, MUSIC 0, EV 1) and that no scale-variant decision reaches an output; magnitude and global-phase laws typed separately. Exact-arithmetic law, not rounding.',
   note='trusted: the transfer rules of the numpy/scipy primitives listed in the evidence (linearity of fft/sum/dot, abs, conj, svd, lstsq, log); Window and dpss are summarised (their results do not depend on the data); phase law not decided for eigen() and modcovar() (row-separable phases)', ref='DESIGN.md 5 C03, 2.3 D1'),
 'C07': dict(cat='proof', tech=TECH + 'path-sensitive typestate/effect summaries over the resolved class hierarchy (ast)',
   text="Inductive typestate proof over all setter/call/read histories: every path (through inlined self-methods and properties) of every setter, getter and __call__ of the Spectrum hierarchy preserves the invariant 'psd is None or modified or psd is fresh' and the Range pairing; decides the protocol clauses of C07, not the numerical equality of estimates.",
   note='trusted: Python attribute/property/name-mangling semantics; assumes attributes are assigned only through their public names; constructor forwarding is checked under C01/C08', ref='DESIGN.md 5 C07, 2.3 D6'),
}
NA = {
 'C18': 'numerical properties of a compiled C eigen-solver (orthonormality, concentration ratios): no sound static argument bounds them; wiring clauses are checked under C19',
}
EXTRA = os.path.join(HERE, 'tools', 'checks_extra.json')
if os.path.exists(EXTRA):
    CHECKS.update(json.load(open(EXTRA)))
man = {
 'version': 1,
 'setup_cmd': 'true',
 'hooks': {'guard': 'SPECTRUM_VERIF', 'enable': 'none needed: the checks only parse /repo/src/spectrum (no hook commits)',
           'baseline_off_cmd': 'cd /repo && /venv/bin/python -m pytest -ra -q -p no:cacheprovider --timeout=900 --continue-on-collection-errors',
           'source_commits': [], 'add_only': True},
 'engines': [{'name': 'sa', 'path': '/verif/sa', 'serves_properties': sorted(CHECKS),
              'kind_free_text': 'repository-specific static analysis over the stdlib ast: resolved front end, path/typestate summaries, abstract interpretation (dimension / dependence / shape / index-map domains), symmetry walk for window expressions'}],
 'checks': [], 'not_applicable': [],
 'notes': 'Static analysis only. Every check parses /repo/src/spectrum on each run; nothing in /repo is imported or executed. exit 0 proved / 1 VIOLATION / 2 ANALYSIS-ERROR.',
}
for p in props:
    pid = p['id']
    if pid in CHECKS:
        c = CHECKS[pid]
        man['checks'].append({
            'property_id': pid, 'quick_cmd': './check %s --tier quick' % pid, 'thorough_cmd': './check %s --tier thorough' % pid,
            'evidence_file': '/verif/evidence/%s.json' % pid, 'replay_cmd_template': './check %s --replay {path}' % pid, 'engine': 'sa',
            'level_claimed': {'category': c['cat'], 'text': c['text'], 'design_ref': c['ref']},
            'level_note': c['note'], 'technique': c['tech']})
    else:
        man['not_applicable'].append({'property_id': pid, 'reason': NA.get(pid, 'check under construction in this session (static rule not yet registered); see DESIGN.md section 5')})
json.dump(man, open(os.path.join(HERE, 'MANIFEST.json'), 'w'), indent=1)
print('checks:', [c['property_id'] for c in man['checks']])
