#!/usr/bin/env python3
"""Fast regression run over the kept corpora: every seeded change must be reported by at least one check (exit 1), every
behaviour-preserving refactoring must leave every check clean (exit 0).  Works on scratch copies of /repo/src (nothing in
/repo changes); the confirmation of each item (tests, demonstration / equivalence) is done by seed_eval.py / refac_eval.py.

usage: corpus_run.py [seeded|refactors|all] [--only id,id] [--checks C01,C02]"""
import json
import os
import shutil
import subprocess
import sys
import tempfile
from concurrent.futures import ThreadPoolExecutor

VERIF = os.path.dirname(os.path.dirname(os.path.abspath(__file__)))


def sh(cmd):
    return subprocess.run(cmd, shell=True, capture_output=True, text=True)


def main():
    which = sys.argv[1] if len(sys.argv) > 1 and not sys.argv[1].startswith('--') else 'all'
    only = sys.argv[sys.argv.index('--only') + 1].split(',') if '--only' in sys.argv else None
    man = json.load(open(os.path.join(VERIF, 'MANIFEST.json')))
    checks = [c['property_id'] for c in man['checks']]
    if '--checks' in sys.argv:
        checks = sys.argv[sys.argv.index('--checks') + 1].split(',')
    items = []
    for kind in ('seeded', 'refactors'):
        if which in (kind, 'all'):
            d = os.path.join(VERIF, kind)
            for name in sorted(os.listdir(d)):
                if only and name not in only:
                    continue
                if os.path.exists(os.path.join(d, name, 'patch.diff')):
                    items.append((kind, name))
    root = tempfile.mkdtemp(prefix='corpus_', dir='/tmp')
    try:
        jobs = []
        for kind, name in items:
            dst = os.path.join(root, kind + '_' + name)
            shutil.copytree('/repo/src', os.path.join(dst, 'src'))
            p = sh('cd %s && patch -s -p1 < %s' % (dst, os.path.join(VERIF, kind, name, 'patch.diff')))
            if p.returncode != 0:
                print('PATCH-FAILED', kind, name, p.stderr[-200:])
                continue
            for c in checks:
                jobs.append((kind, name, c, dst))

        def run(job):
            kind, name, c, dst = job
            r = sh('cd %s && ./check %s --tier quick --no-write --src %s/src/spectrum' % (VERIF, c, dst))
            lines = [l[:240] for l in r.stdout.splitlines() if l.startswith(('FINDING', 'ANALYSIS-ERROR'))]
            return kind, name, c, r.returncode, lines
        res = {}
        with ThreadPoolExecutor(16) as ex:
            for kind, name, c, rc, lines in ex.map(run, jobs):
                res.setdefault((kind, name), {})[c] = (rc, lines)
        bad = 0
        for (kind, name), per in sorted(res.items()):
            fired = sorted(c for c, (rc, _l) in per.items() if rc == 1)
            und = sorted(c for c, (rc, _l) in per.items() if rc == 2)
            if kind == 'seeded':
                status = 'DETECTED' if fired else ('UNDECIDED' if und else 'MISSED')
                if not fired:
                    bad += 1
                print('%-9s %-10s %-9s by %s%s' % (kind, name, status, ','.join(fired) or '-', (' exit2: ' + ','.join(und)) if und else ''))
            else:
                status = 'CLEAN' if not fired and not und else ('FALSE-ALARM' if fired else 'UNDECIDED')
                if status != 'CLEAN':
                    bad += 1
                print('%-9s %-10s %-11s %s%s' % (kind, name, status, ','.join(fired), (' exit2: ' + ','.join(und)) if und else ''))
                for c in fired + und:
                    for l in per[c][1][:2]:
                        print('      ', c, l)
        print('items: %d, not as expected: %d' % (len(res), bad))
        if which in ('seeded', 'all') and not only and '--checks' not in sys.argv:
            det = {name: sorted(c for c, (rc, _l) in per.items() if rc == 1) for (kind, name), per in res.items() if kind == 'seeded'}
            json.dump(det, open(os.path.join(VERIF, 'seeded', 'DETECTION.json'), 'w'), indent=1, sort_keys=True)
    finally:
        shutil.rmtree(root, ignore_errors=True)
    return 0


if __name__ == '__main__':
    sys.exit(main())
