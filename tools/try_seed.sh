#!/bin/bash
# usage: tools/try_seed.sh <seed id> <check ids...>   -- run checks on a scratch copy of /repo/src with the seeded patch (nothing in /repo changes)
id=$1; shift
d=/tmp/ts_$id
rm -rf $d; mkdir -p $d; cp -r /repo/src $d/src
(cd $d && patch -s -p1 < /verif/seeded/$id/patch.diff) || { echo "patch failed"; exit 3; }
for c in "$@"; do (cd /verif && ./check $c --src $d/src/spectrum --no-write 2>&1 | grep -v "^PROVED" | cut -c1-400 | tail -${TS_TAIL:-6}); done
rm -rf $d
