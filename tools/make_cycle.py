#!/usr/bin/env python3
"""prepare one cycle of sub-agent work: scratch worktrees of /repo (outside /repo and /verif) and the prompt files.
usage: make_cycle.py seed <prefix> <ids,..> <guidance file>   |   make_cycle.py refac <suffix> <ids,..> <guidance file>"""
import glob
import json
import os
import shutil
import subprocess
import sys

VERIF = os.path.dirname(os.path.dirname(os.path.abspath(__file__)))


def prop_text(pid):
    for l in open(os.path.join(VERIF, 'properties.jsonl')):
        p = json.loads(l)
        if p['id'] == pid:
            return '%s — %s\n\n%s\n\nQuantifier: %s\n\nWhy the existing tests cannot settle it: %s\n' % (
                p['id'], p['title'], p['statement'], p['quantifier']['text'], p['why_tests_cant'])
    raise SystemExit('no property ' + pid)


def main():
    kind, tag, ids, gfile = sys.argv[1:5]
    guidance = open(gfile).read().strip()
    tmpl = open(os.path.join(VERIF, 'tools', 'prompts', 'seed_prompt.txt' if kind == 'seed' else 'refactor_prompt.txt')).read()
    for pid in ids.split(','):
        wt = '/tmp/%s_%s' % (tag, pid) if kind == 'seed' else '/tmp/rf_%s%s' % (pid, tag)
        if not os.path.exists(wt):
            subprocess.run(['git', '-C', '/repo', 'worktree', 'add', '--detach', wt], check=True, capture_output=True)
            for so in glob.glob('/repo/src/spectrum/*.so'):
                shutil.copy(so, os.path.join(wt, 'src', 'spectrum'))
            os.makedirs(os.path.join(wt, '_out'), exist_ok=True)
        text = tmpl.replace('WORKTREE', wt).replace('PROPERTY_TEXT', prop_text(pid))
        text += '\n\nADDITIONAL GUIDANCE FOR THIS RUN: ' + guidance + '\n'
        out = '/tmp/prompt_%s_%s.txt' % (tag, pid)
        open(out, 'w').write(text)
        print(out, wt)


main()
