#!/usr/bin/env python3
"""Confirm a behaviour-preserving refactoring produced by a sub-agent and run every registered check against it.

usage: refac_eval.py <dir> <k> [--id NAME]      (dir holds _out/refactorK.diff, equivK.py, metaK.json)
       refac_eval.py --re <id>                   (re-run a refactoring kept under /verif/refactors/<id>)

1. scratch worktree of /repo HEAD + the patch: the pinned suite passes; the equivalence script gives numerically equal
   outputs on /repo/src and on the refactored tree;
2. every quick check runs on the refactored sources (--src, nothing in /repo changes): any FINDING is a false alarm of
   the machinery, any ANALYSIS-ERROR a place where it is brittle;
3. recorded under /verif/refactors/<id>/."""
import json
import os
import shutil
import subprocess
import sys
from concurrent.futures import ThreadPoolExecutor

VERIF = os.path.dirname(os.path.dirname(os.path.abspath(__file__)))
REPO = '/repo'


def sh(cmd, **kw):
    return subprocess.run(cmd, shell=True, capture_output=True, text=True, **kw)


def main():
    if sys.argv[1] == '--re':
        rid = sys.argv[2]
        d = os.path.join(VERIF, 'refactors', rid)
        diff, equiv = os.path.join(d, 'patch.diff'), os.path.join(d, 'equiv.py')
        meta = json.load(open(os.path.join(d, 'meta.json'))).get('agent_meta', {})
    else:
        src, k = sys.argv[1], sys.argv[2]
        out = os.path.join(src, '_out')
        diff = os.path.join(out, 'refactor%s.diff' % k)
        equiv = os.path.join(out, 'equiv%s.py' % k)
        meta = json.load(open(os.path.join(out, 'meta%s.json' % k)))
        rid = '%s_r%s' % (meta.get('property', 'X'), k)
        if '--id' in sys.argv:
            rid = sys.argv[sys.argv.index('--id') + 1]
    wt = '/tmp/wt_rf_%s' % rid
    sh('git -C %s worktree remove --force %s' % (REPO, wt))
    sh('git -C %s worktree add -q %s HEAD' % (REPO, wt))
    res = {'id': rid, 'agent_meta': meta}
    try:
        sh('cp -n %s/src/spectrum/*.so %s/src/spectrum/' % (REPO, wt))
        a = sh('git -C %s apply %s' % (wt, diff))
        if a.returncode != 0:
            print(json.dumps({'id': rid, 'applies': False, 'err': a.stderr[-300:]}))
            return 1
        t = sh('cd %s && PYTHONPATH=%s/src /venv/bin/python -W ignore -m pytest -q -p no:cacheprovider --timeout=900 2>&1 | tail -3' % (wt, wt))
        res['tests'] = t.stdout.strip().splitlines()[-1] if t.stdout.strip() else t.stderr[-200:]
        res['tests_pass'] = '165 passed' in t.stdout and 'failed' not in t.stdout
        o0, o1 = '/tmp/_rf_%s_orig.npz' % rid, '/tmp/_rf_%s_new.npz' % rid
        e0 = sh('cd /tmp && PYTHONPATH=%s/src /venv/bin/python -W ignore %s %s' % (REPO, equiv, o0))
        e1 = sh('cd /tmp && PYTHONPATH=%s/src /venv/bin/python -W ignore %s %s' % (wt, equiv, o1))
        cmp_ = sh("/venv/bin/python - <<'PY'\nimport numpy as np, sys\na=np.load('%s', allow_pickle=True); b=np.load('%s', allow_pickle=True)\nka, kb = sorted(a.files), sorted(b.files)\nok = ka == kb\nbad=[]\nfor k in ka:\n    if k not in b.files: continue\n    x, y = np.asarray(a[k]), np.asarray(b[k])\n    if x.shape != y.shape or not np.allclose(x, y, rtol=1e-9, atol=1e-12, equal_nan=True):\n        ok = False; bad.append(k)\nprint('EQUAL' if ok else 'DIFFERENT', len(ka), bad[:5])\nPY" % (o0, o1))
        res['equiv'] = cmp_.stdout.strip() or (e0.stderr + e1.stderr + cmp_.stderr)[-300:]
        res['equivalent'] = cmp_.stdout.startswith('EQUAL')
        for f in (o0, o1):
            if os.path.exists(f):
                os.remove(f)
        man = json.load(open(os.path.join(VERIF, 'MANIFEST.json')))
        checks = [c['property_id'] for c in man['checks']]
        with ThreadPoolExecutor(16) as ex:
            rs = list(ex.map(lambda c: sh('cd %s && ./check %s --tier quick --no-write --src %s/src/spectrum' % (VERIF, c, wt)), checks))
        fired = {}
        for c, r in zip(checks, rs):
            if r.returncode != 0:
                lines = [l for l in r.stdout.splitlines() if l.startswith('FINDING') or l.startswith('ANALYSIS-ERROR')]
                fired[c] = {'exit': r.returncode, 'lines': [l[:400] for l in lines[:6]]}
        res['not_clean'] = fired
    finally:
        sh('git -C %s worktree remove --force %s' % (REPO, wt))
    dest = os.path.join(VERIF, 'refactors', rid)
    os.makedirs(dest, exist_ok=True)
    if os.path.abspath(diff) != os.path.abspath(os.path.join(dest, 'patch.diff')):
        shutil.copy(diff, os.path.join(dest, 'patch.diff'))
        shutil.copy(equiv, os.path.join(dest, 'equiv.py'))
    json.dump({'agent_meta': meta, 'confirmed_behaviour_preserving': bool(res.get('tests_pass') and res.get('equivalent')),
               'tests': res.get('tests'), 'equivalence': res.get('equiv'),
               'false_alarms': sorted(c for c, v in fired.items() if v['exit'] == 1),
               'undecided_in': sorted(c for c, v in fired.items() if v['exit'] == 2), 'output': fired},
              open(os.path.join(dest, 'meta.json'), 'w'), indent=1)
    print(json.dumps({'id': rid, 'tests': res.get('tests'), 'equiv': res.get('equiv'),
                      'false_alarms': sorted(c for c, v in fired.items() if v['exit'] == 1),
                      'undecided': sorted(c for c, v in fired.items() if v['exit'] == 2)}))
    for c, v in fired.items():
        for l in v['lines'][:3]:
            print('   ', c, l[:260])
    return 0


if __name__ == '__main__':
    sys.exit(main())
