#!/usr/bin/env python3
"""Confirm a sub-agent's seeded change and run the registered checks against it.

usage: seed_eval.py <seed_dir> <k> [--props C01,C02]   (seed_dir holds _out/mutantK.diff, demoK.py, metaK.json)

1. scratch worktree of /repo HEAD + the patch: the pinned suite must still pass, the demonstration must pass on
   the unchanged tree and fail with the change;
2. the patch is applied to /repo, the quick checks run, and it is undone straight afterwards;
3. everything is recorded under /verif/seeded/<id>/ (patch.diff, the demonstration, meta.json)."""
import json
import os
import shutil
import subprocess
import sys

VERIF = os.path.dirname(os.path.dirname(os.path.abspath(__file__)))
REPO = '/repo'


def sh(cmd, **kw):
    return subprocess.run(cmd, shell=True, capture_output=True, text=True, **kw)


def main():
    props = None
    if '--props' in sys.argv:
        props = sys.argv[sys.argv.index('--props') + 1].split(',')
    if sys.argv[1] == '--re':
        # re-evaluate a change already kept under /verif/seeded/<id>
        sid = sys.argv[2]
        d = os.path.join(VERIF, 'seeded', sid)
        old = json.load(open(os.path.join(d, 'meta.json')))
        diff = '/tmp/_re_%s.diff' % sid
        demo = '/tmp/_re_%s_demo.py' % sid
        shutil.copy(os.path.join(d, 'patch.diff'), diff)
        shutil.copy(os.path.join(d, 'demo.py'), demo)
        meta = {'property': old['property'], 'what_changed': old.get('breaks'), 'file': old.get('file'),
                'function': old.get('function'), 'needs_to_manifest': old.get('needs_to_manifest')}
        prop = old['property']
    else:
        seed_dir, k = sys.argv[1], sys.argv[2]
        out = os.path.join(seed_dir, '_out')
        diff = os.path.join(out, 'mutant%s.diff' % k)
        demo = os.path.join(out, 'demo%s.py' % k)
        meta = json.load(open(os.path.join(out, 'meta%s.json' % k)))
        prop = meta.get('property')
        sid = '%s_%s' % (prop, k)
        if '--suffix' in sys.argv:
            sid += sys.argv[sys.argv.index('--suffix') + 1]
    wt = '/tmp/wt_eval_%s' % sid
    sh('git -C %s worktree remove --force %s' % (REPO, wt))
    r = sh('git -C %s worktree add -q %s HEAD' % (REPO, wt))
    res = {'property': prop, 'seed': sid, 'agent_meta': meta}
    try:
        sh('cp -n %s/src/spectrum/*.so %s/src/spectrum/' % (REPO, wt))
        a = sh('git -C %s apply %s' % (wt, diff))
        if a.returncode != 0:
            res['applies'] = False
            res['apply_error'] = a.stderr[-400:]
            print(json.dumps(res, indent=1))
            return 1
        res['applies'] = True
        t = sh('cd %s && PYTHONPATH=%s/src /venv/bin/python -W ignore -m pytest -q -p no:cacheprovider --timeout=900 2>&1 | tail -3' % (wt, wt))
        res['tests_with_change'] = t.stdout.strip().splitlines()[-1] if t.stdout.strip() else t.stderr[-200:]
        res['tests_pass'] = '165 passed' in t.stdout and 'failed' not in t.stdout
        d0 = sh('cd /tmp && PYTHONPATH=%s/src /venv/bin/python -W ignore %s' % (REPO, demo))
        d1 = sh('cd /tmp && PYTHONPATH=%s/src /venv/bin/python -W ignore %s' % (wt, demo))
        res['demo_unchanged_exit'] = d0.returncode
        res['demo_changed_exit'] = d1.returncode
        res['demo_changed_tail'] = (d1.stdout + d1.stderr)[-300:]
        res['confirmed'] = bool(res['tests_pass'] and d0.returncode == 0 and d1.returncode != 0)
    finally:
        sh('git -C %s worktree remove --force %s' % (REPO, wt))
    # run the checks against /repo with the patch applied
    man = json.load(open(os.path.join(VERIF, 'MANIFEST.json')))
    checks = [c['property_id'] for c in man['checks']]
    if props:
        checks = [c for c in checks if c in props]
    st = sh('git -C %s status --porcelain' % REPO)
    if st.stdout.strip():
        print('refusing: /repo has local changes')
        return 2
    a = sh('git -C %s apply %s' % (REPO, diff))
    fired = {}
    try:
        if a.returncode == 0:
            from concurrent.futures import ThreadPoolExecutor
            with ThreadPoolExecutor(16) as ex:
                rs = list(ex.map(lambda c: sh('cd %s && ./check %s --tier quick --no-write' % (VERIF, c)), checks))
            for c, r in zip(checks, rs):
                lines = [l for l in r.stdout.splitlines() if l.startswith('FINDING') or l.startswith('ANALYSIS-ERROR')]
                fired[c] = {'exit': r.returncode, 'lines': [l[:300] for l in lines[:4]]}
    finally:
        sh('git -C %s checkout -- .' % REPO)
    res['checks'] = {c: v for c, v in fired.items() if v['exit'] != 0}
    res['detected_by'] = sorted(c for c, v in fired.items() if v['exit'] == 1)
    res['exit2_by'] = sorted(c for c, v in fired.items() if v['exit'] == 2)
    res['checks_run'] = checks
    dest = os.path.join(VERIF, 'seeded', sid)
    os.makedirs(dest, exist_ok=True)
    shutil.copy(diff, os.path.join(dest, 'patch.diff'))
    shutil.copy(demo, os.path.join(dest, 'demo.py'))
    json.dump({
        'property': prop, 'breaks': meta.get('what_changed'), 'file': meta.get('file'), 'function': meta.get('function'),
        'needs_to_manifest': meta.get('needs_to_manifest'),
        'what_i_ran': ['scratch worktree of /repo HEAD + patch: pinned pytest suite (%s)' % res.get('tests_with_change'),
                       'demo.py on the unchanged tree: exit %s; with the change: exit %s' % (res.get('demo_unchanged_exit'), res.get('demo_changed_exit')),
                       'git -C /repo apply patch.diff; ./check <id> --tier quick for %s; git -C /repo checkout -- .' % ','.join(checks)],
        'confirmed': res.get('confirmed'), 'detected_by': res['detected_by'], 'analysis_error_in': res['exit2_by'],
        'check_output': res['checks'],
    }, open(os.path.join(dest, 'meta.json'), 'w'), indent=1)
    print(json.dumps({k_: res[k_] for k_ in ('seed', 'confirmed', 'tests_with_change', 'demo_unchanged_exit', 'demo_changed_exit',
                                              'detected_by', 'exit2_by')}, indent=None))
    for c, v in res['checks'].items():
        for l in v['lines'][:2]:
            print('   ', c, l[:220])
    return 0


if __name__ == '__main__':
    sys.exit(main())
